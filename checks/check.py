#!/venv/bin/python
"""Single entry point: check.py --prop Cxx --tier quick|thorough [--replay file]   (see DESIGN.md section 3/5)"""
import argparse
import importlib
import os
import sys
import traceback

sys.path.insert(0, os.path.dirname(os.path.dirname(os.path.abspath(__file__))))
from harness import engine  # noqa: E402


def main():
    ap = argparse.ArgumentParser()
    ap.add_argument('--prop', required=True)
    ap.add_argument('--tier', default=None, choices=['quick', 'thorough'])
    ap.add_argument('--replay', default=None)
    args = ap.parse_args()
    tier = os.environ.get('VERIF_TIER') or args.tier or 'quick'
    if tier not in ('quick', 'thorough'):
        tier = 'quick'
    try:
        seed = int(os.environ.get('VERIF_SEED', '0'))
    except ValueError:
        seed = 0
    try:
        engine.use_repo()
        mod = importlib.import_module('harness.props.' + args.prop.lower())
        prop = mod.PROP()
        if args.replay:
            return engine.replay(prop, args.replay)
        return engine.Run(prop, tier, seed).main()
    except engine.InfraError as ex:
        sys.stderr.write('INFRASTRUCTURE ERROR (%s): %s\n' % (args.prop, ex))
        return 2
    except Exception:
        sys.stderr.write('INFRASTRUCTURE ERROR (%s):\n%s\n' % (args.prop, traceback.format_exc()))
        return 2


if __name__ == '__main__':
    sys.exit(main())
