"""Importable home of the classes the harness creates dynamically (jsonpickle encodes classes and instances by
module path and must be able to import them back when decoding)."""


class Obj(object):
    """plain object of the faithful domain"""

    def __eq__(self, other):
        return isinstance(other, Obj) and self.__dict__ == other.__dict__

    def __ne__(self, other):
        return not self.__eq__(other)

    __hash__ = None


class CustomError(Exception):
    pass


class Unser(object):
    """a value whose serialisation raises (state holding a module): `jsonpickle.encode` raises TypeError on it"""

    def __getstate__(self):
        import sys
        return {'m': sys}

    def __deepcopy__(self, memo):
        return Unser()

    def __eq__(self, other):
        return isinstance(other, Unser)

    __hash__ = None


class UnserError(Exception):
    """an exception the serializer rejects; its repr is constant (the recorder stores the repr of such an exception when
    it leaves the operation, `_serializable_exception_form`)"""

    def __getstate__(self):
        import sys
        return {'m': sys}

    def __repr__(self):
        return 'UnserError()'


EXC = {'ValueError': ValueError, 'KeyError': KeyError, 'RuntimeError': RuntimeError, 'CustomError': CustomError,
       'IOError': IOError, 'ZeroDivisionError': ZeroDivisionError, 'AssertionError': AssertionError,
       'StopIteration': StopIteration, 'NotImplementedError': NotImplementedError, 'UnserError': UnserError}

INTERRUPTS = {'KeyboardInterrupt': KeyboardInterrupt, 'SystemExit': SystemExit, 'GeneratorExit': GeneratorExit}


def register(cls):
    """make a dynamically created class importable as harness.dyn.<name>"""
    cls.__module__ = __name__
    globals()[cls.__name__] = cls
    return cls
