"""Importable home of the classes the harness creates dynamically (jsonpickle encodes classes and instances by
module path and must be able to import them back when decoding)."""


class Obj(object):
    """plain object of the faithful domain"""

    def __eq__(self, other):
        return isinstance(other, Obj) and self.__dict__ == other.__dict__

    def __ne__(self, other):
        return not self.__eq__(other)

    __hash__ = None


class CustomError(Exception):
    pass


EXC = {'ValueError': ValueError, 'KeyError': KeyError, 'RuntimeError': RuntimeError, 'CustomError': CustomError,
       'IOError': IOError, 'ZeroDivisionError': ZeroDivisionError, 'AssertionError': AssertionError,
       'StopIteration': StopIteration, 'NotImplementedError': NotImplementedError}

INTERRUPTS = {'KeyboardInterrupt': KeyboardInterrupt, 'SystemExit': SystemExit, 'GeneratorExit': GeneratorExit}


def register(cls):
    """make a dynamically created class importable as harness.dyn.<name>"""
    cls.__module__ = __name__
    globals()[cls.__name__] = cls
    return cls
