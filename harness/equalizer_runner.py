"""Runs ONE scripted comparison sequence on the REAL `playback.studio.equalizer.Equalizer` and prints a transcript.

Run as a subprocess per sequence (`python equalizer_runner.py < case.json`): the Equalizer starts real worker processes
with `multiprocessing`, which cannot be done from the daemonic workers of a `multiprocessing.Pool`.

case = {"ids": [str…], "beh": {id: beh}, "mode": "ded"|"inproc", "keep": bool, "rate": int, "timeout": seconds,
        "consume": ["all"] | ["close", k] | ["raise", k]}
beh  = {"k":"verdict","s":status,"m":msg} | {"k":"bare","s":status} | {"k":"playerRaises","m":msg} |
       {"k":"extractorRaises","m":msg} | {"k":"comparatorRaises","m":msg} | {"k":"exit"} |
       {"k":"hang"[, "sigterm": "ignore"|"handler"]} (the hanging player first makes its process immune to SIGTERM) |
       {"k":"late","s":status,"m":msg}

`late` ("the worker answers just after the parent gave up") is made deterministic the way DESIGN.md describes: the
player sleeps until GIVE_UP + LATE_DELTA after it was started, and the Equalizer is a subclass whose
`_kill_compare_process` waits KILL_DELAY (> LATE_DELTA) before delegating - a legal schedule of the parent.

transcript = {"comparisons": [{id,status,message,playback,expected,actual,flags}], "dt": [seconds per comparison],
              "tasks": [[id, worker-identity, player start time, player end time | null]…] in execution order,
              "giveups": [[position, time the parent gave up, time the kill was sent]…],
              "left": [pids of live non-zombie children 1 s after the run],
              "overdue": null | position whose comparison did not arrive within the watchdog limit}
"""
import json
import os
import signal
import sys
import tempfile
import threading
import time

REPO = os.environ.get('VERIF_REPO', '/repo')
sys.path.insert(0, os.path.dirname(os.path.dirname(os.path.abspath(__file__))))
sys.path.insert(0, REPO)
from harness import covprobe  # noqa: E402

covprobe.install_from_env()
import logging  # noqa: E402

logging.disable(logging.CRITICAL)
import multiprocessing as mp  # noqa: E402

from playback.studio.equalizer import Equalizer, CompareExecutionConfig, ComparatorResult, EqualityStatus  # noqa: E402

LATE_DELTA = 0.5      # a late worker answers this long after the parent's last poll ended
KILL_DELAY = 1.5      # the parent's kill lands this long after it gave up (only in sequences that contain a `late`)
HANG = 300            # seconds a hanging player sleeps
WATCHDOG_SLACK = 15   # a comparison is overdue after polls + KILL_DELAY + this many seconds
PARENT = os.getpid()


class FakeRecording(object):
    def __init__(self, rid):
        self.id = rid


class FakePlayback(object):
    def __init__(self, rid):
        self.original_recording = FakeRecording(rid)
        self.recorded_outputs = ('rec', rid)
        self.playback_outputs = ('act', rid)


def _unreadable(rid):
    raise TypeError('unreadable ' + rid)


class Unreadable(object):
    """pickles (in the worker), cannot be unpickled (by the parent): e.g. an exception class with required constructor
    arguments among the replayed outputs"""
    def __init__(self, rid):
        self.rid = rid

    def __reduce__(self):
        return (_unreadable, (self.rid,))


class ConsumerError(Exception):
    pass


def polls_of(timeout):
    """1 s polls of the wait loop when nothing arrives: iterations start at 0,1,2… s while elapsed <= timeout"""
    return int(timeout) + 1


def proc_identity(pid):
    try:
        with open('/proc/%d/stat' % pid) as f:
            rest = f.read().rsplit(')', 1)[1].split()
        return '%d@%s' % (pid, rest[19])     # pid @ start time (clock ticks since boot)
    except Exception:
        return '%d@?' % pid


def live_children():
    """pids of live (non-zombie) child processes of this process"""
    out = []
    for d in os.listdir('/proc'):
        if not d.isdigit():
            continue
        try:
            with open('/proc/%s/stat' % d) as f:
                rest = f.read().rsplit(')', 1)[1].split()
        except Exception:
            continue
        state, ppid = rest[0], int(rest[1])
        if ppid == PARENT and state not in ('Z', 'X'):
            out.append(int(d))
    return sorted(out)


def _child_work():
    pass


def main():
    case = json.load(sys.stdin)
    ids, beh = case['ids'], case['beh']
    timeout = case['timeout']
    give_up = polls_of(timeout)
    tmp = tempfile.mkdtemp(prefix='eqrun-')
    tasklog = os.path.join(tmp, 'tasks.log')
    open(tasklog, 'w').close()

    def note(line):
        with open(tasklog, 'a') as f:
            f.write(line + '\n')

    def player(rid):
        t0 = time.time()
        note('S %s %s %.6f' % (rid, proc_identity(os.getpid()), t0))
        b = beh[rid]
        k = b['k']
        in_worker = os.getpid() != PARENT
        if k == 'exit' and in_worker:
            os._exit(3)
        if k == 'hang' and in_worker:
            # variants of the same behaviour: the replayed code has installed a graceful-shutdown SIGTERM handler (or
            # ignores SIGTERM) before it hangs - only SIGKILL gets rid of such a worker
            if b.get('sigterm') == 'ignore':
                signal.signal(signal.SIGTERM, signal.SIG_IGN)
            elif b.get('sigterm') == 'handler':
                signal.signal(signal.SIGTERM, lambda signum, frame: None)
            time.sleep(HANG)
        if k == 'late' and in_worker:
            time.sleep(max(0.0, t0 + give_up + LATE_DELTA - time.time()))
        if b.get('child'):
            import multiprocessing
            child = multiprocessing.Process(target=_child_work)
            child.start()
            child.join()
        note('A %s %.6f %.6f' % (rid, t0, time.time()))       # the player call is over (it returns or raises now)
        if k == 'playerRaises':
            raise RuntimeError(b['m'])
        pb = FakePlayback(rid)
        if k == 'unreadable':
            pb.carried = Unreadable(rid)
        return pb

    def extractor(outs):
        side, rid = outs
        if beh[rid]['k'] == 'extractorRaises':
            raise RuntimeError(beh[rid]['m'])
        return [side, rid]

    def data_extractor(recording):
        # comparison data is per recording: some recordings carry a tolerance of their own, the others carry none
        return {'tol': recording.id} if beh[recording.id].get('cd') else {}

    def comparator(a, b, **data):
        bb = beh[a[1]]
        k = bb['k']
        want = {'tol': a[1]} if bb.get('cd') else {}
        if data != want:
            return ComparatorResult(EqualityStatus.Failed, 'comparator of %s was handed the comparison data %r' % (a[1], sorted(data.items())))
        if k == 'comparatorRaises':
            raise RuntimeError(bb['m'])
        if k == 'bare':
            return EqualityStatus[bb['s']]
        if k in ('verdict', 'late', 'unreadable'):
            return ComparatorResult(EqualityStatus[bb['s']], bb['m'])
        return ComparatorResult(EqualityStatus.Equal, 'unscripted')

    kill_delay = KILL_DELAY if any(b['k'] == 'late' for b in beh.values()) else 0.0

    class SlowKill(Equalizer):
        def _kill_compare_process(self):
            entered = time.time()
            time.sleep(kill_delay)
            out['giveups'].append([len(out['comparisons']), entered, time.time()])
            super(SlowKill, self)._kill_compare_process()

    before = set(live_children())
    eq = SlowKill(iter(ids), player, extractor, comparator, comparison_data_extractor=data_extractor,
                  compare_execution_config=CompareExecutionConfig(
                      keep_results_in_comparison=case['keep'],
                      compare_in_dedicated_process=(case['mode'] == 'ded'),
                      compare_process_recycle_rate=case['rate'],
                      compare_process_timeout=timeout))
    out = {'comparisons': [], 'dt': [], 'overdue': None, 'giveups': []}
    state = {'last': time.time(), 'done': False}
    limit = give_up + kill_delay + WATCHDOG_SLACK

    def read_tasks():
        """[[id, worker identity, start time, answer time | None]…] in execution order"""
        tasks, answers = [], {}
        with open(tasklog) as f:
            for line in f:
                parts = line.split()
                if len(parts) == 4 and parts[0] == 'S':
                    tasks.append([parts[1], parts[2], parts[3], None])
                elif len(parts) == 4 and parts[0] == 'A':
                    answers[(parts[1], parts[2])] = float(parts[3])
        for t in tasks:
            t[3] = answers.get((t[0], t[2]))
            t[2] = float(t[2])
        return tasks

    def emit():
        out['tasks'] = read_tasks()
        sys.stdout.write(json.dumps(out))
        sys.stdout.flush()

    def cleanup():
        for pid in live_children():
            if pid not in before:
                try:
                    os.kill(pid, 9)
                except OSError:
                    pass
        try:
            os.remove(tasklog)
            os.rmdir(tmp)
        except OSError:
            pass

    def watchdog():
        while not state['done']:
            time.sleep(0.25)
            if not state['done'] and time.time() - state['last'] > limit:
                out['overdue'] = len(out['comparisons'])
                out['left'] = []
                emit()
                cleanup()
                os._exit(0)

    wd = threading.Thread(target=watchdog)
    wd.daemon = True
    wd.start()

    def record(c):
        now = time.time()
        out['dt'].append(round(now - state['last'], 3))
        state['last'] = now
        pb = c.playback
        out['comparisons'].append({
            'id': c.recording_id,
            'status': getattr(getattr(c.comparator_status, 'equality_status', None), 'name', repr(c.comparator_status)),
            'message': getattr(c.comparator_status, 'message', None),
            'playback': None if pb is None else pb.original_recording.id,
            'expected': c.expected, 'actual': c.actual,
            'flags': None if c.expected_is_exception is None and c.actual_is_exception is None
            else [c.expected_is_exception, c.actual_is_exception]})

    consume = case.get('consume', ['all'])
    state['last'] = time.time()
    if consume[0] == 'all':
        for c in eq.run_comparison():
            record(c)
    elif consume[0] == 'close':
        gen = eq.run_comparison()
        for _ in range(consume[1]):
            try:
                record(next(gen))
            except StopIteration:
                break
        if len(consume) > 2:
            time.sleep(consume[2])      # the consumer is busy for a while (the worker sits idle) before it abandons the run
        try:
            gen.close()
        except BaseException as ex:     # the generator did not unwind (implementation behaviour, reported by the oracles)
            out['close_error'] = '%s: %s' % (type(ex).__name__, ex)
        del gen
    else:
        def consumer():
            n = 0
            for c in eq.run_comparison():
                record(c)
                n += 1
                if n >= consume[1]:
                    raise ConsumerError('consumer failed after %d' % n)
        try:
            consumer()
        except ConsumerError:
            pass
    state['done'] = True
    del eq
    time.sleep(1.0)
    out['left'] = [p for p in live_children() if p not in before]
    mp.active_children()
    emit()
    cleanup()


if __name__ == '__main__':
    main()
