"""Values of the serializer's faithful domain for recorder-level cases: wire form <-> Python value <-> canonical text.

wire: null | true/false | {"i": "<int>"} | {"f": "<repr>"} | {"s": str} | {"b": hex} | {"l": [..]} | {"t": [..]} |
      {"set": [..]} | {"d": [[k, v]..]} | {"o": [[k, v]..]} (harness.dyn.Obj with attributes) | {"x": "ExcType"} |
      {"dup": w} (a two element list holding the SAME object twice) | {"cyc": [..]} (a list whose last element is itself)
The canonical text is what the Lean recorder model carries as an opaque atom; it must be injective up to Python
structural equality on this domain and composable (tuples, the wrapping handler) without knowing the parts.
"""
import json

from harness import dyn


def to_py(w):
    if w is None or isinstance(w, bool):
        return w
    if 'i' in w:
        return int(w['i'])
    if 'f' in w:
        return float(w['f'])
    if 's' in w:
        return w['s']
    if 'b' in w:
        return bytes.fromhex(w['b'])
    if 'l' in w:
        return [to_py(x) for x in w['l']]
    if 't' in w:
        return tuple(to_py(x) for x in w['t'])
    if 'set' in w:
        return set(to_py(x) for x in w['set'])
    if 'd' in w:
        return {k: to_py(v) for k, v in w['d']}
    if 'o' in w:
        o = dyn.Obj()
        for k, v in w['o']:
            setattr(o, k, to_py(v))
        return o
    if 'x' in w:
        return dyn.EXC[w['x']]('boom')
    if 'cls' in w:       # a class object passed around as data (an event type, a model class)
        return {'ValueError': ValueError, 'KeyError': KeyError, 'dict': dict, 'Obj': dyn.Obj}[w['cls']]
    if 'dup' in w:
        x = to_py(w['dup'])
        return [x, x]
    if 'cyc' in w:
        l = [to_py(x) for x in w['cyc']]
        l.append(l)
        return l
    raise TypeError('bad wire value %r' % (w,))


def canon(v, _path=()):
    """canonical text of a Python value (also of values decoded back from a recording).  Equal values have equal texts; a
    container that contains itself is written `*<k>` at the back reference, k levels up (sharing without a cycle is not
    part of the text: Python's == does not see it, and the serializer does not keep it for plain dicts)"""
    if isinstance(v, (list, dict, dyn.Obj)):
        if id(v) in _path:
            return '*%d' % (len(_path) - _path.index(id(v)))
        _path = _path + (id(v),)
    if v is None:
        return 'None'
    if isinstance(v, bool):
        return 'True' if v else 'False'
    if isinstance(v, int):
        return repr(v)
    if isinstance(v, float):
        return repr(v)
    if isinstance(v, str):
        return json.dumps(v)
    if isinstance(v, bytes):
        return 'b' + v.hex()
    if isinstance(v, list):
        return '[' + ','.join(canon(x, _path) for x in v) + ']'
    if isinstance(v, tuple):
        return '(' + ','.join(canon(x, _path) for x in v) + ')'
    if isinstance(v, (set, frozenset)):
        return 'set{' + ','.join(sorted(canon(x, _path) for x in v)) + '}'
    if isinstance(v, dict):
        return '{' + ','.join(json.dumps(k) + ':' + canon(x, _path)
                              for k, x in sorted(v.items(), key=lambda kv: str(kv[0]))) + '}'
    if isinstance(v, dyn.Obj):
        return 'Obj' + canon(v.__dict__, _path)
    if isinstance(v, dyn.Unser):
        return '<unser>'
    if isinstance(v, BaseException):
        return 'exc:' + type(v).__name__
    if isinstance(v, type):
        return 'cls:' + v.__name__
    return 'other:' + type(v).__name__


def no_objects(j):
    """the same case/wire JSON with every {"o": ..} value turned into the dict {"d": ..} (used where a value with internal
    aliasing is generated: an object written before it shifts the serializer's reference numbers, known finding K7)"""
    if isinstance(j, list):
        return [no_objects(x) for x in j]
    if isinstance(j, dict):
        if set(j) == {'o'}:
            return {'d': no_objects(j['o'])}
        return {k: no_objects(x) for k, x in j.items()}
    return j


def aliased_value(rng):
    inner = {'l': [rand_value(rng, 0) for _ in range(rng.randint(0, 2))]} if rng.random() < 0.6 else \
        {'d': [[k, rand_value(rng, 0)] for k in rng.sample(['k', 'a'], rng.randint(0, 2))]}
    if rng.random() < 0.4:
        return {'dup': inner}
    return {'cyc': [rand_value(rng, 0) for _ in range(rng.randint(0, 2))]}


def canon_wire(w):
    return canon(to_py(w))


def rand_value(rng, depth=2):
    """mostly small values, sometimes nested containers / bytes / objects; never a set directly (K1) unless asked"""
    c = rng.random()
    if c < 0.08:
        return None
    if c < 0.16:
        return rng.choice([True, False])
    if c < 0.36:
        return {'i': str(rng.choice([0, 1, 2, 3, 7, -1, 10, 255, 2 ** 70]))}
    if c < 0.42:
        return {'f': repr(rng.choice([0.5, -0.0, 1.25, 1e100, 3.0]))}
    if c < 0.62:
        return {'s': rng.choice(['', 'a', 'b', 'ab', 'x y', 'quote"d', 'back\\slash', 'é', '\U0001f600', 'line\nbreak', '#1', 'args=',
                                # texts that look like the recorder's own reserved names (they are ordinary values)
                                '_tape_recorder_operation', '_tape_recorder_operation_class', 'output: _tape_recorder_operation #1.output'])}
    if c < 0.68:
        return {'b': bytes(rng.randrange(256) for _ in range(rng.randint(0, 12))).hex()}
    if depth <= 0:
        return {'l': []}
    if c < 0.78:
        return {'l': [rand_value(rng, depth - 1) for _ in range(rng.randint(0, 3))]}
    if c < 0.86:
        return {'t': [rand_value(rng, depth - 1) for _ in range(rng.randint(0, 3))]}
    if c < 0.94:
        return {'d': [[k, rand_value(rng, depth - 1)] for k in rng.sample(['k', 'a', 'z', 'n m', 'é'], rng.randint(0, 3))]}
    return {'o': [[k, rand_value(rng, depth - 1)] for k in rng.sample(['x', 'y', 'name'], rng.randint(1, 2))]}   # attribute-less objects decode to None (py/state null)
