"""Generators of recorder *history* cases (see recorder_sim.py for the format).  Every random choice comes from `rng`."""
from harness.rvals import rand_value, aliased_value, no_objects

EXCS = ['ValueError', 'KeyError', 'RuntimeError', 'CustomError', 'AssertionError', 'NotImplementedError']
INTERRUPTS = ['KeyboardInterrupt', 'SystemExit', 'GeneratorExit']
ALIASES_IN = ['fetch', 'load', 'cfg', 'fetch']          # the same alias may be shared by two functions
ALIASES_OUT = ['send', 'store', 'send', 'svc.store_result', 'audit-log', 'send']      # (aliases are free text: dots, dashes)


def const(w):
    return {'c': w}


def exc_choice(rng, opts):
    """an ordinary exception type; among the faults: one the serializer rejects"""
    if opts.get('faults') and rng.random() < 0.1:
        return 'UnserError'
    return rng.choice(EXCS)


def small_arg(rng):
    """arguments that are captured into keys: keep them key-friendly (no sets: K1)"""
    c = rng.random()
    if c < 0.4:
        return {'i': str(rng.choice([0, 1, 2, 3, 5, 11]))}
    if c < 0.6:
        # (argument texts that look like aliases / key fragments: a key is built from texts, it must not confuse them)
        return {'s': rng.choice(['a', 'b', 'x y', 'q"uote', 'é', 'fetch', 'load', 'cfg', 'in0', 'input: fetch', 'fetch args='])}
    if c < 0.7:
        return None
    if c < 0.8:
        return rng.choice([True, False])
    return rand_value(rng, 1)


def gen_in_site(rng, name, idx, opts):
    nargs = rng.choice([0, 1, 1, 2, 3])
    flavor = rng.choice(['instance', 'instance', 'static', 'property']) if nargs == 0 else rng.choice(['instance', 'instance', 'static'])
    kwnames = rng.sample(['k', 'opt'], rng.choice([0, 0, 1, 2])) if flavor != 'property' else []
    c = rng.random()
    if c < 0.5 or flavor == 'property':
        capture = 'all'
        cap_pos, cap_kw = list(range(nargs)), list(kwnames)
    elif c < 0.65:
        capture = 'none'
        cap_pos, cap_kw = [], []
    else:
        sel = []
        cap_pos, cap_kw = [], []
        for p in range(nargs):
            if rng.random() < 0.6:
                sel.append([p, 'p%d' % p])
                cap_pos.append(p)
        for k in kwnames:
            if rng.random() < 0.6:
                sel.append([None, k])
                cap_kw.append(k)
        if opts.get('faults') and rng.random() < 0.08:
            sel.append([nargs + 3, 'nope'])          # out-of-range position: key cannot be built
        capture = sel
    resolver = None
    if nargs > 0 and rng.random() < 0.2:
        resolver = {'arg': rng.randrange(nargs)}
    if opts.get('faults') and rng.random() < 0.1:
        resolver = 'fails'
    site = {'kind': 'in', 'alias': rng.choice(ALIASES_IN) if rng.random() < 0.5 else 'in%d' % idx, 'flavor': flavor,
            'capture': capture, 'resolver': resolver, 'nargs': nargs, 'kwnames': kwnames,
            'handler': rng.choice(['', '', '', 'wrap'] + (['fail'] if opts.get('faults') else [])),
            'runOriginal': False, 'substitute': None, 'fallbacks': None}
    if opts.get('policies'):
        site['runOriginal'] = rng.random() < 0.2
        site['substitute'] = rng.choice([None, None, {'const': {'i': '0'}}, {'const': {'s': ''}}, {'const': {'l': []}},
                                         {'const': {'d': []}}, {'const': False}, {'const': {'i': '5'}}, 'echo',
                                         {'raises': 'ValueError'}])
        if flavor == 'property' and site['substitute'] == 'echo':
            site['substitute'] = {'const': {'t': []}}
        if rng.random() < 0.35:
            site['fallbacks'] = rng.sample(['fetch', 'load', 'cfg', 'in0', 'in1', 'gone'], rng.randint(1, 2))
            site['fallbacksAsFunction'] = rng.random() < 0.4
            # (any iterable of aliases will do: a tuple, the keys of a rename map, a frozenset constant)
            site['fallbacksShape'] = rng.choice([None, None, 'tuple', 'keys', 'frozenset'])
        elif opts.get('faults') and rng.random() < 0.05:
            site['fallbacks'] = 'raises'
    if not opts.get('policies') and opts.get('fallbacks') and rng.random() < 0.35:
        # a renamed / split input that keeps older aliases as fallbacks - aliases that other live inputs may still use
        site['fallbacks'] = rng.sample(['fetch', 'load', 'cfg', 'in0', 'in1', 'gone'], rng.randint(1, 2))
        site['fallbacksAsFunction'] = rng.random() < 0.4
    # the body's result is a function of the alias and the captured arguments only (the design's premise)
    keyparts = [{'v': 'a%d' % p} for p in cap_pos if not (isinstance(resolver, dict) and False)]
    if isinstance(resolver, dict) and resolver['arg'] not in cap_pos:
        keyparts.append({'v': 'a%d' % resolver['arg']})
    keyparts += [{'v': 'kw:' + k} for k in cap_kw]
    body = []
    if opts.get('body_effects') and rng.random() < 0.25:
        body.append({'op': rng.choice(['force', 'discard', 'rec', 'disable', 'enable'] if opts.get('faults') else ['force', 'rec']),
                     'k': 'note', 'e': const({'s': 'from-body'})})
    extra = [const(rand_value(rng, 2))] if rng.random() < 0.5 else []
    if opts.get('aliasing') and rng.random() < 0.5:
        extra = [const(aliased_value(rng))]           # a value with a back reference / one object reachable twice
    elif opts.get('faults') and rng.random() < 0.06:
        extra = [const({'unser': 1})]                 # a value the serializer rejects (`encode` raises)
    result = {'t': [const({'s': 'r:' + site['alias']})] + keyparts + extra}
    if keyparts and rng.random() < 0.3:
        # raises for one particular captured value, returns otherwise
        body.append({'op': 'ifeq', 'x': keyparts[0]['v'], 'e': const({'i': '1'}),
                     'then': [{'op': 'raise', 't': exc_choice(rng, opts)}], 'else': []})
    elif not keyparts and rng.random() < 0.15:
        body.append({'op': 'raise', 't': exc_choice(rng, opts)})
    if opts.get('interrupts') and rng.random() < 0.06:
        body.append({'op': 'interrupt', 't': rng.choice(INTERRUPTS)})
    body.append({'op': 'ret', 'e': result})
    site['body'] = body
    return site


def gen_out_site(rng, name, idx, opts):
    nargs = rng.choice([0, 1, 1, 2])
    site = {'kind': 'out', 'alias': rng.choice(ALIASES_OUT) if rng.random() < 0.6 else 'out%d' % idx,
            'flavor': rng.choice(['instance', 'instance', 'static']), 'nargs': nargs,
            'kwnames': rng.sample(['k', 'opt'], rng.choice([0, 0, 1])),
            'handler': rng.choice(['', '', '', 'wrap'] + (['fail'] if opts.get('faults') else [])),
            'failOnMissing': True, 'default': None}
    body = []
    if opts.get('body_effects') and rng.random() < 0.2:
        body.append({'op': rng.choice(['force', 'discard'] if opts.get('faults') else ['force'])})
    c = rng.random()
    if c < 0.15:
        body.append({'op': 'raise', 't': exc_choice(rng, opts)})
    elif opts.get('interrupts') and c < 0.2:
        body.append({'op': 'interrupt', 't': rng.choice(INTERRUPTS)})
    body.append({'op': 'ret', 'e': rng.choice([const(None), const({'s': 'ack'}), {'t': [{'v': 'a%d' % i} for i in range(nargs)]},
                                               const(rand_value(rng, 2))])})
    if site['handler'] == 'wrap' and nargs > 0 and 'c' in body[-1]['e'] and rng.random() < 0.4:
        # the output function changes the argument it was handed, in place; the (serialising) handler has seen it before
        body.insert(0, {'op': 'stamp', 'x': 'a%d' % rng.randrange(nargs)})
    site['body'] = body
    if opts.get('policies'):
        site['failOnMissing'] = rng.random() < 0.6
        site['default'] = rng.choice([None, {'i': '0'}, {'s': 'dflt'}, {'t': []}])
    return site


def gen_call(rng, sname, site, varname, env_vars):
    args = []
    for pos in range(site['nargs']):
        if isinstance(site.get('resolver'), dict) and site['resolver']['arg'] == pos:
            # alias parameters are formatted with str(): keep them plain ints (str() of a dict depends on insertion order)
            args.append(const({'i': str(rng.choice([0, 1, 2, 3]))}))
        elif env_vars and rng.random() < 0.2:
            args.append({'v': rng.choice(env_vars)})
        elif site['kind'] == 'out' and rng.random() < (0.3 if pos == 0 and site.get('flavor') == 'static' else 0.05):
            # a class object sent as data (an event type, a model class) - in first position it looks like a classmethod's cls
            args.append(const({'cls': rng.choice(['ValueError', 'KeyError', 'dict', 'Obj'])}))
        else:
            args.append(const(small_arg(rng)))
    kw = [[k, const(small_arg(rng))] for k in site.get('kwnames', []) if rng.random() < 0.7]
    st = {'op': 'call', 's': sname, 'x': varname, 'args': args}
    if kw:
        st['kw'] = kw
    return st


def gen_script(rng, sites, opts, length=None):
    names = sorted(sites)
    n = length if length is not None else rng.choice([0, 1, 2, 3, 4, 5, 6, 8])
    if opts.get('long') and rng.random() < 0.2:
        n = rng.randint(10, 14)
    script, vars_ = [], []
    for i in range(n):
        c = rng.random()
        if names and c < 0.8:
            if opts.get('long') and vars_ and rng.random() < 0.5:
                sname = script[-1].get('s', rng.choice(names)) if script and script[-1]['op'] == 'call' else rng.choice(names)
            else:
                sname = rng.choice(names)
            x = 'x%d' % i
            script.append(gen_call(rng, sname, sites[sname], x, [v for v in vars_]))
            vars_.append(x)
            if rng.random() < 0.25:
                script.append({'op': 'ifexc', 'x': x, 'then': [{'op': 'reraise', 'x': x}], 'else': []})
        elif c < 0.85 and opts.get('data'):
            script.append({'op': 'rec', 'k': 'data%d' % rng.randint(0, 1), 'e': const(rand_value(rng, 2))})
        elif c < 0.9 and opts.get('data'):
            x = 'p%d' % i
            script.append({'op': 'play', 'k': 'data%d' % rng.randint(0, 1), 'x': x})
            vars_.append(x)
        elif c < 0.95 and opts.get('control'):
            st = {'op': rng.choice(['force', 'discard'] * 3 + ['disable', 'enable'])}
            if rng.random() < 0.3:
                st['thread'] = True          # asked for from a helper thread the operation starts and joins
            script.append(st)
    c = rng.random()
    if c < 0.7:
        script.append({'op': 'ret', 'e': {'t': [{'v': v} for v in vars_] + [const(rand_value(rng, 1))]}})
    elif c < 0.85 or not opts.get('interrupts'):
        script.append({'op': 'raise', 't': exc_choice(rng, opts)})
    else:
        script.append({'op': 'interrupt', 't': rng.choice(INTERRUPTS)})
    return script


def gen_params(rng, opts):
    if not opts.get('sampling') or rng.random() < 0.5:
        return None if rng.random() < 0.7 else {'rate': [1, 1], 'ignore': False, 'skipped': False, 'copy': rng.random() < 0.5}
    return {'rate': rng.choice([[0, 1], [1, 4], [1, 2], [1, 1], [3, 2]]), 'ignore': rng.random() < 0.3,
            'skipped': rng.random() < 0.1, 'copy': rng.random() < 0.3}


def gen_sites(rng, opts):
    sites = {}
    for i in range(rng.randint(1, 3)):
        site = gen_in_site(rng, 'i%d' % i, i, opts)
        for other in sites.values():
            if other['kind'] == 'in' and other['alias'] == site['alias']:
                # two functions behind one alias share one key space: the design's premise (an input is a function of its
                # alias and captured arguments) then requires them to be the same function with the same configuration
                flavor = site['flavor'] if (site['flavor'] != 'property' or other['nargs'] == 0) else 'instance'
                site = dict(other, flavor=flavor if other['kwnames'] == [] or flavor != 'property' else 'instance')
                break
        sites['i%d' % i] = site
    for i in range(rng.randint(0, 2)):
        sites['o%d' % i] = gen_out_site(rng, 'o%d' % i, i, opts)
    if opts.get('nested') and rng.random() < 0.4:
        # an intercepted function that calls other intercepted functions from its body
        inner = rng.choice(sorted(sites))
        outer = gen_in_site(rng, 'n0', 9, dict(opts, faults=False))
        outer['alias'] = 'nest'
        outer['body'] = [gen_call(rng, inner, sites[inner], 'inner', [])] + outer['body']
        sites['n0'] = outer
    return sites


def created_by(run, classes):
    """does this run create a recording?"""
    if run['run'] != 'op' or not run['enabled']:
        return False
    p = classes[run['cls']].get('params')
    return not (p and p['skipped'])


def gen_history(rng, opts):
    sites = gen_sites(rng, opts)
    classes = {}
    for cname in ['OpA'] + (['OpB'] if rng.random() < 0.4 else []):
        classes[cname] = {'params': gen_params(rng, opts), 'classLevel': rng.random() < 0.2,
                          'hasExtractor': bool(opts.get('extractors')) and rng.random() < 0.5}
    if 'OpB' in classes and rng.random() < 0.4:
        # OpB inherits the decorated operation of OpA (one decorated function shared by two classes)
        classes['OpB']['base'] = 'OpA'
        classes['OpB']['classLevel'] = classes['OpA']['classLevel']
        classes['OpB']['hasExtractor'] = classes['OpA']['hasExtractor']
    runs = []
    created = 0
    scripts = []
    nruns = rng.randint(*opts.get('runs', (1, 4)))
    for r in range(nruns):
        cname = rng.choice(sorted(classes))
        play = created > 0 and rng.random() < opts.get('play_ratio', 0.4)
        t0 = 10 * r
        if opts.get('foreign') and rng.random() < 0.1:
            # a recording that was not made by this recorder (imported / saved through the cassette API), possibly without
            # the duration metadata and without an operation output; later runs may replay it
            runs.append({'run': 'foreign', 'cls': cname, 'enabled': True, 'script': [], 'duration': rng.random() < 0.4,
                         'output': rng.choice([None, {'s': 'done'}, {'i': '7'}])})
            scripts.append((cname, gen_script(rng, sites, opts, length=rng.choice([0, 0, 1, 2]))))
            created += 1
            continue
        if play or (opts.get('missing_play') and rng.random() < 0.08):
            if created > 0 and rng.random() < 0.9:
                n = rng.randrange(created)
                cname_rec, script_rec = scripts[n]
                if rng.random() < opts.get('same_script', 0.7):
                    cname, script = cname_rec, script_rec
                else:
                    script = gen_script(rng, sites, opts)
            else:
                n, script = -1, gen_script(rng, sites, opts)
            runs.append({'run': 'play', 'cls': cname, 'rec': n, 'enabled': rng.random() < 0.5, 'script': script,
                         'clock': [t0 + 1, t0 + 2, t0 + 3]})
        else:
            script = gen_script(rng, sites, opts)
            run = {'run': 'op', 'cls': cname, 'enabled': rng.random() < opts.get('enabled_ratio', 0.9), 'script': script,
                   'draws': [rng.choice([[0, 1], [1, 4], [1, 2], [3, 4], [1, 1]]) for _ in range(2)],
                   'clock': [t0 + 1, t0 + 1 + rng.randint(0, 5), t0 + 8, t0 + 9],
                   'saveFails': bool(opts.get('faults')) and rng.random() < 0.1}
            if rng.random() < 0.12:
                run['inHandler'] = rng.choice(['RuntimeError', 'RuntimeError', 'KeyboardInterrupt'])
            if not run['enabled'] and not classes[cname].get('classLevel') and rng.random() < 0.4:
                # recording is off: the decorators are pure pass-through, however the service spells the call -
                # `Service.execute(self=obj, script=...)` has no positional argument at all
                run['kwOnly'] = True
            if classes[cname]['hasExtractor']:
                run['extractor'] = rng.choice([{'ok': [['user', rand_value(rng, 1)], ['n', {'i': '3'}]]}, {'ok': []}, 'raise',
                                               'junk5', 'junkpairs', 'junknone'])
            runs.append(run)
            if created_by(run, classes):
                scripts.append((cname, script))
                created += 1
    for run in runs:
        if run['run'] in ('op', 'play') and rng.random() < 0.08:
            # the service calls its operation with keyword arguments of its own choosing
            run['opKw'] = rng.sample(['func', 'args', 'kwargs', 'category', 'metadata', 'recording_id', 'self_'], rng.randint(1, 2))
    case = {'cassette': rng.choice(opts.get('cassettes', ['memory'])), 'classes': classes, 'sites': sites, 'runs': runs}
    if opts.get('aliasing'):
        # values with internal aliasing: keep objects out of the same history (an object written before a reference
        # shifts the serializer's reference numbers, known finding K7) and store value by value (in-memory cassette)
        case = no_objects(case)
        case['cassette'] = 'memory'
    if case['cassette'] == 'async' and 'unser' in __import__('json').dumps(case).lower():
        # a value the serializer rejects makes a synchronous save fail in front of the recorder; behind the wrapper it fails in
        # the flusher, out of the recorder's sight: a different (and legitimate) story, kept out of the shared model
        case['cassette'] = 'memory'
    return case
