"""In-memory stand-in for the boto3 surface used by playback's S3BasicFacade (boto3.client / boto3.resource).

Strong read-after-write, lexicographic listing, a mutation log, a settable clock for `last_modified`, and an optional
crash (a BaseException) after the k-th mutation.  The REAL S3BasicFacade and S3TapeCassette run on top of it.
"""
import datetime

import pytz


class NoSuchKey(Exception):
    pass


class Crash(BaseException):
    """injected after a chosen bucket mutation"""


class Rejected(Exception):
    """the store refuses a put (SlowDown, time-out, 5xx): an ordinary exception, nothing is written"""


class FakeBucketStore(object):
    def __init__(self):
        self.objects = {}      # key -> (bytes, last_modified, storage_class)
        self.log = []          # ('put'|'delete', key)
        self.clock = lambda: datetime.datetime.utcnow()
        self.crash_after = None   # crash after this many further mutations
        self.reject_full = 0      # refuse this many further puts of a `full/` object
        self.reject_put_no = 0    # refuse the n-th put from now on (an error answer, not a crash: the caller's handlers run)
        self.read_fault = None    # fail the n-th read request from now on (a listing step or a GET), once

    def now(self):
        return pytz.utc.localize(self.clock())

    def mutated(self, kind, key):
        self.log.append((kind, key))
        if self.crash_after is not None:
            self.crash_after -= 1
            if self.crash_after <= 0:
                self.crash_after = None
                raise Crash()


STORES = {}


def store(bucket):
    return STORES.setdefault(bucket, FakeBucketStore())


def reset():
    STORES.clear()


class _Body(object):
    def __init__(self, b):
        self._b = b

    def read(self):
        return self._b


class FakeClient(object):
    def __init__(self, *a, **k):
        pass

    def put_object(self, Bucket, Key, Body, **kwargs):
        st = store(Bucket)
        if st.reject_full and 'full/' in Key:
            st.reject_full -= 1
            raise Rejected(Key)
        if st.reject_put_no:
            st.reject_put_no -= 1
            if st.reject_put_no == 0:
                raise Rejected(Key)
        if isinstance(Body, str):
            Body = Body.encode('utf-8')
        st.objects[Key] = (Body, st.now(), kwargs.get('StorageClass', 'STANDARD'))
        st.mutated('put', Key)
        return {}

    def get_object(self, Bucket, Key):
        st = store(Bucket)
        _tick_read(st)
        if Key not in st.objects:
            raise NoSuchKey(Key)
        return {'Body': _Body(st.objects[Key][0])}


try:
    from botocore.exceptions import ClientError as _StoreError
except Exception:      # pragma: no cover
    _StoreError = Exception


class ReadFault(_StoreError):
    """a read request the store answers with an error (throttling: what boto3 raises for a 503 SlowDown answer)"""

    def __init__(self, message='injected'):
        if _StoreError is Exception:
            Exception.__init__(self, message)
        else:
            _StoreError.__init__(self, {'Error': {'Code': 'SlowDown', 'Message': message},
                                        'ResponseMetadata': {'HTTPStatusCode': 503}}, 'GetObject')


def _tick_read(st):
    if st.read_fault is not None:
        st.read_fault -= 1
        if st.read_fault <= 0:
            st.read_fault = None
            raise ReadFault('injected')


class FakeObjectSummary(object):
    def __init__(self, st, key):
        self._st = st
        self.key = key

    @property
    def last_modified(self):
        return self._st.objects[self.key][1]

    def get(self):
        _tick_read(self._st)
        return {'Body': _Body(self._st.objects[self.key][0])}


class FakeCollection(object):
    def __init__(self, st, prefix):
        self._st = st
        self._prefix = prefix or ''

    def __iter__(self):
        for k in sorted(self._st.objects):
            if k.startswith(self._prefix):
                _tick_read(self._st)          # (every listed object stands for a listing page of its own)
                yield FakeObjectSummary(self._st, k)

    def delete(self):
        for k in [k for k in sorted(self._st.objects) if k.startswith(self._prefix)]:
            del self._st.objects[k]
            self._st.mutated('delete', k)


class FakeObjects(object):
    def __init__(self, st):
        self._st = st

    def filter(self, Prefix=None):
        return FakeCollection(self._st, Prefix)


class FakeBucket(object):
    def __init__(self, name):
        self.name = name
        self.objects = FakeObjects(store(name))


class FakeResource(object):
    def __init__(self, *a, **k):
        pass

    def Bucket(self, name):
        return FakeBucket(name)


def install():
    """rebinds boto3.client / boto3.resource; must run before an S3TapeCassette is constructed"""
    import boto3
    boto3.client = lambda *a, **k: FakeClient()
    boto3.resource = lambda *a, **k: FakeResource()
