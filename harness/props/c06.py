"""C06 - Input lookup keys identify calls by alias and captured argument values only (DESIGN.md section 6, C06).

Case kinds
  batch  : a few interception sites (alias template, alias resolver, capture selection, static / instance) and a batch of
           calls.  The real key of every call is computed twice - through `TapeRecorder._format_alias` /
           `_input_interception_key` directly and through the real decorator path (an operation recorded on an
           InMemoryTapeCassette, keys read with `get_all_keys()`) - and compared CHARACTER FOR CHARACTER with the key text
           of the Lean model.  The same batch is keyed again in subprocesses started with other PYTHONHASHSEED values.
  replay : calls are recorded, then other calls are replayed against the recording; a replayed call must receive exactly
           the value recorded for the structurally equal call and nothing otherwise (no injection).
  codec  : exact text of `jsonpickle.encode(v, unpicklable=True)` and the value of `decode(encode(v))`.
The oracle is partition level and independent of the model: equal (resolved alias, captured arguments) <=> equal key.
"""
import json
import os
import subprocess
import sys

from harness.engine import Prop, VERIF, InfraError

KNOWN_SET = 'input-key-arg-contains-set'
MOD = 'harness.props.c06'
RESERVED = {'py/bytes', 'py/function', 'py/id', 'py/initargs', 'py/iterator', 'py/newargs', 'py/newargsex', 'py/newobj',
            'py/object', 'py/reduce', 'py/ref', 'py/repr', 'py/seq', 'py/set', 'py/state', 'py/tuple', 'py/type'}


# ------------------------------------------------------------------------------------------------------------
# plain classes of the faithful domain (importable: jsonpickle stores "module.Class")
# ------------------------------------------------------------------------------------------------------------
class Obj(object):
    def __init__(self, **kw):
        self.__dict__.update(kw)


class Pt(object):
    def __init__(self, **kw):
        self.__dict__.update(kw)


CLASSES = {'Obj': Obj, 'Pt': Pt, 'dict': dict, 'str': str, 'int': int, 'list': list, 'ValueError': ValueError,
           'KeyError': KeyError}


def class_name(cls):
    """the name jsonpickle writes (util.importable_name): builtins live in `__builtin__`"""
    mod = cls.__module__
    if mod == 'builtins':
        mod = '__builtin__'
    return '%s.%s' % (mod, cls.__name__)


# ------------------------------------------------------------------------------------------------------------
# wire form (see lean/Drive/Codec.lean).  A *spec* is the wire form the generator writes (sets: members in generation
# order, dicts: items in insertion order); `to_py` builds fresh tree-shaped Python values from it; `to_wire` reads a
# Python value back (sets in THIS process's iteration order, dicts in insertion order) for the model.
# ------------------------------------------------------------------------------------------------------------
def to_py(w):
    if w is None or isinstance(w, bool):
        return w
    if 'i' in w:
        return int(w['i'])
    if 'f' in w:
        return float(w['f'])
    if 's' in w:
        return w['s']
    if 'b' in w:
        return bytes(w['b'])
    if 'l' in w:
        return [to_py(x) for x in w['l']]
    if 't' in w:
        return tuple(to_py(x) for x in w['t'])
    if 'S' in w:
        s = set()
        for x in w['S']:
            s.add(to_py(x))
        return s
    if 'd' in w:
        return {k: to_py(x) for k, x in w['d']}
    if 'o' in w:
        o = CLASSES[w['o'][0]].__new__(CLASSES[w['o'][0]])
        for k, x in w['o'][1]:
            o.__dict__[k] = to_py(x)
        return o
    if 'c' in w:
        return CLASSES[w['c']]
    raise TypeError('bad wire %r' % (w,))


def to_wire(v):
    if v is None or isinstance(v, bool):
        return v
    if isinstance(v, int):
        return {'i': str(v)}
    if isinstance(v, float):
        return {'f': repr(v)}
    if isinstance(v, str):
        return {'s': v}
    if isinstance(v, bytes):
        return {'b': list(v)}
    if isinstance(v, list):
        return {'l': [to_wire(x) for x in v]}
    if isinstance(v, tuple):
        return {'t': [to_wire(x) for x in v]}
    if isinstance(v, (set, frozenset)):
        return {'S': [to_wire(x) for x in v]}
    if isinstance(v, dict):
        return {'d': [[k, to_wire(x)] for k, x in v.items()]}
    if isinstance(v, type):
        return {'c': class_name(v)}
    if isinstance(v, (Obj, Pt)) or type(v).__name__ == 'Svc':
        return {'o': [class_name(type(v)), [[k, to_wire(x)] for k, x in v.__dict__.items()]]}
    raise TypeError('no wire form for %r' % (v,))


def canon_py(v):
    """typed canonical form of a Python value: dicts sorted by key, sets sorted by member; structural equality"""
    if v is None or isinstance(v, bool):
        return v
    if isinstance(v, int):
        return {'i': str(v)}
    if isinstance(v, float):
        return {'f': repr(v)}
    if isinstance(v, str):
        return {'s': v}
    if isinstance(v, bytes):
        return {'q': _qp(v)}
    if isinstance(v, list):
        return {'l': [canon_py(x) for x in v]}
    if isinstance(v, tuple):
        return {'t': [canon_py(x) for x in v]}
    if isinstance(v, (set, frozenset)):
        return {'S': sorted((canon_py(x) for x in v), key=_ckey)}
    if isinstance(v, dict):
        return {'d': sorted(([k, canon_py(x)] for k, x in v.items()), key=lambda kv: (str(type(kv[0])), str(kv[0])))}
    if isinstance(v, type):
        return {'c': class_name(v)}
    if hasattr(v, '__dict__') and not isinstance(v, BaseException):
        return {'o': [class_name(type(v)), sorted(([k, canon_py(x)] for k, x in v.__dict__.items()), key=lambda kv: kv[0])]}
    return {'other': repr(type(v))}


def canon_model(w):
    """canonical form of a value in the driver's output wire: sets sorted (dicts come back sorted already)"""
    if w is None or isinstance(w, bool):
        return w
    if 'l' in w:
        return {'l': [canon_model(x) for x in w['l']]}
    if 't' in w:
        return {'t': [canon_model(x) for x in w['t']]}
    if 'S' in w:
        return {'S': sorted((canon_model(x) for x in w['S']), key=_ckey)}
    if 'd' in w:
        return {'d': [[k, canon_model(x)] for k, x in w['d']]}
    if 'o' in w:
        return {'o': [w['o'][0], [[k, canon_model(x)] for k, x in w['o'][1]]]}
    return w


def _ckey(x):
    return json.dumps(x, sort_keys=True)


def _qp(b):
    import quopri
    return quopri.encodestring(b).decode('utf-8')


def contains_set(w):
    if isinstance(w, dict):
        if 'S' in w:
            return True
        for k in ('l', 't'):
            if k in w:
                return any(contains_set(x) for x in w[k])
        if 'd' in w:
            return any(contains_set(x) for _, x in w['d'])
        if 'o' in w:
            return any(contains_set(x) for _, x in w['o'][1])
    return False


# ------------------------------------------------------------------------------------------------------------
# value generator (faithful domain, DESIGN.md 4.3)
# ------------------------------------------------------------------------------------------------------------
STRINGS = ['', 'a', 'b', 'ab', 'x y', ' ', 'é', 'ü', '\U0001F600', 'a"b', "q'", 'back\\slash', 'line\nbreak', 'tab\t', '\x00',
           '\x1f', '\x7f', '\u2028', '{', '}', '[', ']', '{}', '[]', ':', ',', ', ', ': ', ' args=', ', kwargs=', 'args=',
           '=', '#', '#1', 'input: ', 'null', 'true', '1', '1.5', 'py/tuplex', 'py', '/', '_metadata', 'json://x', '\\u00e9',
           '\\"', '"]', '["', '"}', '{"py/tuple": [', ' args=[], kwargs=[]', '퟿', '￿', 'Z', 'z', '_', 'A' * 40]
KEYS = ['a', 'b', 'c', 'k k', 'ü', '', ' ', 'Z', 'z', '_', 'a"', 'k\\', 'é', '\U0001F600', 'args=', '{', '1', 'id', 'py', 'x.y']
INTS = [0, 1, -1, 2, 7, 10, 255, -128, 10 ** 9, 2 ** 63, -(2 ** 64) - 1, 10 ** 30]
FLOATS = [0.5, -0.0, 0.0, 1.0, 3.0, 1e100, 1e-07, 0.1, -2.25, 123456789.12345679, 5e-324, 1e16, 1e22, 1.7976931348623157e308]
BYTE_ALPHABET = [b for b in range(256) if b not in (10, 13)]


def rand_bytes(rng):
    n = rng.choice([0, 1, 1, 2, 3, 5, 8, 24])
    if rng.random() < 0.5:
        return [rng.choice([32, 9, 46, 61, 65, 0, 255, 126, 127, 95, 63, 34, 92]) for _ in range(n)]
    return [rng.choice(BYTE_ALPHABET) for _ in range(n)]


def rand_atom(rng):
    c = rng.random()
    if c < 0.1:
        return None
    if c < 0.2:
        return rng.choice([True, False])
    if c < 0.4:
        return {'i': str(rng.choice(INTS) if rng.random() < 0.7 else rng.randrange(-1000, 1000))}
    if c < 0.5:
        return {'f': repr(rng.choice(FLOATS))}
    if c < 0.85:
        return {'s': rng.choice(STRINGS) if rng.random() < 0.8 else rng.choice(STRINGS) + rng.choice(STRINGS)}
    if c < 0.95:
        return {'b': rand_bytes(rng)}
    return {'c': rng.choice(['dict', 'str', 'ValueError', 'Obj', 'list'])}


def rand_hashable(rng, depth):
    c = rng.random()
    if c < 0.35:
        return {'s': rng.choice(['x', 'y', 'zz', 'w', 'a', 'b', '', 'é', ' args='])}
    if c < 0.6:
        return {'i': str(rng.choice([0, 1, 2, 3, 8, 16, 24, -1, 10 ** 20]))}
    if c < 0.7:
        return None
    if c < 0.8 and depth > 0:
        return {'t': [rand_hashable(rng, depth - 1) for _ in range(rng.randint(0, 2))]}
    if c < 0.9:
        return {'b': rand_bytes(rng)[:3]}
    return {'f': repr(rng.choice([0.5, 2.5, -0.0]))}


def rand_val(rng, depth, sets=True):
    c = rng.random()
    if depth <= 0 or c < 0.45:
        return rand_atom(rng)
    if c < 0.6:
        return {'l': [rand_val(rng, depth - 1, sets) for _ in range(rng.randint(0, 3))]}
    if c < 0.72:
        return {'t': [rand_val(rng, depth - 1, sets) for _ in range(rng.randint(0, 3))]}
    if c < 0.88:
        ks = rng.sample(KEYS, rng.randint(0, 4))
        return {'d': [[k, rand_val(rng, depth - 1, sets)] for k in ks]}
    if c < 0.95 or not sets:
        ks = rng.sample(['x', 'y', 'name', '_p', 'é'], rng.randint(1, 3))
        return {'o': [rng.choice(['Obj', 'Pt']), [[k, rand_val(rng, depth - 1, sets)] for k in ks]]}
    return {'S': [rand_hashable(rng, 1) for _ in range(rng.randint(0, 4))]}


def shuffled(rng, w):
    """the same value with every dict / object state built in another insertion order"""
    if isinstance(w, dict):
        if 'l' in w:
            return {'l': [shuffled(rng, x) for x in w['l']]}
        if 't' in w:
            return {'t': [shuffled(rng, x) for x in w['t']]}
        if 'd' in w:
            items = [[k, shuffled(rng, x)] for k, x in w['d']]
            rng.shuffle(items)
            return {'d': items}
        if 'o' in w:
            items = [[k, shuffled(rng, x)] for k, x in w['o'][1]]
            rng.shuffle(items)
            return {'o': [w['o'][0], items]}
    return w


def mutated(rng, w, depth=0):
    """a structurally different value close to `w`"""
    if w is None:
        return rng.choice([False, {'i': '0'}, {'s': 'None'}, {'s': 'null'}])
    if isinstance(w, bool):
        return rng.choice([{'i': '1' if w else '0'}, not w, {'s': 'true' if w else 'false'}])
    if 'i' in w:
        return rng.choice([{'i': str(int(w['i']) + 1)}, {'f': repr(float(int(w['i']) % 1000))}, {'s': w['i']}])
    if 'f' in w:
        return rng.choice([{'f': repr(float(w['f']) + 1.0 if abs(float(w['f'])) < 1e15 else 0.25)}, {'s': w['f']}])
    if 's' in w:
        return rng.choice([{'s': w['s'] + ' '}, {'s': w['s'] + '"'}, {'b': list(w['s'].encode('utf-8'))[:24]}
                           if all(b not in (10, 13) for b in w['s'].encode('utf-8')) else {'s': w['s'] + 'x'},
                           {'l': [{'s': w['s']}]}])
    if 'b' in w:
        return rng.choice([{'b': (w['b'] + [65])[:24] if len(w['b']) < 24 else w['b'][:-1]}, {'s': ''.join(chr(b) for b in w['b'])}])
    if 'l' in w:
        c = rng.random()
        if w['l'] and c < 0.4 and depth < 3:
            i = rng.randrange(len(w['l']))
            return {'l': w['l'][:i] + [mutated(rng, w['l'][i], depth + 1)] + w['l'][i + 1:]}
        if c < 0.7:
            return {'t': w['l']}
        return {'l': w['l'] + [None]}
    if 't' in w:
        c = rng.random()
        if w['t'] and c < 0.4 and depth < 3:
            i = rng.randrange(len(w['t']))
            return {'t': w['t'][:i] + [mutated(rng, w['t'][i], depth + 1)] + w['t'][i + 1:]}
        if c < 0.7:
            return {'l': w['t']}
        return {'t': w['t'] + [None]}
    if 'd' in w:
        c = rng.random()
        if w['d'] and c < 0.4 and depth < 3:
            i = rng.randrange(len(w['d']))
            return {'d': w['d'][:i] + [[w['d'][i][0], mutated(rng, w['d'][i][1], depth + 1)]] + w['d'][i + 1:]}
        if w['d'] and c < 0.6:
            return {'d': w['d'][1:]}
        if w['d'] and c < 0.8:
            return {'o': ['Obj', w['d']]}
        return {'d': w['d'] + [['zz%d' % len(w['d']), None]]}
    if 'o' in w:
        c = rng.random()
        if c < 0.3:
            return {'d': w['o'][1]}
        if c < 0.6:
            return {'o': ['Pt' if w['o'][0] == 'Obj' else 'Obj', w['o'][1]]}
        i = rng.randrange(len(w['o'][1]))
        return {'o': [w['o'][0], w['o'][1][:i] + [[w['o'][1][i][0], mutated(rng, w['o'][1][i][1], depth + 1)]] + w['o'][1][i + 1:]]}
    if 'c' in w:
        return rng.choice([{'c': 'KeyError' if w['c'] != 'KeyError' else 'int'}, {'s': w['c']}])
    if 'S' in w:
        return {'S': w['S'] + [{'s': 'extra-member'}]}
    return {'s': 'other'}


def deep_val(rng, levels):
    """a value nested `levels` container levels deep (lists / dicts / tuples alternating from a random start); at the
    bottom a multi-key dict, built in some insertion order, that also holds a plain object.  Keys must stay a function of
    the VALUE at any depth (an encoder that gives up below some depth and writes repr() there does not)."""
    ks = rng.sample(['b', 'a', 'zz', 'k k', 'é', 'Z', '_', 'c'], rng.randint(3, 5))
    bottom = [[k, rand_atom(rng)] for k in ks]
    bottom.insert(rng.randrange(len(bottom) + 1),
                  ['obj', {'o': [rng.choice(['Obj', 'Pt']), [[k, rand_atom(rng)] for k in rng.sample(['x', 'y', 'name'], rng.randint(2, 3))]]}])
    v = {'d': bottom}
    start = rng.randrange(3)
    for i in range(levels):
        kind = 'ldt'[(start + i) % 3]
        if kind == 'd':
            items = [[k, rand_atom(rng)] for k in rng.sample(['p', 'q', 'r'], rng.randint(0, 2))]
            items.insert(rng.randrange(len(items) + 1), ['n%d' % i, v])
            v = {'d': items}
        else:
            items = [rand_atom(rng) for _ in range(rng.randint(0, 2))]
            items.insert(rng.randrange(len(items) + 1), v)
            v = {kind: items}
    return v


def mutated_deep(rng, w):
    """structurally different from `w` at the deepest level: follows the container chain down, then changes one leaf"""
    if isinstance(w, dict):
        for tag in ('l', 't'):
            if tag in w:
                idx = [i for i, x in enumerate(w[tag]) if isinstance(x, dict) and any(t in x for t in ('l', 't', 'd', 'o'))]
                if idx:
                    i = rng.choice(idx)
                    return {tag: w[tag][:i] + [mutated_deep(rng, w[tag][i])] + w[tag][i + 1:]}
                if w[tag]:
                    i = rng.randrange(len(w[tag]))
                    return {tag: w[tag][:i] + [mutated(rng, w[tag][i])] + w[tag][i + 1:]}
                return {tag: [None]}
        for tag in ('d', 'o'):
            if tag in w:
                items = w['d'] if tag == 'd' else w['o'][1]
                idx = [i for i, (_, x) in enumerate(items) if isinstance(x, dict) and any(t in x for t in ('l', 't', 'd', 'o'))]
                i = rng.choice(idx) if idx else rng.randrange(len(items)) if items else None
                if i is None:
                    return {'d': [['added', None]]}
                new = mutated_deep(rng, items[i][1]) if idx else mutated(rng, items[i][1])
                items = items[:i] + [[items[i][0], new]] + items[i + 1:]
                return {'d': items} if tag == 'd' else {'o': [w['o'][0], items]}
    return mutated(rng, w)


# ------------------------------------------------------------------------------------------------------------
# sites and calls
# ------------------------------------------------------------------------------------------------------------
PLAIN_ALIASES = ['fetch', 'Service.load', 'a', 'a b', 'é-in', 'x{p}', 'braces{}', 'sh', 'al_1', 'a.b.c', 'A' * 30]
ADVERSARIAL_ALIASES = ['a', 'a ', 'a args=[]', 'a args=[], kwargs=[]', 'a args=["', 'a args={"py/tuple": [', 'a args={"py/tuple": []}',
                       'a args={"py/tuple": [" args="]}', 'x=1', 'a, kwargs=[]', '#1', 'a #1', 'output: a #1', 'input: a',
                       'a args=[], kwargs=[{"py/tuple": ["k", "', 'a args=[], kwargs=[{"py/tuple": ["k", ["', ' args=', '',
                       'a args=[1]', 'a args=[1], kwargs=[] x']
ADVERSARIAL_STRINGS = [' args=', ', kwargs=', ' args=[], kwargs=[]', '"', '\\', '"]', '["', '[]', '], kwargs=[', '#', '#1',
                       '"], kwargs=[]', ', ', ']}, {', 'py/tuple', '{"py/tuple": []}', '1', 'k', '\\"', ' args=["', '"]}']
TEMPLATES = ['r{p}', '{p}-{q}', 'a{{b}}{p}', '{q}', 'in[{p}]{q}{p}', 'é{q}', 'plain', '{p}{p}']
BAD_TEMPLATES = ['bad{', 'x}y', '{missing}', '{}', '{p}}', '{{p}']
KW_NAMES = ['kw', 'a2', 'z', 'a', 'é', 'k k', 'b']


def rand_site(rng, adversarial=False, errors=True):
    static = rng.random() < 0.4
    c = rng.random()
    if adversarial:
        alias, resolver = rng.choice(ADVERSARIAL_ALIASES), None
    elif c < 0.55:
        alias, resolver = rng.choice(PLAIN_ALIASES), None
    else:
        alias = rng.choice(TEMPLATES + (BAD_TEMPLATES if errors and rng.random() < 0.25 else []))
        resolver = [['p', rng.choice([{'n_args': True}, {'const': {'i': str(rng.choice([0, 7, -3]))}}, {'kwlen': True}])],
                    ['q', rng.choice([{'const': {'s': rng.choice(['x', 'é', '', 'a b', '=', ' args='])}}, {'kw': 'kw', 'default': 'none'},
                                      {'n_args': True}])]]
    c = rng.random()
    first = 0 if static else 1
    if c < 0.35:
        sel = None
    elif c < 0.45:
        sel = []
    else:
        sel = []
        for _ in range(rng.randint(1, 3)):
            k = rng.random()
            name = rng.choice(KW_NAMES)
            if k < 0.4:
                sel.append([rng.randint(first, first + 2), name])
            elif k < 0.7:
                sel.append([None, name])
            elif k < 0.9:
                sel.append([rng.randint(first, first + 2), None])
            else:
                sel.append([rng.randint(first, first + (6 if errors else 2)), 'never_passed'])
        # one position is captured at most once: capturing it twice puts the SAME object twice into the key, which
        # jsonpickle writes as a py/id reference (shared sub-objects inside a key are outside the tree-valued model)
        seen = set()
        for entry in sel:
            if entry[0] is not None and entry[0] in seen:
                entry[0] = None
                entry[1] = entry[1] or 'kw'
            seen.add(entry[0])
    return {'alias': alias, 'resolver': resolver, 'sel': sel, 'static': static}


def rand_call(rng, site_index, depth=2, sets=True, adversarial=False):
    def val():
        if adversarial and rng.random() < 0.7:
            return {'s': rng.choice(ADVERSARIAL_STRINGS)} if rng.random() < 0.7 else {'l': [{'s': rng.choice(ADVERSARIAL_STRINGS)}
                                                                                              for _ in range(rng.randint(0, 3))]}
        return rand_val(rng, depth, sets)
    args = [val() for _ in range(rng.choice([0, 1, 2, 3, 3, 4]))]
    kwargs = [[k, val()] for k in rng.sample(KW_NAMES, rng.choice([0, 0, 1, 2, 3]))]
    return {'site': site_index, 'args': args, 'kwargs': kwargs}


def build_resolver(spec):
    if spec is None:
        return None

    def resolve(*args, **kwargs):
        out = {}
        for name, src in spec:
            if 'n_args' in src:
                out[name] = len(args)
            elif 'kwlen' in src:
                out[name] = len(kwargs)
            elif 'const' in src:
                out[name] = to_py(src['const'])
            else:
                v = kwargs.get(src['kw'], src['default'])
                out[name] = v if isinstance(v, (int, str)) and not isinstance(v, bool) else src['default']
        return out
    return resolve


def full_args(site, call, self_obj):
    args = tuple(to_py(a) for a in call['args'])
    if not site['static']:
        args = (self_obj,) + args
    kwargs = {k: to_py(v) for k, v in call['kwargs']}
    return args, kwargs


def identity_and_sets(site, args, kwargs):
    """(identity text, whether a captured argument contains a set) or ('ERR:<class>', False)"""
    try:
        resolver = build_resolver(site['resolver'])
        alias = site['alias'].format(**resolver(*args, **kwargs)) if resolver else site['alias']
        if site['sel'] is None:
            captured = list(args if site['static'] else args[1:])
            shape = 'all'
            cap_kw = dict(kwargs)
        else:
            captured, cap_kw, shape = [], {}, 'selected'
            for p, name in site['sel']:
                if name is not None and name in kwargs:
                    cap_kw[name] = kwargs[name]
                elif p is not None:
                    captured.append(args[p])
    except Exception as ex:
        return 'ERR:' + type(ex).__name__, False
    has_set = any(contains_set(to_wire_safe(a)) for a in captured) or any(contains_set(to_wire_safe(v)) for v in cap_kw.values())
    return json.dumps([alias, shape, [canon_py(a) for a in captured], canon_py(cap_kw)], sort_keys=True), has_set


def to_wire_safe(v):
    try:
        return to_wire(v)
    except TypeError:
        return None


def make_service(tr, sites, calls_holder, body):
    """a class whose methods are the real interception sites, plus one operation that performs `calls_holder[0]`"""
    from playback.tape_recorder import CapturedArg
    ns = {}
    for i, site in enumerate(sites):
        capture = None if site['sel'] is None else [CapturedArg(p, n) for p, n in site['sel']]
        resolver = build_resolver(site['resolver'])

        def mk(i=i):
            def fn(*args, **kwargs):
                return body(i, args, kwargs)
            return fn
        if site['static']:
            ns['site%d' % i] = staticmethod(tr.static_intercept_input(site['alias'], alias_params_resolver=resolver,
                                                                      capture_args=capture)(mk()))
        else:
            ns['site%d' % i] = tr.intercept_input(site['alias'], alias_params_resolver=resolver, capture_args=capture)(mk())

    def run(self):
        out = []
        for (i, args, kwargs) in calls_holder[0]:
            from playback.exceptions import TapeRecorderException
            try:
                out.append(('ret', getattr(self, 'site%d' % i)(*args, **kwargs)))
            except TapeRecorderException as ex:
                out.append(('exc', type(ex).__name__))
        calls_holder.append(out)
        return len(out)
    ns['run'] = tr.operation()(run)
    cls = type('Svc', (object,), ns)
    cls.__module__ = MOD
    return cls


def prelude(kind):
    """the process has already used another cassette: a recording with non-ascii text saved and read back through it (keys are
    functions of the call alone, whatever this process stored before)"""
    if not kind or kind == 'none':
        return None
    import shutil
    import tempfile
    from playback.tape_recorder import TapeRecorder
    tmp = None
    try:
        if kind == 'file':
            from playback.tape_cassettes.file_based.file_based_tape_cassette import FileBasedTapeCassette
            tmp = tempfile.mkdtemp(prefix='verif-c06-')
            cassette = FileBasedTapeCassette(os.path.join(tmp, 'c'))
        elif kind == 's3':
            from harness import fake_s3
            fake_s3.reset()
            fake_s3.install()
            from playback.tape_cassettes.s3.s3_tape_cassette import S3TapeCassette
            cassette = S3TapeCassette('bucket-c06', key_prefix='pre', read_only=False)
        else:
            from playback.tape_cassettes.in_memory.in_memory_tape_cassette import InMemoryTapeCassette
            cassette = InMemoryTapeCassette()
        tr = TapeRecorder(cassette)
        tr.enable_recording()

        def fetch(self_, a):
            return [a, u'r\u00e9sultat \u4e16']

        def execute(self_):
            return self_.fetch(u'caf\u00e9')
        Op = type('PreludeOp', (object,), {'fetch': tr.intercept_input('fetch')(fetch), 'execute': tr.operation()(execute)})
        ids = []
        real_create = cassette.create_new_recording

        def create(category):
            r = real_create(category)
            ids.append(r.id)
            return r
        cassette.create_new_recording = create
        Op().execute()
        status = None
        for rid in ids:
            try:
                tr.play(rid, lambda recording: Op().execute())
            except Exception as ex:
                status = '%s: %s' % (type(ex).__name__, str(ex)[:200])
        cassette.close()
        return status
    finally:
        if tmp:
            shutil.rmtree(tmp, ignore_errors=True)


def direct_key(site, args, kwargs):
    from playback.tape_recorder import TapeRecorder, CapturedArg
    capture = None if site['sel'] is None else [CapturedArg(p, n) for p, n in site['sel']]
    try:
        alias = TapeRecorder._format_alias(site['alias'], build_resolver(site['resolver']), *args, **kwargs)
        return TapeRecorder._input_interception_key(alias, capture, site['static'], *args, **kwargs)
    except Exception as ex:
        return 'ERR:' + type(ex).__name__


def keys_of_batch(case):
    """direct-path keys of every call of a batch (used in this process and in the other-hash-seed subprocesses)"""
    cls = type('Svc', (object,), {})
    cls.__module__ = MOD
    me = cls()
    out = []
    for call in case['calls']:
        site = case['sites'][call['site']]
        args, kwargs = full_args(site, call, me)
        out.append(direct_key(site, args, kwargs))
    return out


def model_call_request(site, call):
    """the driver request for one call; values are read back from fresh Python objects so that sets appear in this
    process's iteration order"""
    cls = type('Svc', (object,), {})
    cls.__module__ = MOD
    args, kwargs = full_args(site, call, cls())
    resolver = build_resolver(site['resolver'])
    resolved = None
    if resolver is not None:
        resolved = [[k, to_wire(v)] for k, v in resolver(*args, **kwargs).items()]
    return {'m': 'c06.key', 'alias': site['alias'], 'resolved': resolved, 'sel': site['sel'], 'static': site['static'],
            'args': [to_wire(a) for a in args], 'kwargs': [[k, to_wire(v)] for k, v in kwargs.items()]}


# ------------------------------------------------------------------------------------------------------------
class C06(Prop):
    ID = 'C06'
    CORRESPONDENCE = ('PlaybackModel.Keys.callKey / Codec.encodeText vs TapeRecorder._format_alias + _input_interception_key '
                      '(direct and through the decorators) and jsonpickle.encode / decode')
    RULE = ('batches of calls on 1-3 interception sites (plain / resolver-formatted / adversarial aliases; capture all, none, '
            'by position, by name; static and instance) built as base calls plus variants (dict and kwargs order shuffled, '
            'excluded arguments changed, captured arguments mutated); every key compared as exact text with the model and '
            'recomputed in fresh processes under PYTHONHASHSEED 0, 1 and random; 10% of the batches run in a process that has already recorded, saved '
            'and replayed non-ascii text through a file / S3 / in-memory cassette; record/replay injection cases; codec text cases. A case is '
            'non-trivial when it has at least two calls (batch/replay) or a container value (codec); distinct = distinct '
            'canonical case')
    TRUSTED = ['correspondence harness harness/props/c06.py + Lean driver (Drive/Codec.lean)',
               'jsonpickle 0.9.3 + json: tagging scheme, dict-key sorting, dropping of reserved keys, quoted-printable bytes, '
               'float repr - transcribed in PlaybackModel/Codec.lean and validated by exact-text differential execution only',
               'unique lexing of rendered JSON tokens (injectivity is proved on token streams, plus the alias boundary on '
               'characters)',
               'values are trees: shared sub-objects inside a key (py/id) are outside the model']
    ASSUMPTIONS = ['arguments range over the faithful domain of DESIGN.md 4.3: None, bools, ints, finite floats, str without '
                   'lone surrogates, bytes (<= 24 B, no CR/LF in the exact-text tie), lists, tuples, sets, string-keyed dicts '
                   'without jsonpickle tag keys, plain objects with at least one attribute, classes; tree shaped',
                   'theorem C06_alias_split assumes no "=" in the resolved alias; the adversarial stream searches the real '
                   'code for collisions without that assumption']
    PARALLEL = 8
    DRIVER_CHUNKS = 8
    XSEEDS = ['0', '1', 'random']

    # ------------------------------------------------------------------------------------------------------
    def generate(self, rng, tier):
        cases = []
        if tier != 'quick':
            self.XSEEDS = ['0', '1', '2', '3', '4', '5', '6', 'random']
        n_batch, n_adv, n_replay, n_codec = (800, 250, 300, 2500) if tier == 'quick' else (16000, 5000, 5000, 30000)
        for _ in range(n_batch):
            cases.append(self.gen_batch(rng))
        for _ in range(n_adv):
            cases.append(self.gen_batch(rng, adversarial=True))
        for _ in range(n_batch // 12):
            cases.append(self.gen_deep_batch(rng))
        for _ in range(n_codec // 40):
            cases.append({'kind': 'codec', 'v': deep_val(rng, rng.randint(9, 14))})
        for _ in range(n_replay):
            cases.append(self.gen_replay(rng))
        for _ in range(n_codec):
            cases.append({'kind': 'codec', 'v': rand_val(rng, 3)})
        for s in STRINGS:
            cases.append({'kind': 'codec', 'v': {'d': [[s, {'s': s}]]}} if s not in RESERVED else {'kind': 'codec', 'v': {'s': s}})
        for b in ([], [46], [46, 0], [46, 65], [32], [9], [65, 32], [32, 65], [61], [0], [255], list(range(32, 56)), list(range(232, 256))):
            cases.append({'kind': 'codec', 'v': {'b': b}})
        return cases

    def gen_batch(self, rng, adversarial=False, sets=True, errors=True):
        sites = [rand_site(rng, adversarial, errors) for _ in range(rng.randint(1, 3))]
        if adversarial:
            for s in sites:
                if rng.random() < 0.5:
                    s['sel'] = rng.choice([None, [], [[0 if s['static'] else 1, None]], [[0 if s['static'] else 1, None], [None, 'kw']]])
        calls = []
        for _ in range(rng.randint(2, 4)):
            base = rand_call(rng, rng.randrange(len(sites)), 2, sets and rng.random() < 0.25, adversarial)
            calls.append(base)
            for _ in range(rng.randint(1, 3)):
                calls.append(self.variant(rng, sites, base))
        rng.shuffle(calls)
        out = {'kind': 'batch', 'sites': sites, 'calls': calls[:14]}
        if rng.random() < 0.1:
            out['prelude'] = rng.choice(['file', 's3', 'memory'])      # this process saved / replayed through a cassette before
        return out

    def gen_deep_batch(self, rng):
        """calls whose captured arguments are nested 9-13 container levels deep: the same value in other insertion orders
        (must share the key) and with one leaf changed at the bottom (must not)"""
        static = rng.random() < 0.5
        first = 0 if static else 1
        how = rng.choice(['all', 'position', 'name'])
        sel = None if how == 'all' else [[first, 'a']] if how == 'position' else [[None, 'kw'], [first + 1, None]]
        site = {'alias': rng.choice(PLAIN_ALIASES), 'resolver': None, 'sel': sel, 'static': static}
        deep = deep_val(rng, rng.randint(9, 13))
        other = deep_val(rng, rng.randint(9, 11)) if rng.random() < 0.5 else rand_atom(rng)

        def call(d, o):
            if how == 'name':
                return {'site': 0, 'args': [rand_atom(rng), o], 'kwargs': [['kw', d], ['z', rand_atom(rng)]]}
            return {'site': 0, 'args': [d, o], 'kwargs': [['z', o]] if how == 'all' else [['z', rand_atom(rng)]]}
        changed = mutated_deep(rng, deep)
        calls = [call(deep, other), call(shuffled(rng, deep), shuffled(rng, other)), call(shuffled(rng, deep), other),
                 call(changed, other), call(shuffled(rng, changed), other), call(mutated_deep(rng, deep), other)]
        if how == 'position':       # excluded second argument changed: same key
            calls.append({'site': 0, 'args': [shuffled(rng, deep), rand_atom(rng)], 'kwargs': []})
        rng.shuffle(calls)
        return {'kind': 'batch', 'sites': [site], 'calls': calls, 'deep': True}

    def variant(self, rng, sites, base):
        c = rng.random()
        call = {'site': base['site'], 'args': [a for a in base['args']], 'kwargs': [[k, v] for k, v in base['kwargs']]}
        if c < 0.3:       # same values, other insertion orders
            call['args'] = [shuffled(rng, a) for a in call['args']]
            call['kwargs'] = [[k, shuffled(rng, v)] for k, v in call['kwargs']]
            rng.shuffle(call['kwargs'])
        elif c < 0.55:    # one argument mutated (captured or excluded - the oracle knows which)
            slots = [('a', i) for i in range(len(call['args']))] + [('k', i) for i in range(len(call['kwargs']))]
            if slots:
                kind, i = rng.choice(slots)
                if kind == 'a':
                    call['args'][i] = mutated(rng, call['args'][i])
                else:
                    call['kwargs'][i] = [call['kwargs'][i][0], mutated(rng, call['kwargs'][i][1])]
            else:
                call['args'] = [None]
        elif c < 0.65:    # argument added / dropped
            if call['args'] and rng.random() < 0.5:
                call['args'] = call['args'][:-1]
            else:
                call['args'] = call['args'] + [rand_atom(rng)]
        elif c < 0.75:    # keyword argument added / dropped
            if call['kwargs'] and rng.random() < 0.5:
                call['kwargs'] = call['kwargs'][1:]
            else:
                names = [k for k in KW_NAMES if k not in [kk for kk, _ in call['kwargs']]]
                call['kwargs'] = call['kwargs'] + [[rng.choice(names), rand_atom(rng)]]
        elif c < 0.85:    # positional <-> keyword
            site = sites[base['site']]
            if site['sel'] and call['args']:
                named = [(p, n) for p, n in site['sel'] if p is not None and n is not None and n != 'never_passed']
                first = 0 if site['static'] else 1
                if named:
                    p, n = rng.choice(named)
                    if p - first == len(call['args']) - 1 and n not in [k for k, _ in call['kwargs']]:
                        call['kwargs'] = call['kwargs'] + [[n, call['args'][-1]]]
                        call['args'] = call['args'][:-1]
        else:             # same call on another site
            call['site'] = rng.randrange(len(sites))
        return call

    def gen_replay(self, rng):
        sites = [rand_site(rng, False, errors=False) for _ in range(rng.randint(1, 2))]
        for s in sites:
            if s['alias'] in BAD_TEMPLATES:
                s['alias'] = 'r{p}'
        recorded = []
        for _ in range(rng.randint(1, 5)):
            base = rand_call(rng, rng.randrange(len(sites)), 2, False)
            recorded.append(base)
            if rng.random() < 0.5:
                recorded.append(self.variant(rng, sites, base))
        replayed = []
        for base in recorded:
            for _ in range(rng.randint(1, 2)):
                replayed.append(self.variant(rng, sites, base) if rng.random() < 0.8 else base)
        rng.shuffle(replayed)
        for call in recorded + replayed:      # enough positional arguments for every captured position
            site = sites[call['site']]
            need = max([p for p, _ in (site['sel'] or []) if p is not None] + [-1]) + (1 if site['static'] else 0)
            while len(call['args']) < need:
                call['args'] = call['args'] + [{'i': str(len(call['args']))}]
        return {'kind': 'replay', 'sites': sites, 'recorded': recorded[:8], 'replayed': replayed[:10]}

    # ------------------------------------------------------------------------------------------------------
    def run_impl(self, case):
        if case['kind'] == 'codec':
            return self.run_codec(case)
        if case['kind'] == 'batch':
            return self.run_batch(case)
        return self.run_replay(case)

    def run_codec(self, case):
        from jsonpickle import encode, decode
        v = to_py(case['v'])
        text = encode(v, unpicklable=True)
        back = decode(text)
        return {'text': text, 'back': canon_py(back), 'orig': canon_py(v)}

    def run_batch(self, case):
        from playback.tape_recorder import TapeRecorder
        from playback.tape_cassettes.in_memory.in_memory_tape_cassette import InMemoryTapeCassette
        prelude_status = prelude(case.get('prelude'))
        cassette = InMemoryTapeCassette()
        tr = TapeRecorder(cassette)
        tr.enable_recording()
        holder = [None]
        cls = make_service(tr, case['sites'], holder, lambda i, args, kwargs: 0)
        me = cls()
        out, idents = [], []
        for call in case['calls']:
            site = case['sites'][call['site']]
            args, kwargs = full_args(site, call, me)
            direct = direct_key(site, args, kwargs)
            holder[0] = [(call['site'], args[0 if site['static'] else 1:], kwargs)]
            before = cassette.get_last_recording_id()
            me.run()
            rid = cassette.get_last_recording_id()
            if rid == before:
                decorated = '<discarded>'
            else:
                keys = [k for k in cassette.get_recording(rid).get_all_keys() if k.startswith('input: ')]
                decorated = keys[0] if len(keys) == 1 else {'keys': sorted(keys)}
            out.append({'direct': direct, 'decorated': decorated})
            ident, has_set = identity_and_sets(site, args, kwargs)
            idents.append([ident, has_set])
        return {'calls': out, 'idents': idents, 'xproc': {}, 'prelude': prelude_status}

    def run_replay(self, case):
        from playback.tape_recorder import TapeRecorder
        from playback.tape_cassettes.in_memory.in_memory_tape_cassette import InMemoryTapeCassette
        cassette = InMemoryTapeCassette()
        tr = TapeRecorder(cassette)
        tr.enable_recording()
        holder = [None]
        world = {}
        runs = [0]

        def body(i, args, kwargs):
            runs[0] += 1
            ident, _ = identity_and_sets(case['sites'][i], args, kwargs)
            return world.setdefault(ident, len(world) + 100)
        cls = make_service(tr, case['sites'], holder, body)
        me = cls()

        def prepared(calls):
            out = []
            for call in calls:
                site = case['sites'][call['site']]
                args, kwargs = full_args(site, call, me)
                out.append((call['site'], args[0 if site['static'] else 1:], kwargs, identity_and_sets(site, args, kwargs)))
            return out
        rec = prepared(case['recorded'])
        holder[0] = [(i, a, k) for i, a, k, _ in rec]
        me.run()
        rid = cassette.get_last_recording_id()
        if rid is None:
            return {'recorded': None, 'replayed': None, 'expected': None, 'sets': False,
                    'spec_errors': [ident for _, _, _, (ident, _) in rec if ident.startswith('ERR:')]}
        recorded_values = [r[1] if r[0] == 'ret' else r[1] for r in holder[-1]]
        rep = prepared(case['replayed'])
        del holder[1:]
        holder[0] = [(i, a, k) for i, a, k, _ in rep]
        bodies_before = runs[0]
        tr.play(rid, lambda recording: me.run())
        got = [r[1] if r[0] == 'ret' else 'MISSING:' + r[1] for r in holder[-1]]
        known = {ident: v for (_, _, _, (ident, _)), v in zip(rec, recorded_values)}
        expected = [known.get(ident, 'MISSING:RecordingKeyError') for _, _, _, (ident, _) in rep]
        return {'recorded': recorded_values, 'replayed': got, 'expected': expected,
                'bodies_run_in_replay': runs[0] - bodies_before,
                'sets': any(hs for _, _, _, (_, hs) in rec + rep),
                'xreplay': {}, '_rid': rid, '_text': cassette._recordings[rid]}

    def run_all_impl(self, cases):
        impls = Prop.run_all_impl(self, cases)
        batches = [(c, i) for c, i in zip(cases, impls) if isinstance(i, dict) and c.get('kind') == 'batch' and 'calls' in i]
        replays = [(c, i) for c, i in zip(cases, impls) if isinstance(i, dict) and c.get('kind') == 'replay' and i.get('_text')]
        if not batches and not replays:
            return impls
        by_seed = {}
        for c, i in batches:
            for seed in c.get('seeds', self.XSEEDS):
                by_seed.setdefault(seed, ([], []))[0].append((c, i))
        for c, i in replays:      # the recording is replayed again in fresh processes started with other hash seeds
            for seed in ('1', 'random'):
                by_seed.setdefault(seed, ([], []))[1].append((c, i))
        procs = []
        for seed, (items, ritems) in by_seed.items():
            env = dict(os.environ, PYTHONHASHSEED=seed)
            p = subprocess.Popen([sys.executable, '-m', MOD, 'xproc'], cwd=VERIF, env=env, stdin=subprocess.PIPE,
                                 stdout=subprocess.PIPE, stderr=subprocess.PIPE, text=True)
            procs.append((seed, (items, ritems), p,
                          json.dumps({'batches': [{'sites': c['sites'], 'calls': c['calls']} for c, _ in items],
                                      'replays': [{'sites': c['sites'], 'replayed': c['replayed'], 'rid': i['_rid'], 'text': i['_text']}
                                                  for c, i in ritems]})))
        import threading
        results = {}

        def feed(seed, p, data):
            results[seed] = p.communicate(data)
        threads = [threading.Thread(target=feed, args=(seed, p, data)) for seed, _, p, data in procs]
        for t in threads:
            t.start()
        for t in threads:
            t.join()
        for seed, (items, ritems), p, _ in procs:
            so, se = results[seed]
            if p.returncode != 0:
                raise InfraError('hash-seed subprocess %s failed: %s' % (seed, se[-2000:]))
            answer = json.loads(so)
            for (c, i), ks in zip(items, answer['batches']):
                i['xproc'][seed] = ks
            for (c, i), got in zip(ritems, answer['replays']):
                i['xreplay'][seed] = got
        for c, i in replays:
            i.pop('_text', None)
            i.pop('_rid', None)
        return impls

    # ------------------------------------------------------------------------------------------------------
    def model_requests(self, case):
        if case['kind'] == 'codec':
            w = to_wire(to_py(case['v']))
            return [{'m': 'c06.encode', 'v': w}, {'m': 'c06.roundtrip', 'v': w}, {'m': 'c06.roundtripText', 'v': w}]
        if case['kind'] == 'batch':
            return [model_call_request(case['sites'][c['site']], c) for c in case['calls']]
        return [model_call_request(case['sites'][c['site']], c) for c in case['recorded'] + case['replayed']]

    def model_transcript(self, case, answers):
        if case['kind'] == 'codec':
            # `backText`: the model's CHARACTER-level lexer applied to the text (equal to the real text, first field), then the
            # token-level decoder: the lexer is exercised on every text the real serializer produces for these values
            return {'text': answers[0], 'back': canon_model(answers[1]['v']) if answers[1] else None,
                    'backText': canon_model(answers[2]['v']) if answers[2] else None}
        if case['kind'] == 'batch':
            return [{'direct': a['key'], 'decorated': a['key']} if 'key' in a else
                    {'direct': 'ERR:' + a['err'], 'decorated': '<discarded>'} for a in answers]
        n = len(case['recorded'])
        rec, rep = answers[:n], answers[n:]
        if any('err' in a for a in rec):
            return {'recorded': None, 'replayed': None}
        store, values, first = {}, [], {}
        for a in rec:       # the body is a function of the call's identity; the model only needs key equality
            v = first.setdefault(a['key'], 100 + len(first))
            store[a['key']] = v
            values.append(v)
        return {'recorded': values, 'replayed': [store.get(a['key'], 'MISSING:RecordingKeyError') if 'key' in a
                                                 else 'MISSING:InputInterceptionKeyCreationError' for a in rep]}

    def impl_view(self, case, impl):
        if case['kind'] == 'codec':
            return {'text': impl['text'], 'back': impl['back'], 'backText': impl['back']}
        if case['kind'] == 'batch':
            return impl['calls']
        return {'recorded': impl['recorded'], 'replayed': impl['replayed']}

    # ------------------------------------------------------------------------------------------------------
    def oracle(self, case, impl):
        fails = []
        if case['kind'] == 'codec':
            if impl['back'] != impl['orig']:
                fails.append('[codec] decode(encode(v)) differs from v: %s vs %s' % (json.dumps(impl['back'])[:300],
                                                                                    json.dumps(impl['orig'])[:300]))
            return fails
        if case['kind'] == 'replay':
            if impl['recorded'] is None:
                return [] if impl['spec_errors'] else ['[replay noset] nothing was recorded although every key can be built']
            for j, (g, e) in enumerate(zip(impl['replayed'], impl['expected'])):
                if g != e:
                    tag = 'set' if impl['sets'] else 'noset'
                    fails.append('[replay %s call %d] replay answered %r, the recording holds %r for this call' % (tag, j, g, e))
            if impl.get('bodies_run_in_replay'):
                fails.append('[replay noset] intercepted bodies ran during replay')
            for seed, got in sorted(impl.get('xreplay', {}).items()):
                for j, (g, e) in enumerate(zip(got, impl['expected'])):
                    if g != e:
                        tag = 'set' if impl['sets'] else 'noset'
                        fails.append('[replay %s call %d] replay in a fresh process with PYTHONHASHSEED=%s answered %r, the '
                                     'recording holds %r for this call' % (tag, j, seed, g, e))
            return fails
        calls, idents = impl['calls'], impl['idents']
        if impl.get('prelude'):
            fails.append('[replay noset] an operation with a non-ascii argument recorded through a %s cassette and replayed by the same '
                         'process right after the save: %s' % (case.get('prelude'), impl['prelude']))
        for i, c in enumerate(calls):
            d, e = c['direct'], c['decorated']
            ok = (e == '<discarded>') if isinstance(d, str) and d.startswith('ERR:') else (e == d)
            if not ok:
                fails.append('[path noset call %d] decorator path stored %r, direct key is %r' % (i, e, d))
            if idents[i][0].startswith('ERR:') != (isinstance(d, str) and d.startswith('ERR:')):
                fails.append('[path noset call %d] key creation %r but the specification says %r' % (i, d, idents[i][0][:80]))
        good = [i for i, c in enumerate(calls) if not c['direct'].startswith('ERR:') and not idents[i][0].startswith('ERR:')]
        for x in range(len(good)):
            for y in range(x + 1, len(good)):
                i, j = good[x], good[y]
                same_ident = idents[i][0] == idents[j][0]
                same_key = calls[i]['direct'] == calls[j]['direct']
                if same_ident and not same_key:
                    tag = 'set' if idents[i][1] else 'noset'
                    fails.append('[equal-calls %s calls %d,%d] structurally equal calls have different keys %r / %r'
                                 % (tag, i, j, calls[i]['direct'][:200], calls[j]['direct'][:200]))
                if same_key and not same_ident:
                    fails.append('[collision noset calls %d,%d] different calls share the key %r: %s / %s'
                                 % (i, j, calls[i]['direct'][:200], idents[i][0][:200], idents[j][0][:200]))
        for seed, keys in sorted(impl['xproc'].items()):
            for i, k in enumerate(keys):
                if k != calls[i]['direct']:
                    tag = 'set' if idents[i][1] else 'noset'
                    fails.append('[hash-seed %s call %d] PYTHONHASHSEED=%s gives key %r, this process %r'
                                 % (tag, i, seed, k[:200], calls[i]['direct'][:200]))
        return fails

    def known_finding(self, case, failures):
        """K1 only: every failure must be a key that changes with the iteration order of a set inside a CAPTURED argument"""
        if not failures:
            return None
        for f in failures:
            if not (f.startswith('[equal-calls set ') or f.startswith('[hash-seed set ') or f.startswith('[replay set ')):
                return None
        return KNOWN_SET

    def nontrivial(self, case, impl):
        if case['kind'] == 'codec':
            return isinstance(case['v'], dict) and any(k in case['v'] for k in ('l', 't', 'd', 'o', 'S', 'b'))
        if case['kind'] == 'batch':
            return len(case['calls']) >= 2
        return len(case['recorded']) >= 1 and len(case['replayed']) >= 2

    def features(self, case, impl):
        out = ['kind:' + case['kind']]
        if case['kind'] == 'codec':
            v = case['v']
            out.append('codec:' + ('atom' if not isinstance(v, dict) else sorted(v)[0]))
            return out
        for s in case['sites']:
            out.append('site:' + ('static' if s['static'] else 'instance'))
            out.append('alias:' + ('resolver' if s['resolver'] else 'plain'))
            out.append('capture:' + ('all' if s['sel'] is None else 'none' if not s['sel'] else
                                     'by-name' if all(p is None for p, _ in s['sel']) else
                                     'by-position' if all(n is None for _, n in s['sel']) else 'mixed'))
        if case['kind'] == 'batch':
            if case.get('deep'):
                out.append('batch:deep-nesting(9-13 levels)')
            out.append('calls:%d' % len(case['calls']))
            if case.get('prelude'):
                out.append('batch:process-used-a-%s-cassette-before' % case['prelude'])
            for c in impl['calls']:
                out.append('key:error' if c['direct'].startswith('ERR:') else 'key:ok')
            idents = [i for i, _ in impl['idents']]
            out.append('batch:has-equal-pair' if len(set(idents)) < len(idents) else 'batch:all-distinct')
            if any(hs for _, hs in impl['idents']):
                out.append('batch:captured-set')
        else:
            for g in (impl['replayed'] or []):
                out.append('replay:missing' if isinstance(g, str) else 'replay:hit')
        return out

    def sample_repr(self, case):
        return case

    def shrink(self, case):
        if case['kind'] == 'batch':
            for i in range(len(case['calls'])):
                yield dict(case, calls=case['calls'][:i] + case['calls'][i + 1:])
            for i, c in enumerate(case['calls']):
                for j in range(len(c['args'])):
                    yield dict(case, calls=case['calls'][:i] + [dict(c, args=c['args'][:j] + c['args'][j + 1:])] + case['calls'][i + 1:])
                for j in range(len(c['kwargs'])):
                    yield dict(case, calls=case['calls'][:i] + [dict(c, kwargs=c['kwargs'][:j] + c['kwargs'][j + 1:])] + case['calls'][i + 1:])
        elif case['kind'] == 'replay':
            for key in ('recorded', 'replayed'):
                for i in range(len(case[key])):
                    yield dict(case, **{key: case[key][:i] + case[key][i + 1:]})
        else:
            v = case['v']
            if isinstance(v, dict):
                for k in ('l', 't', 'S'):
                    if k in v:
                        for x in v[k]:
                            yield {'kind': 'codec', 'v': x}
                        for i in range(len(v[k])):
                            yield {'kind': 'codec', 'v': {k: v[k][:i] + v[k][i + 1:]}}
                if 'd' in v:
                    for _, x in v['d']:
                        yield {'kind': 'codec', 'v': x}
                    for i in range(len(v['d'])):
                        yield {'kind': 'codec', 'v': {'d': v['d'][:i] + v['d'][i + 1:]}}
                if 'o' in v:
                    for _, x in v['o'][1]:
                        yield {'kind': 'codec', 'v': x}

    def targeted(self, case, rng):
        out = []
        for _ in range(60):
            out.append(self.gen_batch(rng, adversarial=rng.random() < 0.3, sets=False))
        for _ in range(40):
            out.append(self.gen_replay(rng))
        for _ in range(30):
            out.append(self.gen_deep_batch(rng))
        return out


PROP = C06


def replay_in_this_process(item):
    """replay a recording made in another process (its jsonpickle text) against the calls of `item`"""
    from playback.tape_recorder import TapeRecorder
    from playback.tape_cassettes.in_memory.in_memory_tape_cassette import InMemoryTapeCassette
    cassette = InMemoryTapeCassette()
    cassette._recordings[item['rid']] = item['text']
    tr = TapeRecorder(cassette)
    holder = [None]
    cls = make_service(tr, item['sites'], holder, lambda i, args, kwargs: 'BODY-RAN')
    me = cls()
    calls = []
    for call in item['replayed']:
        site = item['sites'][call['site']]
        args, kwargs = full_args(site, call, me)
        calls.append((call['site'], args[0 if site['static'] else 1:], kwargs))
    holder[0] = calls
    tr.play(item['rid'], lambda recording: me.run())
    return [r[1] if r[0] == 'ret' else 'MISSING:' + r[1] for r in holder[-1]]


def _xproc_main():
    from harness import engine, covprobe
    covprobe.install_from_env()
    engine.use_repo()
    job = json.loads(sys.stdin.read())
    sys.stdout.write(json.dumps({'batches': [keys_of_batch(c) for c in job['batches']],
                                 'replays': [replay_in_this_process(r) for r in job['replays']]}))


if __name__ == '__main__':
    if sys.argv[1:] == ['xproc']:
        # run as `python -m harness.props.c06 xproc`: make the classes importable under their recorded module name
        import importlib
        mod = importlib.import_module(MOD)
        mod._xproc_main()
