"""C20 - File interception preserves file bytes and honours the size limit (DESIGN.md section 6, C20).

Full trips on the real code: a TapeRecorder operation with an input intercepted by InputInterceptionFileDataHandler (path
excluded from the key: capture_args=[]) and an output intercepted by OutputInterceptionFileDataHandler, recorded into one of
the three real cassettes (in-memory / file based in a temp dir / S3 on the in-memory boto3 stand-in), replayed in a fresh
directory.  A process-wide audit hook (gated) logs every `open` of a file under the record / replay directories for reading,
so "above-limit files are never read" is observed, not assumed.
"""
import hashlib
import os
import shutil
import sys
import tempfile
from fractions import Fraction

from harness.engine import Prop

PLACEHOLDER = b'above interception limit'
ENV = 'PLAYBACK_INTERCEPTED_FILE_SIZE_LIMIT'
MB = 2 ** 20
IN_KEY = 'input: fetch args=[], kwargs=[]'
OUT_KEY = 'output: emit #1.output'
BIG = 4096          # contents longer than this are compared by length + sha1 on both sides

# ------------------------------------------------------------------------------------------------------------------
# read spy
# ------------------------------------------------------------------------------------------------------------------
_SPY = {'on': False, 'roots': (), 'log': [], 'installed': False}


def _audit(event, args):
    if event != 'open' or not _SPY['on']:
        return
    path, mode, flags = (tuple(args) + (None, None, None))[:3]
    if isinstance(path, bytes):
        path = path.decode('utf-8', 'replace')
    if isinstance(path, str) and not os.path.isabs(path):
        path = os.path.join(os.getcwd(), path)        # the replayed code may name its files relative to its working directory
    if not isinstance(path, str) or not path.startswith(_SPY['roots']):
        return
    if mode is None:
        reading = (flags is None) or (flags & os.O_ACCMODE) in (os.O_RDONLY, os.O_RDWR)
    else:
        reading = ('r' in mode) or ('+' in mode)
    if reading:
        _SPY['log'].append(path)


def _install_spy():
    if not _SPY['installed']:
        sys.addaudithook(_audit)
        _SPY['installed'] = True


class _quiet(object):
    """harness I/O that must not count as a read by the code under test"""

    def __enter__(self):
        self.prev = _SPY['on']
        _SPY['on'] = False

    def __exit__(self, *a):
        _SPY['on'] = self.prev


def h_read(path):
    with _quiet():
        try:
            with open(path, 'rb') as f:
                return f.read()
        except (IOError, OSError):
            return None


def h_write(path, content):
    with _quiet():
        if isinstance(content, dict):      # {'zeros': n}: sparse file, never materialised
            with open(path, 'wb') as f:
                f.truncate(content['zeros'])
        else:
            with open(path, 'wb') as f:
                f.write(content)


# ------------------------------------------------------------------------------------------------------------------
# contents and limits
# ------------------------------------------------------------------------------------------------------------------
def content_bytes(c):
    """case content -> bytes, or the {'zeros': n} descriptor for sparse (never read) files"""
    if 'hex' in c:
        return bytes.fromhex(c['hex'])
    return {'zeros': c['zeros']}


def content_size(c):
    return len(c['hex']) // 2 if 'hex' in c else c['zeros']


def materialise(c):
    return bytes.fromhex(c['hex']) if 'hex' in c else b'\0' * c['zeros']


def digest_hex(h):
    if h is None or not isinstance(h, str):
        return h
    if len(h) > 2 * BIG:
        return {'len': len(h) // 2, 'sha1': hashlib.sha1(bytes.fromhex(h)).hexdigest()}
    return h


def limit_python(lim):
    """(explicit argument for the handler constructor, environment text or None)"""
    ex = lim.get('explicit')
    if ex is None:
        explicit = None
    elif 'int' in ex:
        explicit = int(ex['int'])
    else:
        explicit = float(Fraction(int(ex['float'][0]), int(ex['float'][1])))
    return explicit, lim.get('env')


def limit_wire(lim):
    """the limit as the driver wants it: exact ratios; float(text) is Python's (trusted) float parser"""
    explicit, env = limit_python(lim)
    out = {'explicit': None, 'env': None}
    if explicit is not None:
        n, d = Fraction(explicit).numerator, Fraction(explicit).denominator
        out['explicit'] = [str(n), str(d)]
    if env is not None:
        fr = Fraction(float(env))
        out['env'] = [str(fr.numerator), str(fr.denominator)]
    return out


def documented_limit(lim):
    """the documented rule, stated independently: explicit limit in MB if given, else the whole number of MB in the
    environment variable (default 500)"""
    explicit, env = limit_python(lim)
    if explicit is not None:
        return Fraction(explicit)
    return Fraction(int(float(env if env is not None else '500')))


def documented_above(size, lim):
    return Fraction(size, MB) > documented_limit(lim)


class _env(object):
    def __init__(self, text):
        self.text = text

    def __enter__(self):
        self.prev = os.environ.get(ENV)
        if self.text is None:
            os.environ.pop(ENV, None)
        else:
            os.environ[ENV] = self.text

    def __exit__(self, *a):
        if self.prev is None:
            os.environ.pop(ENV, None)
        else:
            os.environ[ENV] = self.prev


# ------------------------------------------------------------------------------------------------------------------
# call shapes: tokens 'P' (the real path), 'D' (a decoy file), 'o' (some other object), None, '' (empty string)
# ------------------------------------------------------------------------------------------------------------------
def tok_value(tok, p, d):
    if tok == 'P':
        return p
    if tok == 'D':
        return d
    if tok == 'o':
        return object()
    return tok          # None or ''


def tok_wire(tok, p, d):
    if tok == 'P':
        return {'s': p}
    if tok == 'D':
        return {'s': d}
    if tok == 'o':
        return 'o'
    if tok == '':
        return {'s': ''}
    return None


def call_wire(call, p, d, with_self):
    return {'args': (['o'] if with_self else []) + [tok_wire(t, p, d) for t in call['pos']],
            'kwargs': [[k, tok_wire(t, p, d)] for k, t in call['kw']]}


def documented_path(call, index, name, with_self):
    """keyword value if truthy, else the positional argument at `index` (None = the selection fails)"""
    for k, t in call['kw']:
        if k == name and t in ('P', 'D', 'o'):
            return t
    args = (['o'] if with_self else []) + list(call['pos'])
    return args[index] if index < len(args) else 'IndexError'


SHAPES = [
    # (pos tokens relative to the path slot, kw) ; '@' marks the path slot
    {'pos': ['P'], 'kw': []},
    {'pos': ['o', 'P'], 'kw': []},
    {'pos': [], 'kw': [['path', 'P']]},
    {'pos': ['D'], 'kw': [['path', 'P']]},
    {'pos': ['P'], 'kw': [['path', '']]},
    {'pos': ['P'], 'kw': [['path', None]]},
    {'pos': ['o', 'P'], 'kw': [['other', 'D']]},
]
BAD_SHAPES = [
    {'pos': [], 'kw': [['path', '']]},        # IndexError
    {'pos': [None], 'kw': []},                # TypeError in getsize / open
    {'pos': ['o'], 'kw': [['path', None]]},   # not a path
]


def shape_index(shape):
    return shape['pos'].index('P') if 'P' in shape['pos'] else 0


class C20(Prop):
    ID = 'C20'
    CORRESPONDENCE = 'PlaybackModel.FileIntercept (prepare/cassetteRT/restoreInput/restoreOutput) vs a full trip through TapeRecorder + cassette'
    RULE = ('full record -> cassette -> replay trips (in-memory, file based, S3 on the boto3 stand-in) with structured '
            'contents (empty, all 256 byte values, CR/LF mixes, the placeholder text, limit-1/limit/limit+1 bytes, files of tens / hundreds of KB and of more than 1 MB (also exactly 4 and 8 MB) within the limit, input paths that are symbolic links to the file (15 % of the trips), contents that are themselves zlib / gzip / base64 payloads, random '
            'binary), path positional/keyword/decoy/falsy keyword, limit explicit/environment/default, plus unit cases '
            'for path selection and the size rule; a case is non-trivial when a file was recorded (trip) or a size was '
            'classified (limit) or a path selected (path); distinct = distinct canonical case')
    TRUSTED = ['correspondence harness harness/props/c20.py + Lean driver (Drive/Files.lean)',
               'the file system (os.path.getsize = stat without read; open/read/write of regular files) - the read log is '
               'observed with a sys.addaudithook "open" hook on the real run',
               "Python's float(text) parser and float/int comparison (the limit reaches the model as float.as_integer_ratio())",
               'the envelope {file_path: str, file_content: bytes} passes through jsonpickle unchanged (C07); exercised on all '
               'three cassettes on every run',
               'harness/fake_s3.py stands in for S3 behind the real S3BasicFacade']
    ASSUMPTIONS = ['file sizes below 2^53 bytes (size/2^20 exact in binary64)',
                   'the file is not modified between the size check and the read']
    PARALLEL = 12

    # ------------------------------------------------------------------------------------------------------
    # generation
    # ------------------------------------------------------------------------------------------------------
    def rand_content(self, rng, n=None):
        if n is None:
            n = rng.choice([0, 1, 2, 3, 4, 5, 7, 24, 57, 58, 76, 77, 100, 255, 256, 1000])
        kind = rng.random()
        if kind < 0.6:
            return bytes(rng.getrandbits(8) for _ in range(n))
        if kind < 0.8:
            return bytes(rng.choice(b'\r\n\r\n ab=\x00\xff') for _ in range(n))
        return (PLACEHOLDER * (n // len(PLACEHOLDER) + 1))[:n]

    def fixed_contents(self):
        return [b'', bytes(range(256)), b'a\r\nb\nc\rd\r\r\n\n', PLACEHOLDER, PLACEHOLDER + b'\n', b' ' + PLACEHOLDER,
                PLACEHOLDER[:-1], b'=', b'====', b'\x00', b'\xff' * 5, b'YWJvdmUgaW50ZXJjZXB0aW9uIGxpbWl0',
                bytes(range(255, -1, -1)) * 3, b'\n', b'\r\n' * 40,
                # files that are themselves encoded / compressed payloads (a blob downloaded from upstream): bytes are bytes
                __import__('zlib').compress(b'payload ' * 40), __import__('gzip').compress(b'payload ' * 40, mtime=0),
                __import__('base64').b64encode(b'payload ' * 10), b'{"py/b64": "YQ=="}']

    def mk_trip(self, rng, content, limit, cassette=None, out=None, shape_in=None, shape_rep=None, shape_out=None,
                static=None):
        static = rng.random() < 0.3 if static is None else static
        shape_in = shape_in or rng.choice(SHAPES)
        # the replayed call may name the path differently, but the handler's index is fixed: keep the slot compatible
        idx = shape_index(shape_in)
        compatible = [s for s in SHAPES if 'P' not in s['pos'] or shape_index(s) == idx]
        shape_rep = shape_rep or (shape_in if rng.random() < 0.5 else rng.choice(compatible))
        shape_out = shape_out or rng.choice(SHAPES)
        if out is None:
            out = 'echo' if rng.random() < 0.5 else {'hex': self.rand_content(rng).hex()}
        return {'kind': 'trip', 'cassette': cassette or rng.choice(['mem', 'file', 's3']), 'static': static,
                'limit': limit, 'in': content, 'out': out,
                'in_index': idx, 'out_index': shape_index(shape_out),
                'recIn': shape_in, 'repIn': shape_rep, 'recOut': shape_out,
                'repOut': shape_out if rng.random() < 0.7 else rng.choice(
                    [s for s in SHAPES if 'P' not in s['pos'] or shape_index(s) == shape_index(shape_out)]),
                'decoy': rng.random() < 0.5,
                # a leftover file of the same size at the replayed path; the replayed code names its files relative to its cwd
                'stale': rng.random() < 0.25, 'relative': rng.random() < 0.2,
                # the delivered input path is a symbolic link to the file
                'symlink': rng.random() < 0.15}

    def mk_series(self, rng, cassette=None, n=None):
        """consecutive operations of one long-lived service: same handlers, same working paths; a delivery often has the
        size AND the modification time of the previous one but different bytes"""
        shape = rng.choice(SHAPES[:3])
        n = n or rng.randint(2, 5)
        size = rng.choice([0, 1, 5, 24, 24, 57, 100, 300])
        mtime = 1700000000
        ds = []
        for i in range(n):
            c = rng.random()
            if i and c < 0.25:
                size = rng.choice([0, 1, 5, 24, 57, 100, 300])
            if i and rng.random() < 0.3:
                mtime += 500
            content = self.rand_content(rng, size)
            if i and c > 0.9:
                content = bytes.fromhex(ds[-1]['in']['hex'])          # really unchanged
            out = 'echo' if rng.random() < 0.7 else {'hex': self.rand_content(rng, size).hex()}
            ds.append({'in': {'hex': content.hex()}, 'out': out, 'mtime': mtime if rng.random() < 0.9 else None})
        lim = rng.choice([{'explicit': {'float': ['1', '1']}}, {'explicit': None, 'env': None},
                          {'explicit': {'float': ['100', str(MB)]}}])
        return {'kind': 'series', 'cassette': cassette or rng.choice(['mem', 'file', 's3']), 'static': rng.random() < 0.3,
                'limit': lim, 'in_index': shape_index(shape), 'out_index': shape_index(shape),
                'recIn': shape, 'repIn': shape, 'recOut': shape, 'repOut': shape, 'decoy': False, 'deliveries': ds}

    def rand_limit(self, rng):
        """a limit and the byte boundary it implies (None when the boundary is not small)"""
        c = rng.random()
        if c < 0.45:
            nbytes = rng.choice([0, 1, 2, 3, 24, 25, 100, 1000, 1048, 1049, 2048])
            return {'explicit': {'float': [str(nbytes), str(MB)]}}, nbytes      # dyadic fraction of a MB: exact boundary
        if c < 0.6:
            v = rng.choice([0.001, 0.0001, 0.00005, 1e-5, 0.0007])
            return {'explicit': {'float': [str(x) for x in Fraction(v).as_integer_ratio()]}}, int(Fraction(v) * MB)
        if c < 0.7:
            return {'explicit': {'int': rng.choice([0, 1, 500])}}, None
        if c < 0.9:
            return {'explicit': None, 'env': rng.choice(['0', '0.9', '-0.5', '-1.5', '1', '1.9', '500', '2e0', ' 3 '])}, None
        return {'explicit': None, 'env': None}, None

    def generate(self, rng, tier):
        cases = []
        quick = tier == 'quick'
        # 1. fixed contents on every cassette, generous limit and default limit
        for cas in ['mem', 'file', 's3']:
            for i, c in enumerate(self.fixed_contents()):
                lim = [{'explicit': {'float': ['1', '1']}}, {'explicit': None, 'env': None},
                       {'explicit': None, 'env': '2'}][i % 3]
                cases.append(self.mk_trip(rng, {'hex': c.hex()}, lim, cassette=cas))
        # 2. boundary triples limit-1 / limit / limit+1 bytes
        for _ in range(30 if quick else 150):
            lim, nb = self.rand_limit(rng)
            if nb is None:
                continue
            for size in (nb - 1, nb, nb + 1):
                if size < 0:
                    continue
                cases.append(self.mk_trip(rng, {'hex': self.rand_content(rng, size).hex()}, lim))
            # and on the output side: the output content sits at the boundary, the input is tiny
            for size in (nb, nb + 1):
                cases.append(self.mk_trip(rng, {'hex': b'x'.hex()} if nb >= 1 else {'hex': ''}, lim,
                                          out={'hex': self.rand_content(rng, size).hex()}))
        # 3. random trips
        for _ in range(150 if quick else 1600):
            lim, nb = self.rand_limit(rng)
            cases.append(self.mk_trip(rng, {'hex': self.rand_content(rng).hex()}, lim))
        # 4. whole-MB limits from the environment / explicit ints: sparse files above, a real file at the limit
        big = [({'explicit': None, 'env': '1.9'}, MB + 1), ({'explicit': {'int': 1}}, MB + 1),
               ({'explicit': None, 'env': '0.9'}, 1), ({'explicit': None, 'env': '-0.5'}, 0),
               ({'explicit': None, 'env': '-1.5'}, 0), ({'explicit': {'int': 0}}, 1), ({'explicit': {'int': 0}}, 0)]
        if not quick:
            big += [({'explicit': None, 'env': '1.9'}, 3 * MB), ({'explicit': {'int': 2}}, 2 * MB + 1),
                    ({'explicit': {'float': ['3', '2']}}, 3 * MB // 2 + 1), ({'explicit': None, 'env': '20'}, 20 * MB + 1)]
        for lim, size in big:
            cases.append(self.mk_trip(rng, {'zeros': size} if size > 4096 else {'hex': self.rand_content(rng, size).hex()}, lim,
                                      out={'hex': '00'}))
        if not quick:
            for lim, size in [({'explicit': {'int': 1}}, MB), ({'explicit': {'int': 1}}, MB - 1),
                              ({'explicit': None, 'env': '1.9'}, MB), ({'explicit': {'float': ['3', '2']}}, 3 * MB // 2)]:
                cases.append(self.mk_trip(rng, {'hex': self.rand_content(rng, size).hex()}, lim, out={'hex': '00'},
                                          cassette=rng.choice(['mem', 'file', 's3'])))
        # 4b. files of tens / hundreds of KB below the limit, with real content (block-wise readers / encoders: sizes around
        # multiples of 2^16 and of 3)
        medium = [65535, 65536, 65537, 3 * 65536 + 1, 100000] if quick else \
            [65535, 65536, 65537, 2 * 65536, 3 * 65536 - 1, 3 * 65536, 3 * 65536 + 1, 100000, 200001, 8191, 8192, 8193,
             16385, 32769, 49153, 131071, 131073, 262145, 300000, 524289]
        for size in medium:
            lim = rng.choice([{'explicit': None, 'env': None}, {'explicit': {'int': 1}}, {'explicit': None, 'env': '2.5'}])
            cases.append(self.mk_trip(rng, {'hex': rng.randbytes(size).hex()}, lim, out={'hex': rng.randbytes(size // 2 + 1).hex()},
                                      cassette=rng.choice(['mem', 'file', 's3'])))
        # 4c. files of more than a MB that are still within the limit (chunked readers / encoders)
        # (and of exactly 4 / 8 MB: whole multiples of the block sizes such code tends to use)
        for size, lim in [(MB + 1, {'explicit': {'int': 3}}), (4 * MB, {'explicit': {'int': 5}}), (MB + 4099, {"explicit": None, "env": None}),
                          (8 * MB, {"explicit": None, "env": None})][:2 if quick else 4]:
            cases.append(self.mk_trip(rng, {'zeros': size}, lim, out={'hex': '00'}, cassette=rng.choice(['mem', 'file'])))
        # 5. calls that do not name a usable path
        for _ in range(6 if quick else 60):
            lim, nb = self.rand_limit(rng)
            c = self.mk_trip(rng, {'hex': self.rand_content(rng).hex()}, lim)
            which = rng.choice(['recIn', 'repIn', 'recOut', 'repOut'])
            c[which] = rng.choice(BAD_SHAPES)
            cases.append(c)
        # 5b. series: several operations through ONE pair of handlers, each replayed afterwards
        for _ in range(40 if quick else 600):
            cases.append(self.mk_series(rng))
        # 6. unit cases: path selection and the size rule
        for _ in range(60 if quick else 1500):
            npos = rng.randint(0, 3)
            call = {'pos': [rng.choice(['P', 'D', 'o', None, '']) for _ in range(npos)],
                    'kw': [[k, rng.choice(['P', 'D', 'o', None, ''])] for k in rng.sample(['path', 'other', 'p'], rng.randint(0, 2))]}
            cases.append({'kind': 'path', 'index': rng.randint(0, 3), 'name': rng.choice(['path', 'p']), 'call': call})
        for _ in range(40 if quick else 800):
            lim, nb = self.rand_limit(rng)
            if nb is not None:
                sizes = sorted({max(0, nb + k) for k in (-2, -1, 0, 1, 2)} | {0, rng.randint(0, 5000)})
            else:
                lm = documented_limit(lim)
                base = int(lm * MB) if lm >= 0 else 0
                sizes = sorted({0, 1, max(0, base - 1), base, base + 1, rng.randint(0, 3 * MB)})
            cases.append({'kind': 'limit', 'limit': lim, 'sizes': sizes})
        for env in ['abc', '', '1,5']:
            cases.append({'kind': 'limit', 'limit': {'explicit': None, 'env': env}, 'sizes': []})
        return cases

    # ------------------------------------------------------------------------------------------------------
    # the real code
    # ------------------------------------------------------------------------------------------------------
    def run_impl(self, case):
        if case['kind'] == 'path':
            return self.impl_path(case)
        if case['kind'] == 'limit':
            return self.impl_limit(case)
        if case['kind'] == 'series':
            return self.impl_series(case)
        return self.impl_trip(case)

    def impl_path(self, case):
        from playback.interception.files.file_interception import FileInterception
        h = FileInterception(case['index'], case['name'], 1)
        args = tuple(tok_value(t, '/P', '/D') for t in case['call']['pos'])
        marker = args
        kwargs = {k: tok_value(t, '/P', '/D') for k, t in case['call']['kw']}
        try:
            r = h._get_file_path(args, kwargs)
        except Exception as ex:
            return {'error': type(ex).__name__}
        if r is None:
            return {'path': None}
        if isinstance(r, str):
            return {'path': {'s': r}}
        return {'path': 'o'}

    def impl_limit(self, case):
        from playback.interception.files.file_interception import FileInterception
        explicit, env = limit_python(case['limit'])
        with _env(env):
            try:
                h = FileInterception(0, 'path', explicit)
            except Exception as ex:
                return {'error': type(ex).__name__}
        fr = Fraction(h.intercepted_size_limit)
        d = tempfile.mkdtemp(prefix='c20l')
        try:
            above = []
            p = os.path.join(d, 'f')
            for s in case['sizes']:
                with open(p, 'wb') as f:
                    f.truncate(s)
                above.append(bool(h._is_file_above_size_limit(p)))
        finally:
            shutil.rmtree(d, ignore_errors=True)
        return {'limit': [str(fr.numerator), str(fr.denominator)], 'above': above}

    def make_cassette(self, kind, tmp):
        if kind == 'mem':
            from playback.tape_cassettes.in_memory.in_memory_tape_cassette import InMemoryTapeCassette
            return InMemoryTapeCassette()
        if kind == 'file':
            from playback.tape_cassettes.file_based.file_based_tape_cassette import FileBasedTapeCassette
            return FileBasedTapeCassette(os.path.join(tmp, 'cassette'))
        from harness import fake_s3
        fake_s3.install()
        fake_s3.reset()
        from playback.tape_cassettes.s3.s3_tape_cassette import S3TapeCassette
        return S3TapeCassette('bucket-c20', key_prefix='pre', read_only=False)

    def impl_trip(self, case):
        return self.impl_trips(case, [{'in': case['in'], 'out': case['out'], 'mtime': None}])[0]

    def impl_series(self, case):
        return self.impl_trips(case, case['deliveries'])

    def impl_trips(self, case, deliveries):
        """One TapeRecorder, ONE pair of file data handlers (as the decorators create them) and one working directory;
        the operation is recorded once per delivery, then every recording is replayed in its own fresh directory.
        Returns one transcript per delivery."""
        from playback.tape_recorder import TapeRecorder
        from playback.interception.files.input_file_interception import InputInterceptionFileDataHandler
        from playback.interception.files.output_file_interception import OutputInterceptionFileDataHandler
        _install_spy()
        tmp = tempfile.mkdtemp(prefix='c20t')
        rec_dir = os.path.join(tmp, 'rec')
        rep_dirs = [os.path.join(tmp, 'rep%d' % i) for i in range(len(deliveries))]
        os.mkdir(rec_dir)
        for d in rep_dirs:
            os.mkdir(d)
        static = case['static']
        explicit, env = limit_python(case['limit'])
        state = {}

        def canon_path(p):
            if isinstance(p, str):
                if state.get('relative') and p in ('in.bin', 'out.bin', 'decoy.bin'):
                    return '<REP>/' + p          # a bare file name, relative to the replay's working directory
                p = p.replace(rec_dir, '<REC>')
                for d in rep_dirs:
                    p = p.replace(d, '<REP>')
            return p

        def pval(v):
            if v is None:
                return None
            if isinstance(v, str):
                return {'s': canon_path(v)}
            return 'o'

        def stamp(path):
            # the delivered file keeps the modification time of its source (cp -p, rsync -t, archive extraction)
            mtime = state['delivery'].get('mtime')
            if mtime is not None:
                os.utime(path, (mtime, mtime))

        try:
            with _env(env):
                ih = InputInterceptionFileDataHandler(case['in_index'] + (0 if static else 1), 'path', explicit)
                oh = OutputInterceptionFileDataHandler(case['out_index'], 'path', explicit)
            cassette = self.make_cassette(case['cassette'], tmp)
            tr = TapeRecorder(cassette)
            tr.enable_recording()

            def fetch_body(*args, **kwargs):
                d = state['dir']
                if case.get('symlink'):
                    # the delivered path is a symbolic link (a "current" link into a versioned store): the file is its target
                    real = os.path.join(d, 'in.real')
                    h_write(real, content_bytes(state['delivery']['in']))
                    if os.path.lexists(os.path.join(d, 'in.bin')):
                        os.remove(os.path.join(d, 'in.bin'))
                    os.symlink(real, os.path.join(d, 'in.bin'))
                else:
                    h_write(os.path.join(d, 'in.bin'), content_bytes(state['delivery']['in']))
                stamp(os.path.join(d, 'in.bin'))
                if case['decoy']:
                    h_write(os.path.join(d, 'decoy.bin'), b'decoy')
                return 'fetched'

            def emit_body(*args, **kwargs):
                return 'emitted'

            if static:
                s_fetch = tr.static_intercept_input('fetch', data_handler=ih, capture_args=[])(fetch_body)
                s_emit = tr.static_intercept_output('emit', data_handler=oh)(emit_body)

            class Op(object):
                @tr.operation()
                def run(self, phase):
                    if phase == 'rec':
                        state['rid'] = tr.current_recording_id
                    d = state['dir']
                    echo = state['delivery']['out'] == 'echo'
                    p_in, p_out, dec = os.path.join(d, 'in.bin'), os.path.join(d, 'out.bin'), os.path.join(d, 'decoy.bin')
                    if state.get('relative') and phase == 'rep':
                        p_in, p_out, dec = 'in.bin', 'out.bin', 'decoy.bin'      # the working directory IS `d`
                    call = case['recIn' if phase == 'rec' else 'repIn']
                    a = [tok_value(t, p_in, dec) for t in call['pos']]
                    k = {kk: tok_value(t, p_in, dec) for kk, t in call['kw']}
                    try:
                        state[phase + '_ret'] = pval((s_fetch if static else self.fetch)(*a, **k))
                    except Exception as ex:
                        state[phase + '_ret'] = type(ex).__name__
                    data = h_read(p_in)
                    state[phase + '_seen'] = data
                    state[phase + '_watch'] = {'<DIR>/in.bin': data, '<DIR>/decoy.bin': h_read(dec)}
                    out = (data or b'') if echo else content_bytes(state['delivery']['out'])
                    h_write(p_out, out)
                    stamp(p_out)
                    state[phase + '_out_written'] = out
                    call = case['recOut' if phase == 'rec' else 'repOut']
                    a = [tok_value(t, p_out, dec) for t in call['pos']]
                    k = {kk: tok_value(t, p_out, dec) for kk, t in call['kw']}
                    try:
                        (s_emit if static else self.emit)(*a, **k)
                    except Exception as ex:
                        state[phase + '_emit_error'] = type(ex).__name__
                    return 'done'

                if not static:
                    @tr.intercept_input('fetch', data_handler=ih, capture_args=[])
                    def fetch(self, *args, **kwargs):
                        return fetch_body(*args, **kwargs)

                    @tr.intercept_output('emit', data_handler=oh)
                    def emit(self, *args, **kwargs):
                        return emit_body(*args, **kwargs)

            # ---- record every delivery, one operation after the other, same handlers, same working paths
            _SPY['roots'] = tuple([rec_dir] + rep_dirs)
            recorded = []
            for dl in deliveries:
                state['delivery'], state['dir'] = dl, rec_dir
                state.pop('rid', None)
                state.pop('rec_out_written', None)
                _SPY['log'] = []
                _SPY['on'] = True
                try:
                    Op().run('rec')
                finally:
                    _SPY['on'] = False
                recorded.append({'rid': state.get('rid'), 'rec_reads': [canon_path(p) for p in _SPY['log']],
                                 'rec_out_written': state.get('rec_out_written')})
            tr.disable_recording()
            # ---- the recorded files are gone; replay each recording in its own fresh directory
            with _quiet():
                shutil.rmtree(rec_dir)
                os.mkdir(rec_dir)
            results = []
            for dl, r, rep_dir in zip(deliveries, recorded, rep_dirs):
                try:
                    rec = cassette.get_recording(r['rid'])
                except Exception:
                    results.append({'discarded': True, 'rec_reads': r['rec_reads']})
                    continue
                t = {'rec_reads': r['rec_reads']}
                env_in = rec.get_data(IN_KEY)['value']
                env_out = rec.get_data(OUT_KEY)
                t['in'] = {'stored': digest_hex(bytes(env_in['file_content']).hex()), 'path': pval(env_in['file_path'])}
                if case['decoy']:
                    h_write(os.path.join(rep_dir, 'decoy.bin'), b'decoy')
                state['delivery'], state['dir'] = dl, rep_dir
                for k in ('rep_ret', 'rep_seen', 'rep_watch', 'rep_out_written'):
                    state.pop(k, None)
                if case.get('stale') and isinstance(dl['in'], dict) and 'hex' in dl['in']:
                    # a leftover of an earlier run sits at the replayed path: same size, other bytes
                    h_write(os.path.join(rep_dir, 'in.bin'), bytes(b ^ 0x5a for b in content_bytes(dl['in'])))
                state['relative'] = bool(case.get('relative'))
                cwd = os.getcwd()
                if state['relative']:
                    os.chdir(rep_dir)
                _SPY['log'] = []
                _SPY['on'] = True
                try:
                    pb = tr.play(r['rid'], lambda recording: Op().run('rep'))
                finally:
                    _SPY['on'] = False
                    if state['relative']:
                        os.chdir(cwd)
                t['rep_reads'] = [canon_path(p) for p in _SPY['log']]
                t['restored_ret'] = state.get('rep_ret')
                seen = state.get('rep_seen')
                t['restored_bytes'] = None if seen is None else digest_hex(seen.hex())
                t['rep_decoy'] = (lambda b: None if b is None else b.hex())(state['rep_watch']['<DIR>/decoy.bin'])
                with _quiet():
                    t['written_into_rec_dir'] = sorted(os.listdir(rec_dir))
                rec_outs = [o for o in pb.recorded_outputs if o.key == OUT_KEY]

                def restore(value):
                    """(holder content, holder path, holder) - a raising restore is an observation, not a harness failure"""
                    try:
                        hd = oh.restore_output_from_recording(value)
                        return digest_hex(bytes(hd.file_content).hex()), pval(hd.output_file_path), hd
                    except Exception as ex:
                        return 'raised ' + type(ex).__name__, None, None
                hc, hp, _hd = restore(rec_outs[0].value)
                t['out'] = {'stored': digest_hex(bytes(env_out['file_content']).hex()), 'path': pval(env_out['file_path']),
                            'holder': hc, 'holder_path': hp}
                pb_outs = [o for o in pb.playback_outputs if o.key == OUT_KEY]
                if pb_outs:
                    hc, hp, hd = restore(pb_outs[0].value)
                    t['pb'] = {'stored': digest_hex(bytes(pb_outs[0].value['file_content']).hex()),
                               'path': pval(pb_outs[0].value['file_path']), 'holder': hc, 'holder_path': hp}
                    if hd is not None:
                        # the holder can be written out again
                        q = os.path.join(rep_dir, 'again.bin')
                        with _quiet():
                            hd.to_file(q)
                        t['pb_to_file_ok'] = h_read(q) == bytes(hd.file_content)
                else:
                    t['pb'] = None
                t['_rec_out_written'] = digest_hex(r['rec_out_written'].hex()) if isinstance(r['rec_out_written'], bytes) else None
                t['_rep_out_written'] = digest_hex(state['rep_out_written'].hex()) if isinstance(state.get('rep_out_written'), bytes) else None
                results.append(t)
            return results
        finally:
            _SPY['on'] = False
            shutil.rmtree(tmp, ignore_errors=True)

    @staticmethod
    def saved_ids(cassette, kind):
        if kind == 'mem':
            return cassette.get_all_recording_ids()
        return list(cassette.iter_recording_ids('Op'))

    # ------------------------------------------------------------------------------------------------------
    # the model
    # ------------------------------------------------------------------------------------------------------
    @staticmethod
    def delivery_case(case, dl):
        """one operation of a series, as the stand-alone trip the model sees: the handlers carry no state from one
        operation to the next, so every recording must hold what THAT operation's file held"""
        c = {k: v for k, v in case.items() if k != 'deliveries'}
        c.update({'kind': 'trip', 'in': dl['in'], 'out': dl['out']})
        return c

    def model_requests(self, case):
        if case['kind'] == 'series':
            return [r for dl in case['deliveries'] for r in self.model_requests(self.delivery_case(case, dl))]
        if case['kind'] == 'path':
            return [{'m': 'c20.path', 'h': {'index': case['index'], 'name': case['name']},
                     'call': call_wire(case['call'], '/P', '/D', False)}]
        if case['kind'] == 'limit':
            try:
                lw = limit_wire(case['limit'])
            except ValueError:
                return []
            return [{'m': 'c20.limit', 'limit': lw, 'sizes': case['sizes']}]
        static = case['static']
        return [{'m': 'c20.trip', 'limit': limit_wire(case['limit']),
                 'inH': {'index': case['in_index'] + (0 if static else 1), 'name': 'path'},
                 'outH': {'index': case['out_index'], 'name': 'path'},
                 'recIn': call_wire(case['recIn'], '<REC>/in.bin', '<REC>/decoy.bin', not static),
                 'repIn': call_wire(case['repIn'], '<REP>/in.bin', '<REP>/decoy.bin', not static),
                 'recOut': call_wire(case['recOut'], '<REC>/out.bin', '<REC>/decoy.bin', False),
                 'repOut': call_wire(case['repOut'], '<REP>/out.bin', '<REP>/decoy.bin', False),
                 'recFiles': [['<REC>/in.bin', case['in']]] + ([['<REC>/decoy.bin', {'hex': b'decoy'.hex()}]] if case['decoy'] else []),
                 'repFiles': ([['<REP>/decoy.bin', {'hex': b'decoy'.hex()}]] if case['decoy'] else []) +
                 ([['<REP>/in.bin', {'hex': bytes(b ^ 0x5a for b in bytes.fromhex(case['in']['hex'])).hex()}]]
                  if case.get('stale') and isinstance(case['in'], dict) and 'hex' in case['in'] else []),
                 'recInPath': '<REC>/in.bin', 'repInPath': '<REP>/in.bin',
                 'recOutPath': '<REC>/out.bin', 'repOutPath': '<REP>/out.bin', 'repDecoy': '<REP>/decoy.bin',
                 'out': case['out']}]

    def model_transcript(self, case, answers):
        if case['kind'] == 'series':
            return [self.model_transcript(self.delivery_case(case, dl), [a]) for dl, a in zip(case['deliveries'], answers)]
        if case['kind'] == 'limit' and not answers:
            return {'error': 'ValueError'}
        a = answers[0]
        if case['kind'] != 'trip':
            return a
        if 'discarded' in a:
            return {'discarded': True, 'rec_reads': a['rec_reads']}

        def dg(o):
            if isinstance(o, dict):
                return {k: (digest_hex(v) if k in ('stored', 'holder') else v) for k, v in o.items()}
            return o
        a = dict(a)
        a['in'], a['out'], a['pb'] = dg(a['in']), dg(a['out']), dg(a['pb'])
        a['restored_bytes'] = digest_hex(a['restored_bytes'])
        if not isinstance(a['pb'], dict):
            a['pb'] = None
        return a

    def impl_view(self, case, impl):
        if case['kind'] == 'series':
            return [self.impl_view(self.delivery_case(case, dl), t) for dl, t in zip(case['deliveries'], impl)]
        if case['kind'] != 'trip' or 'discarded' in impl:
            return impl
        return {k: v for k, v in impl.items() if k in ('in', 'out', 'pb', 'rec_reads', 'rep_reads', 'restored_ret',
                                                       'restored_bytes', 'rep_decoy')}

    # ------------------------------------------------------------------------------------------------------
    # the property, stated directly
    # ------------------------------------------------------------------------------------------------------
    def oracle(self, case, impl):
        if case['kind'] == 'series':
            return ['operation %d of %d on one pair of handlers: %s' % (i + 1, len(impl), f)
                    for i, (dl, t) in enumerate(zip(case['deliveries'], impl))
                    for f in self.oracle(self.delivery_case(case, dl), t)]
        if case['kind'] == 'path':
            want = documented_path(case['call'], case['index'], case['name'], False)
            got = impl.get('error') or impl['path']
            got = {'/P': 'P', '/D': 'D'}.get(got['s'], got['s']) if isinstance(got, dict) else got
            if got != want:
                return ['path selection gave %r, documented rule (keyword if truthy, else args[index]) gives %r' % (got, want)]
            return []
        if case['kind'] == 'limit':
            if 'error' in impl:
                return []
            fails = []
            want_lim = documented_limit(case['limit'])
            if Fraction(int(impl['limit'][0]), int(impl['limit'][1])) != want_lim:
                fails.append('limit in force is %s MB, documented rule gives %s MB' % ('/'.join(impl['limit']), want_lim))
            for s, a in zip(case['sizes'], impl['above']):
                if a != documented_above(s, case['limit']):
                    fails.append('file of %d bytes classified above=%s with limit %s MB' % (s, a, want_lim))
            return fails
        if 'discarded' in impl:
            return []
        fails = []
        ph = PLACEHOLDER.hex()
        in_path_tok = documented_path(case['recIn'], case['in_index'] + (0 if case['static'] else 1), 'path', not case['static'])
        rep_path_tok = documented_path(case['repIn'], case['in_index'] + (0 if case['static'] else 1), 'path', not case['static'])
        # ---- input
        if in_path_tok == 'P':
            size = content_size(case['in'])
            original = digest_hex(materialise(case['in']).hex()) if size <= 16 * MB else None
            if documented_above(size, case['limit']):
                if impl['in']['stored'] != ph:
                    fails.append('input file of %d bytes is above the limit but is not represented by the placeholder' % size)
                if '<REC>/in.bin' in impl['rec_reads']:
                    fails.append('input file of %d bytes is above the limit but was opened for reading' % size)
            elif rep_path_tok == 'P' and isinstance(impl['restored_ret'], dict):
                if impl['restored_bytes'] != original:
                    fails.append('input file (%d bytes, within the limit) was not restored byte-identically at the replayed '
                                 'path: got %r' % (size, impl['restored_bytes']))
                if impl['restored_ret'] != {'s': '<REP>/in.bin'}:
                    fails.append('replayed input returned %r, not the replayed path' % (impl['restored_ret'],))
            if impl['written_into_rec_dir']:
                fails.append('replay wrote %r into the directory of the recorded run' % impl['written_into_rec_dir'])
        # ---- output
        out_tok = documented_path(case['recOut'], case['out_index'], 'path', False)
        if out_tok == 'P' and impl.get('_rec_out_written') is not None:
            written = impl['_rec_out_written']
            size = written['len'] if isinstance(written, dict) else len(written) // 2
            if documented_above(size, case['limit']):
                if impl['out']['stored'] != ph or impl['out']['holder'] != ph:
                    fails.append('output file of %d bytes is above the limit but is not represented by the placeholder' % size)
                if '<REC>/out.bin' in impl['rec_reads']:
                    fails.append('output file of %d bytes is above the limit but was opened for reading' % size)
            elif impl['out']['holder'] != written:
                fails.append('recorded output holder does not carry the %d bytes written: %r' % (size, impl['out']['holder']))
        pb_tok = documented_path(case['repOut'], case['out_index'], 'path', False)
        if pb_tok == 'P' and impl.get('pb') and impl.get('_rep_out_written') is not None:
            written = impl['_rep_out_written']
            size = written['len'] if isinstance(written, dict) else len(written) // 2
            if documented_above(size, case['limit']):
                if impl['pb']['stored'] != ph or impl['pb']['holder'] != ph:
                    fails.append('replayed output file of %d bytes is above the limit but is not the placeholder' % size)
                if '<REP>/out.bin' in impl['rep_reads']:
                    fails.append('replayed output file of %d bytes is above the limit but was opened for reading' % size)
            else:
                if impl['pb']['holder'] != written:
                    fails.append('replayed output holder does not carry the %d bytes written: %r' % (size, impl['pb']['holder']))
                if impl.get('pb_to_file_ok') is False:
                    fails.append('holder.to_file did not write the holder content')
        return fails

    # ------------------------------------------------------------------------------------------------------
    def nontrivial(self, case, impl):
        if case['kind'] == 'series':
            return sum(1 for t in impl if 'discarded' not in t) >= 2
        if case['kind'] == 'trip':
            return 'discarded' not in impl
        if case['kind'] == 'limit':
            return bool(case['sizes'])
        return True

    def features(self, case, impl):
        if isinstance(case, dict) and case.get('symlink'):
            return ['input-path-is-a-symlink'] + self._features(case, impl)
        return self._features(case, impl)

    def _features(self, case, impl):
        out = ['kind:' + case['kind']]
        if case['kind'] == 'series':
            out.append('cassette:' + case['cassette'])
            out.append('series-length:%d' % len(case['deliveries']))
            ds = case['deliveries']
            for a, b in zip(ds, ds[1:]):
                same = content_size(a['in']) == content_size(b['in']) and a['mtime'] is not None and a['mtime'] == b['mtime']
                out.append('series-step:' + ('same-size-and-mtime' if same and a['in'] != b['in'] else 'other'))
            return out
        if case['kind'] == 'trip':
            out.append('cassette:' + case['cassette'])
            out.append('static' if case['static'] else 'method')
            out.append('limit:' + ('explicit' if case['limit'].get('explicit') is not None else
                                   ('env' if case['limit'].get('env') is not None else 'default')))
            out.append('in-path:' + ('keyword' if any(k == 'path' and t == 'P' for k, t in case['recIn']['kw']) else 'positional'))
            if 'discarded' in impl:
                out.append('result:discarded')
            else:
                out.append('in:' + ('placeholder' if impl['in']['stored'] == PLACEHOLDER.hex() else 'recorded'))
                out.append('out:' + ('placeholder' if impl['out']['stored'] == PLACEHOLDER.hex() else 'recorded'))
                n = content_size(case['in'])
                out.append('in-size:' + ('0' if n == 0 else '<=256' if n <= 256 else '<=4096' if n <= 4096 else 'big'))
        elif case['kind'] == 'path':
            out.append('path-result:' + ('error' if 'error' in impl else 'value'))
        else:
            out.append('limit-result:' + ('error' if 'error' in impl else 'value'))
        return out

    def sample_repr(self, case):
        if case['kind'] == 'series':
            return dict(case, deliveries=[self.sample_repr(dict(d, kind='delivery')) for d in case['deliveries']])
        c = dict(case)
        for k in ('in', 'out'):
            if isinstance(c.get(k), dict) and 'hex' in c[k] and len(c[k]['hex']) > 80:
                c[k] = {'hex': c[k]['hex'][:80] + '…(%d bytes)' % (len(c[k]['hex']) // 2)}
        return c

    def shrink(self, case):
        if case['kind'] == 'series':
            ds = case['deliveries']
            if len(ds) > 2:
                for i in range(len(ds)):
                    yield dict(case, deliveries=ds[:i] + ds[i + 1:])
            if case['cassette'] != 'mem':
                yield dict(case, cassette='mem')
            return
        if case['kind'] != 'trip':
            if case['kind'] == 'limit':
                for i in range(len(case['sizes'])):
                    yield dict(case, sizes=case['sizes'][:i] + case['sizes'][i + 1:])
            return
        for cas in ('mem',):
            if case['cassette'] != cas:
                yield dict(case, cassette=cas)
        if case['decoy']:
            yield dict(case, decoy=False)
        simple = {'pos': ['P'], 'kw': []}
        for k in ('recIn', 'repIn', 'recOut', 'repOut'):
            if case[k] != simple:
                c = dict(case)
                c[k] = simple
                if k in ('recIn', 'repIn'):
                    c['recIn'] = c['repIn'] = simple
                    c['in_index'] = 0
                else:
                    c['recOut'] = c['repOut'] = simple
                    c['out_index'] = 0
                yield c
        if case['out'] != 'echo':
            yield dict(case, out='echo')
        if 'hex' in case['in']:
            b = bytes.fromhex(case['in']['hex'])
            for cut in (b[:len(b) // 2], b[1:], b[:-1]):
                if len(cut) < len(b):
                    yield dict(case, **{'in': {'hex': cut.hex()}})

    def targeted(self, case, rng):
        out = []
        if case['kind'] == 'series':
            return [self.mk_series(rng) for _ in range(60)]
        if case['kind'] == 'limit':
            for _ in range(300):
                lim, nb = self.rand_limit(rng)
                if nb is not None:
                    out.append({'kind': 'limit', 'limit': lim, 'sizes': [max(0, nb - 1), nb, nb + 1]})
            return out
        if case['kind'] == 'path':
            return out
        for c in self.fixed_contents():
            out.append(self.mk_trip(rng, {'hex': c.hex()}, {'explicit': {'float': ['1', '1']}}, cassette='mem'))
        for _ in range(150):
            lim, nb = self.rand_limit(rng)
            if nb is None:
                continue
            for size in (max(0, nb - 1), nb, nb + 1):
                out.append(self.mk_trip(rng, {'hex': self.rand_content(rng, size).hex()}, lim, cassette='mem'))
        return out


PROP = C20
