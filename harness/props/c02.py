"""C02 - Replay answers every interception from the recording or an explicit policy (DESIGN.md section 6, C02)."""
import itertools

from harness.props.recorder_common import RecorderProp, ALL_OPTS, IDLE
from harness import recorder_gen as rg

SUBSTITUTES = [None, {'const': {'i': '0'}}, {'const': {'s': ''}}, {'const': {'l': []}}, {'const': {'d': []}}, {'const': False},
               {'const': {'i': '5'}}, 'echo', {'raises': 'ValueError'}]
SUB_ANSWER = {0: None, 1: ['ret', '0'], 2: ['ret', '""'], 3: ['ret', '[]'], 4: ['ret', '{}'], 5: ['ret', 'False'],
              6: ['ret', '5'], 7: 'echo', 8: ['exc', 'ValueError']}


def table_cases():
    """the documented missing-key policy, enumerated: key present / absent x fallback aliases (none, present, absent, as a
    list or a function) x run-original x substitute (incl. falsy ones and callables); the expected answer is computed here
    from the documentation, independently of the model"""
    out = []
    for arg, fb, fbk, ro, si in itertools.product([1, 2], [None, ['A'], ['Z'], ['Z', 'A']],
                                                  [False, True, 'tuple', 'keys', 'frozenset'], [False, True], range(len(SUBSTITUTES))):
        # the fallback aliases are given as a list, through a function, or as another iterable (a tuple, the keys of a rename
        # map, a frozenset constant - of one alias: a set has no order)
        fbfn, shape = fbk is True, fbk if isinstance(fbk, str) else None
        if fb is None and fbk:
            continue
        if shape == 'frozenset' and len(fb) != 1:
            continue
        rec_site = {'kind': 'in', 'alias': 'A', 'flavor': 'instance', 'capture': 'all', 'resolver': None, 'nargs': 1,
                    'kwnames': [], 'handler': '', 'runOriginal': False, 'substitute': None, 'fallbacks': None,
                    'body': [{'op': 'ret', 'e': {'t': [{'c': {'s': 'recorded'}}, {'v': 'a0'}]}}]}
        q_site = dict(rec_site, alias='Q', runOriginal=ro, substitute=SUBSTITUTES[si], fallbacks=fb, fallbacksShape=shape,
                      fallbacksAsFunction=fbfn, body=[{'op': 'ret', 'e': {'c': {'s': 'live'}}}])
        out_site = {'kind': 'out', 'alias': 'send', 'flavor': 'instance', 'nargs': 1, 'kwnames': [], 'handler': '',
                    'failOnMissing': not ro, 'default': {'s': 'dflt'} if si % 2 else None,
                    'body': [{'op': 'ret', 'e': {'c': {'s': 'sent-live'}}}]}
        rec_script = [{'op': 'call', 's': 'r0', 'x': 'x0', 'args': [{'c': {'i': '1'}}]}, {'op': 'ret', 'e': {'v': 'x0'}}]
        play_script = [{'op': 'call', 's': 'q', 'x': 'y0', 'args': [{'c': {'i': str(arg)}}]},
                       {'op': 'call', 's': 'o', 'x': 'y1', 'args': [{'c': {'i': '7'}}]},
                       {'op': 'ret', 'e': {'t': [{'v': 'y0'}, {'v': 'y1'}]}}]
        present = arg == 1 and fb is not None and 'A' in fb
        if present:
            want_in = ['ret', '("recorded",1)']
        elif ro:
            want_in = ['ret', '"live"']
        elif SUB_ANSWER[si] == 'echo':
            want_in = ['ret', '(%d)' % arg]
        elif SUB_ANSWER[si] is not None:
            want_in = SUB_ANSWER[si]
        else:
            want_in = ['exc', 'RecordingKeyError']
        # the recording holds no output result: default unless failing is on
        want_out = ['exc', 'RecordingKeyError'] if out_site['failOnMissing'] else ['ret', '"dflt"' if si % 2 else 'None']
        out.append({'cassette': 'memory', 'classes': {'OpA': {'params': None, 'classLevel': False, 'hasExtractor': False}},
                    'sites': {'r0': rec_site, 'q': q_site, 'o': out_site},
                    'runs': [{'run': 'op', 'cls': 'OpA', 'enabled': True, 'script': rec_script, 'draws': [], 'clock': [1, 2]},
                             {'run': 'play', 'cls': 'OpA', 'rec': 0, 'enabled': bool(si % 2), 'script': play_script,
                              'clock': [5, 6, 7]},
                             {'run': 'play', 'cls': 'OpA', 'rec': 0, 'enabled': not bool(si % 2), 'script': play_script,
                              'clock': [8, 9, 10]}],
                    'expect': {'1': [want_in, want_out], '2': [want_in, want_out]},
                    'journal_expect': [['q', [str(arg)], []]] if (ro and not present) else []})
    out += order_cases()
    return out


def order_cases():
    """several candidate keys present at once: the call's own alias first, then the fallback aliases IN THE LISTED ORDER"""
    out = []

    def site(alias, **kw):
        d = {'kind': 'in', 'alias': alias, 'flavor': 'instance', 'capture': 'all', 'resolver': None, 'nargs': 1, 'kwnames': [],
             'handler': '', 'runOriginal': False, 'substitute': None, 'fallbacks': None,
             'body': [{'op': 'ret', 'e': {'t': [{'c': {'s': 'rec-' + alias}}, {'v': 'a0'}]}}]}
        d.update(kw)
        return d
    for alias, fb, fbfn, want in [('Q', ['B', 'A'], False, 'B'), ('Q', ['A', 'B'], False, 'A'), ('Q', ['A', 'B'], True, 'A'),
                                  ('Q', ['B', 'A'], True, 'B'), ('B', ['A'], False, 'B'), ('A', ['B'], False, 'A'),
                                  ('B', ['A'], True, 'B'), ('Q', ['Z', 'B', 'A'], False, 'B'), ('C', ['B', 'A'], False, 'C'),
                                  ('A', ['C', 'B'], True, 'A')]:
        sites = {'rA': site('A'), 'rB': site('B'), 'rC': site('C'),
                 'q': site(alias, fallbacks=fb, fallbacksAsFunction=fbfn, body=[{'op': 'ret', 'e': {'c': {'s': 'live'}}}])}
        rec_script = [{'op': 'call', 's': s_, 'x': 'x' + s_, 'args': [{'c': {'i': '1'}}]} for s_ in ('rC', 'rA', 'rB')] + \
                     [{'op': 'ret', 'e': {'c': None}}]
        play_script = [{'op': 'call', 's': 'q', 'x': 'y0', 'args': [{'c': {'i': '1'}}]}, {'op': 'ret', 'e': {'v': 'y0'}}]
        for cassette in ('memory', 'file', 's3'):
            out.append({'cassette': cassette, 'classes': {'OpA': {'params': None, 'classLevel': False, 'hasExtractor': False}},
                        'sites': sites,
                        'runs': [{'run': 'op', 'cls': 'OpA', 'enabled': True, 'script': rec_script, 'draws': [], 'clock': [1, 2]},
                                 {'run': 'play', 'cls': 'OpA', 'rec': 0, 'enabled': False, 'script': play_script,
                                  'clock': [5, 6, 7]}],
                        'expect': {'1': [['ret', '("rec-%s",1)' % want]]}, 'journal_expect': []})
    # argument texts that contain alias texts: a key is "input: <alias> args=<encoded arguments>", the alias and the arguments
    # are separate parts of it - a fallback key differs from the main key in the alias part ONLY
    for q_alias, fb_alias, arg in [('config', 'settings', 'config'), ('config', 'settings', 'settings'), ('A', 'B', 'A'),
                                   ('A', 'B', 'xAx'), ('load', 'fetch', 'input: load args='), ('a', 'b', 'args')]:
        sites = {'rF': site(fb_alias), 'q': site(q_alias, fallbacks=[fb_alias], fallbacksAsFunction=(arg == 'A'),
                                                 body=[{'op': 'ret', 'e': {'c': {'s': 'live'}}}])}
        other = 'other-' + arg.replace(q_alias, fb_alias)
        rec_script = [{'op': 'call', 's': 'rF', 'x': 'x0', 'args': [{'c': {'s': arg}}]},
                      {'op': 'call', 's': 'rF', 'x': 'x1', 'args': [{'c': {'s': arg.replace(q_alias, fb_alias)}}]},
                      {'op': 'call', 's': 'rF', 'x': 'x2', 'args': [{'c': {'s': other}}]}, {'op': 'ret', 'e': {'c': None}}]
        play_script = [{'op': 'call', 's': 'q', 'x': 'y0', 'args': [{'c': {'s': arg}}]}, {'op': 'ret', 'e': {'v': 'y0'}}]
        import json as _json
        for cassette in ('memory', 'file'):
            out.append({'cassette': cassette, 'classes': {'OpA': {'params': None, 'classLevel': False, 'hasExtractor': False}},
                        'sites': sites,
                        'runs': [{'run': 'op', 'cls': 'OpA', 'enabled': True, 'script': rec_script, 'draws': [], 'clock': [1, 2]},
                                 {'run': 'play', 'cls': 'OpA', 'rec': 0, 'enabled': False, 'script': play_script,
                                  'clock': [5, 6, 7]}],
                        'expect': {'1': [['ret', '("rec-%s",%s)' % (fb_alias, _json.dumps(arg))]]}, 'journal_expect': []})
    # a resolved alias (one key space per value of the resolving argument) with fallback aliases: a call whose own key and
    # fallbacks are absent is a missing key, whatever other resolved aliases were looked up before it
    for fb, fbfn, cap in itertools.product([['Z'], ['Z', 'Y']], [False, True], ['none', [[1, 'p1']]]):
        q = site('Q', resolver={'arg': 0}, nargs=2, capture=cap, fallbacks=fb, fallbacksAsFunction=fbfn,
                 body=[{'op': 'ret', 'e': {'t': [{'c': {'s': 'rec'}}, {'v': 'a0'}, {'v': 'a1'}]}}])

        def call(x, a):
            return {'op': 'call', 's': 'q', 'x': x, 'args': [{'c': {'i': str(a)}}, {'c': {'i': '5'}}]}
        rec_script = [call('x0', 1), {'op': 'ret', 'e': {'c': None}}]
        play_script = [call('y0', 1), call('y1', 2), call('y2', 1), {'op': 'ret', 'e': {'c': None}}]
        for cassette in ('memory', 'file'):
            out.append({'cassette': cassette, 'classes': {'OpA': {'params': None, 'classLevel': False, 'hasExtractor': False}},
                        'sites': {'q': q},
                        'runs': [{'run': 'op', 'cls': 'OpA', 'enabled': True, 'script': rec_script, 'draws': [], 'clock': [1, 2]},
                                 {'run': 'play', 'cls': 'OpA', 'rec': 0, 'enabled': False, 'script': play_script,
                                  'clock': [5, 6, 7]},
                                 {'run': 'play', 'cls': 'OpA', 'rec': 0, 'enabled': True, 'script': play_script[1:],
                                  'clock': [8, 9, 10]}],
                        'expect': {'1': [['ret', '("rec",1,5)'], ['exc', 'RecordingKeyError'], ['ret', '("rec",1,5)']],
                                   '2': [['exc', 'RecordingKeyError'], ['ret', '("rec",1,5)']]}, 'journal_expect': []})
    return out


class C02(RecorderProp):
    ID = 'C02'
    RULE = ('the documented missing-key policy table enumerated exhaustively (key present/absent x fallback aliases as list, function, tuple, keys of a map or '
            'frozenset x run-original x substitute incl. falsy values and callables x output default / fail flag, recording '
            'enabled and disabled during play, two replays) with answers expected from the documentation; then random pairs '
            '(recorded program, different replayed program) with random policies, 1-3 replays per recording, on memory / file / '
            'S3 cassettes; + (not modelled) inputs whose data handler itself asks an intercepted input while recording and restoring: no body runs in the replay; spy cassette log and serialized store compared before/after every play; non-trivial = a replay that '
            'answered at least one interception; distinct = distinct canonical case')
    OPTS = dict(ALL_OPTS, policies=True, same_script=0.25, play_ratio=0.65, runs=(2, 6), interrupts=True,
                cassettes=['memory', 'memory', 'file', 's3'], foreign=True)
    N = {'quick': 2500, 'thorough': 30000}

    EFFECTS = {'quick': 60, 'thorough': 600}

    def generate(self, rng, tier):
        from harness import effects_cases as E
        # + (not modelled) inputs whose data handler itself asks an intercepted input, while recording and while restoring
        return table_cases() + [self.gen_one(rng, tier) for _ in range(self.N[tier])] + \
            [E.gen_effects_case(rng) for _ in range(self.EFFECTS[tier])]

    def run_impl(self, case):
        if case.get('kind') == 'effects':
            from harness import effects_cases as E
            return E.run_effects_case(case)
        return super(C02, self).run_impl(case)

    def sample_repr(self, case):
        return case if case.get('kind') == 'effects' else super(C02, self).sample_repr(case)

    def features(self, case, impl):
        if case.get('kind') == 'effects':
            return ['data-handler-asks-an-intercepted-input' if case['handler_calls_input'] else 'data-handler-plain']
        return super(C02, self).features(case, impl)

    def shrink(self, case):
        return [] if case.get('kind') == 'effects' else super(C02, self).shrink(case)

    def oracle(self, case, impl):
        if case.get('kind') == 'effects':
            if not impl.get('saved'):
                return ['an operation whose input goes through a data handler was not saved (%r)' % (impl['rec_end'],)]
            fails = []
            if impl['bodies_run_in_replay']:
                fails.append('replay of an operation whose data handler asks an intercepted input: the bodies %r ran during the replay '
                             '(every interception is answered from the recording)' % (impl['bodies_run_in_replay'],))
            if impl['replay'][0] != 'played':
                fails.append('replay of an operation whose data handler asks an intercepted input ended %r' % (impl['replay'],))
            return fails
        fails = []
        for i, (run, r) in enumerate(zip(case['runs'], impl)):
            if run['run'] != 'play':
                continue
            want_log = [['get', run['rec'] if run['rec'] >= 0 else 9999]]
            if r['log'] != want_log:
                fails.append('run %d: play() reached the cassette with %r (expected one get)' % (i, r['log']))
            if not r['_store_unchanged']:
                fails.append('run %d: the serialized cassette content changed during play()' % i)
            for name, args, kw in r['journal']:
                if not case['sites'][name].get('runOriginal'):
                    fails.append('run %d: body of %s executed during replay without run-original' % (i, name))
            if r['idle'] != IDLE:
                fails.append('run %d: recorder not idle after play: %r' % (i, r['idle']))
            exp = case.get('expect', {}).get(str(i))
            if exp is not None and r['_outcomes'] != exp:
                fails.append('run %d: interceptions answered %r, the documented policy gives %r' % (i, r['_outcomes'], exp))
            if 'journal_expect' in case and r['journal'] != case['journal_expect']:
                fails.append('run %d: bodies executed during replay %r, expected %r' % (i, r['journal'], case['journal_expect']))
        # any number of replays of one recording with one program give one answer
        seen = {}
        for i, (run, r) in enumerate(zip(case['runs'], impl)):
            if run['run'] == 'play':
                key = (run['rec'], run['cls'], repr(run['script']))
                if key in seen and seen[key][1] != (r['result'], r['_outcomes']):
                    fails.append('run %d: replay differs from the earlier replay %d of the same recording' % (i, seen[key][0]))
                seen.setdefault(key, (i, (r['result'], r['_outcomes'])))
        return fails

    def gen_one(self, rng, tier):
        case = rg.gen_history(rng, self.OPTS)
        # replay some recordings again with the same program (idempotence)
        extra = []
        plays = [run for run in case['runs'] if run['run'] == 'play' and run['rec'] >= 0]
        for run in plays:
            if rng.random() < 0.4:
                extra.append(dict(run, enabled=not run['enabled'], clock=[200, 201, 202]))
        if len({run['rec'] for run in plays}) >= 1 and case['sites'] and rng.random() < 0.5:
            # a replay that FAILS (the program re-raises the framework's missing-key error) followed by replays of other recordings
            sname = sorted(case['sites'])[0]
            sp = case['sites'][sname]
            if sp['kind'] == 'in' and sp.get('flavor') != 'property':
                failing = [{'op': 'call', 's': sname, 'x': 'z', 'args': [{'c': {'s': 'never-recorded-%d' % i}} for i in range(sp['nargs'])]},
                           {'op': 'reraise', 'x': 'z'}, {'op': 'ret', 'e': {'c': None}}]
                first = plays[0]
                extra.append({'run': 'play', 'cls': first['cls'], 'rec': first['rec'], 'enabled': False, 'script': failing,
                              'clock': [300, 301, 302]})
                for run in plays[-2:]:
                    extra.append(dict(run, clock=[310, 311, 312]))
        case['runs'] += extra
        return case

    def nontrivial(self, case, impl):
        if case.get('kind') == 'effects':
            return True
        return any(run['run'] == 'play' and r['_outcomes'] for run, r in zip(case['runs'], impl))


PROP = C02
