"""C17 - The sampling policy alone decides which recordings are kept (DESIGN.md section 6, C17)."""
import itertools
import os
import random
from fractions import Fraction

from harness.props.recorder_common import RecorderProp
from harness import engine

RATES = [[0, 1], [1, 4], [1, 8], [1, 1], [3, 2]]


def op_case(skipped, rate, forced, ignore, discard, outcome, draw, order, thread=False):
    script = []
    steps = (['force'] if forced else []) + (['discard'] if discard else [])
    if order:
        steps = steps[::-1]
    # `thread`: the operation asks from a helper thread it starts and joins (the decision is the recorder's, not the thread's)
    script += [dict({'op': st}, thread=True) if thread else {'op': st} for st in steps]
    script.append({'ret': {'op': 'ret', 'e': {'c': {'s': 'done'}}}, 'raise': {'op': 'raise', 't': 'ValueError'},
                   'interrupt': {'op': 'interrupt', 't': 'KeyboardInterrupt'}}[outcome])
    return {'cassette': 'memory',
            'classes': {'OpA': {'params': {'rate': rate, 'ignore': ignore, 'skipped': skipped, 'copy': False},
                                'classLevel': False, 'hasExtractor': False}},
            'sites': {},
            'runs': [{'run': 'op', 'cls': 'OpA', 'enabled': True, 'script': script, 'draws': [draw, [7, 8]], 'clock': [1, 2]}],
            'row': {'skipped': skipped, 'rate': rate, 'forced': forced, 'ignore': ignore, 'discard': discard,
                    'forceAfterDiscard': bool(order and forced and discard), 'draw': draw}}


def verdict(row):
    """the documented policy: (cassette calls, draws consumed)"""
    if row['skipped']:
        return 'none', 0
    if row['discard']:
        return 'abort', 0
    if row['forced'] and not row['ignore']:
        return 'save', 0
    if Fraction(*row['rate']) >= 1:
        return 'save', 0
    return ('save' if Fraction(*row['draw']) <= Fraction(*row['rate']) else 'abort'), 1


class C17(RecorderProp):
    ID = 'C17'
    RULE = ('the full decision table skipped x rate {0, 1/4, 1/8, 1, 3/2} x forced x ignore-forcing x discard (before / after the force '
            'request) x outcome {return, raise, interrupt} x draw {0, rate - 0.004, EQUAL to the rate, rate + 0.0004, 15/16} exhaustively with a scripted '
            'draw source; seeded histories with the recorder\'s OWN Random(seed): the same seed twice, pairs differing only in '
            'operation content and outcome, mixed classes (one an unconfigured subclass of a configured class) with forcing in one run; '
            'storage-level sampling of the S3 cassette with a size-based calculator, ordered / random-order lookups through the same '
            'cassette between the saves (they consume nothing of the sampling stream), the size handed to the calculator against the stored size, '
            'the cassette\'s own seeded generator in two interpreters, the second of which may also save through another sampled S3 cassette; operations at rate 1 that replay a recording while they are recorded (not modelled: kept); non-trivial = a recording scope was opened; distinct = distinct canonical case')
    N = {'quick': 3, 'thorough': 40}
    HIST = {'quick': 300, 'thorough': 2000}
    TIME_BUDGET = {'quick': 240, 'thorough': 3000}

    def generate(self, rng, tier):
        cases = []
        for skipped, rate, forced, ignore, discard, outcome, order in itertools.product(
                [False, True], RATES, [False, True], [False, True], [False, True], ['ret', 'raise', 'interrupt'], [False, True]):
            if order and not (forced and discard):
                continue
            r = Fraction(*rate)
            draws = [[0, 1], [r.numerator, r.denominator] if r <= 1 else [1, 1], [15, 16]]
            if 0 <= r < 1:
                # draws a hair above / below the rate: the comparison is on the numbers themselves, not on roundings of them
                above, below = r + Fraction(4, 10000), r - Fraction(4, 1000)
                draws.append([above.numerator, above.denominator])
                if below > 0:
                    draws.append([below.numerator, below.denominator])
            for d in draws:
                cases.append(op_case(skipped, rate, forced, ignore, discard, outcome, d, order))
                if (forced or discard) and outcome == 'ret':
                    cases.append(op_case(skipped, rate, forced, ignore, discard, outcome, d, order, thread=True))
        # forcing must not leak: run 1 forces and is discarded (or just forces), run 2 is of a class that would be dropped
        for first in (['force', 'discard'], ['discard', 'force'], ['force']):
            for rate2, ignore2 in (([0, 1], False), ([1, 4], True), ([0, 1], True)):
                c = op_case(False, [1, 1], 'force' in first, False, 'discard' in first, 'ret', [15, 16], first[0] == 'discard')
                c['classes']['OpB'] = {'params': {'rate': rate2, 'ignore': ignore2, 'skipped': False, 'copy': False},
                                       'classLevel': False, 'hasExtractor': False}
                c['runs'].append({'run': 'op', 'cls': 'OpB', 'enabled': True, 'script': [{'op': 'ret', 'e': {'c': None}}],
                                  'draws': [[15, 16]], 'clock': [5, 6]})
                c['row2'] = {'skipped': False, 'rate': rate2, 'forced': False, 'ignore': ignore2, 'discard': False,
                             'draw': [15, 16]}
                cases.append(c)
        for _ in range(self.N[tier]):
            cases += self.history_group(rng, self.HIST[tier])
        for _ in range(4 if tier == 'quick' else 60):
            cases.append(self.s3_case(rng))
        for i in range(2 if tier == 'quick' else 8):
            cases.append(dict(self.s3_process_case(rng), neighbour=(3, 0, 1, 2)[i % 4]))
        for i in range(12 if tier == 'quick' else 120):
            # an operation that replays a reference recording while it is recorded: at rate 1 it is kept like any other
            steps = [[rng.choice(['in', 'in', 'out']), rng.randint(0, 3)] for _ in range(rng.randint(0, 4))]
            steps.insert(rng.randint(0, len(steps)), ['play', rng.choice(['known', 'known', 'unknown'])])
            cases.append({'kind': 'playinside', 'model': False, 'steps': steps, 'end': rng.choice(['ret', 'ret', 'raise'])})
        return cases

    def history_group(self, rng, n):
        """one seeded history, the same again, and a twin that differs only in content and outcome"""
        seed = rng.randrange(10 ** 6)
        classes = {'OpA': {'params': {'rate': rng.choice([[1, 4], [1, 2], [3, 4]]), 'ignore': False, 'skipped': False,
                                      'copy': False}, 'classLevel': False, 'hasExtractor': False},
                   'OpB': {'params': {'rate': rng.choice([[1, 8], [1, 2]]), 'ignore': True, 'skipped': False, 'copy': False},
                           'classLevel': False, 'hasExtractor': False},
                   'OpC': {'params': {'rate': [3, 2], 'ignore': False, 'skipped': rng.random() < 0.5, 'copy': False},
                           'classLevel': False, 'hasExtractor': False},
                   # a subclass of a configured class with NO parameters of its own: the documented defaults apply to it
                   'OpD': {'params': None, 'classLevel': False, 'hasExtractor': False, 'base': rng.choice(['OpA', 'OpB', 'OpC'])}}
        site = {'kind': 'in', 'alias': 'in0', 'flavor': 'instance', 'capture': 'all', 'resolver': None, 'nargs': 1,
                'kwnames': [], 'handler': '', 'runOriginal': False, 'substitute': None, 'fallbacks': None,
                'body': [{'op': 'ret', 'e': {'v': 'a0'}}]}
        plan = [(rng.choice(['OpA', 'OpA', 'OpB', 'OpC', 'OpD']), rng.random() < 0.08, rng.random() < 0.05) for _ in range(n)]

        def build(variant):
            r2 = random.Random(variant)
            runs = []
            for cls, force, discard in plan:
                script = []
                if variant:
                    script += [{'op': 'call', 's': 'i0', 'x': 'x', 'args': [{'c': {'i': str(r2.randint(0, 9))}}]}]
                if force:
                    script.append({'op': 'force', 'thread': True} if r2.random() < 0.4 or (not variant and cls == 'OpB') else {'op': 'force'})
                if discard:
                    script.append({'op': 'discard', 'thread': True} if r2.random() < 0.4 else {'op': 'discard'})
                final = {'op': 'ret', 'e': {'c': None}}
                if variant:
                    final = r2.choice([final, {'op': 'raise', 't': 'KeyError'}, {'op': 'interrupt', 't': 'SystemExit'}])
                script.append(final)
                runs.append({'run': 'op', 'cls': cls, 'enabled': True, 'script': script, 'clock': []})
            return {'cassette': 'memory', 'classes': classes, 'sites': {'i0': site}, 'runs': runs, 'seed': seed,
                    'plan': [[c, f, d] for c, f, d in plan], 'variant': variant}
        return [build(0), build(0), build(1)]

    def s3_process_case(self, rng):
        """the S3 cassette's own seeded generator, untouched: the same saves in two interpreters (different string-hash salts)"""
        return {'kind': 's3process', 'model': False, 'prefix': rng.choice(['', 'pre', 'proj/a', 'x']),
                'ratio': rng.choice([[1, 2], [1, 4], [3, 4]]), 'n': 40,
                # the second interpreter also runs another sampled S3 cassette: k saves before, some between the saves
                'neighbour': rng.choice([0, 1, 3])}

    @staticmethod
    def run_s3_process(case):
        import json
        import subprocess
        import sys
        code = (
            "import sys, json\n"
            "sys.path.insert(0, %r); sys.path.insert(0, %r)\n"
            "from harness import fake_s3\n"
            "fake_s3.reset(); fake_s3.install()\n"
            "from playback.tape_cassettes.s3.s3_tape_cassette import S3TapeCassette\n"
            "neighbour = int(sys.argv[1])\n"
            "other = S3TapeCassette('b17q', key_prefix='other', read_only=False, sampling_calculator=lambda cat, size, rec: 0.5) if neighbour else None\n"
            "def other_saves(k):\n"
            "    for j in range(k if other else 0):\n"
            "        r = other.create_new_recording('Else'); r.set_data('k', j); other.save_recording(r)\n"
            "other_saves(neighbour)\n"
            "c = S3TapeCassette('b17p', key_prefix=%r, read_only=False, sampling_calculator=lambda cat, size, rec: %r)\n"
            "out = []\n"
            "for i in range(%d):\n"
            "    r = c.create_new_recording('Op'); r.set_data('k', i)\n"
            "    before = len(fake_s3.store('b17p').log); c.save_recording(r)\n"
            "    out.append(len(fake_s3.store('b17p').log) > before)\n"
            "    other_saves(i %% 3)\n"
            "print(json.dumps(out))\n"
        ) % (engine.REPO, engine.VERIF, case['prefix'], float(case['ratio'][0]) / case['ratio'][1], case['n'])
        runs = []
        for salt, neighbour in (('1', 0), ('2', case.get('neighbour', 0))):
            p = subprocess.run([sys.executable, '-c', code, str(neighbour)], capture_output=True, text=True, timeout=120,
                               env=dict(os.environ, PYTHONHASHSEED=salt))
            if p.returncode != 0:
                return {'error': p.stderr[-800:]}
            runs.append(json.loads(p.stdout.strip().splitlines()[-1]))
        return {'runs': runs}

    def s3_case(self, rng):
        return {'kind': 's3sample', 'ratios': [rng.choice([[0, 1], [1, 4], [1, 2], [1, 1], [3, 2], None]) for _ in range(8)],
                'draws': [rng.choice([[0, 1], [1, 4], [1, 2], [3, 4], [15, 16]]) for _ in range(8)],
                # lookups (ordered / random order) through the same cassette object between the saves
                'lookups': [rng.choice([None, None, 'ordered', 'random', 'random']) for _ in range(8)]}

    # -- S3 storage-level sampling ------------------------------------------------------------------------------
    def run_impl(self, case):
        if case.get('kind') == 'playinside':
            from harness.props.c05 import C05
            return C05.run_playinside_case(self, case)
        if case.get('kind') == 's3process':
            return self.run_s3_process(case)
        if case.get('kind') != 's3sample':
            return super(C17, self).run_impl(case)
        from harness import fake_s3
        fake_s3.reset()
        fake_s3.install()
        from playback.tape_cassettes.s3.s3_tape_cassette import S3TapeCassette
        out = []
        current = {}

        sizes = []

        def calc(category, size, recording):
            # the ratio is a function of THIS recording (its category, size and content)
            sizes.append(size)
            r = recording.get_data('ratio')
            return float(r[0]) / float(r[1])
        shared = S3TapeCassette('b17', key_prefix='s', read_only=False, sampling_calculator=calc)
        plain = S3TapeCassette('b17', key_prefix='t', read_only=False, sampling_calculator=None)
        used = []

        class Scripted(object):
            def random(self_inner):
                used.append(1)
                return float(current['d'][0]) / float(current['d'][1])

            def choice(self_inner, seq):          # (any other use of the sampling generator consumes its stream as well)
                used.append(1)
                return seq[0]

            def shuffle(self_inner, seq):
                used.append(1)
        shared._random = Scripted()
        plain._random = Scripted()
        for i, (ratio, d) in enumerate(zip(case['ratios'], case['draws'])):
            current['d'] = d
            c = plain if ratio is None else shared
            rec = c.create_new_recording('Op')
            rec.set_data('ratio', ratio)
            rec.set_data('pad', 'a' * 1500)       # (compresses well: the stored size is far from the encoded size)
            del used[:]
            del sizes[:]
            before = len(fake_s3.store('b17').log)
            c.save_recording(rec)
            row = {'stored': len(fake_s3.store('b17').log) > before, 'draws': len(used)}
            full = [v[0] for k, v in fake_s3.store('b17').objects.items() if '/full/' in k and k.endswith(rec.id)]
            if full and sizes:
                # the size the calculator was handed against the size of the object that was stored
                row['sizeSeen'], row['sizeStored'] = sizes[-1], len(full[0])
            how = (case.get('lookups') or [None] * 8)[i]
            if how:
                del used[:]
                try:
                    list(c.iter_recording_ids('Op', random_results=(how == 'random')))
                    row['lookupDraws'] = len(used)
                except Exception as ex:
                    row['lookupDraws'] = type(ex).__name__
            out.append(row)
        return out

    def model_requests(self, case):
        if case.get('kind') in ('s3process', 'playinside'):
            return []
        if case.get('kind') != 's3sample':
            return super(C17, self).model_requests(case)
        return [{'m': 'c17.s3', 'ratio': r, 'draw': d} for r, d in zip(case['ratios'], case['draws'])]

    def model_transcript(self, case, answers):
        if case.get('kind') in ('s3process', 'playinside'):
            return None
        if case.get('kind') != 's3sample':
            return super(C17, self).model_transcript(case, answers)
        return [{'stored': a} for a in answers]

    def impl_view(self, case, impl):
        if case.get('kind') in ('s3process', 'playinside'):
            return None
        if case.get('kind') != 's3sample':
            return super(C17, self).impl_view(case, impl)
        return [{'stored': r['stored']} for r in impl]

    def model_requests_seeded(self, case):
        return None

    def run_all_model(self, cases):
        # seeded histories: the model needs the generator's draws as exact rationals
        prepared = []
        for c in cases:
            if c.get('seed') is not None:
                r = random.Random(c['seed'])
                c = dict(c)
                draws = []
                runs = []
                for run in c['runs']:
                    runs.append(dict(run))
                c['runs'] = runs
                # one potential draw per run: the model consumes from the head of a per-run list, so hand each run the
                # next unconsumed value; consumption is replayed with the documented rule on the model side
                stream = [Fraction(*r.random().as_integer_ratio()) for _ in range(len(runs))]
                c['_stream'] = [[f.numerator, f.denominator] for f in stream]
            prepared.append(c)
        reqs, spans = [], []
        for c in prepared:
            if c.get('seed') is not None:
                rq = self.seeded_request(c)
            else:
                rq = self.model_requests(c)
            spans.append((len(reqs), len(reqs) + len(rq)))
            reqs.extend(rq)
        answers = engine.run_driver(reqs, self.DRIVER_CHUNKS)
        return [self.model_transcript(c, answers[a:b]) for c, (a, b) in zip(cases, spans)]

    def seeded_request(self, case):
        from harness import recorder_sim as rs
        rq = rs.model_request(case)
        rq['stream'] = case['_stream']
        return [rq]

    # -- oracle ----------------------------------------------------------------------------------------------------
    def oracle(self, case, impl):
        fails = []
        if case.get('kind') == 'playinside':
            if impl['log'] != ['create', 'save']:
                return ['an operation of a class with the default parameters (sampling rate 1, nothing discarded) that replays a '
                        'recording while it is recorded (steps %r) was not kept: the cassette saw %r' % (case['steps'], impl['log'])]
            return []
        if case.get('kind') == 's3process':
            if 'error' in impl:
                return ['S3 cassette in a fresh interpreter: ' + impl['error']]
            a, b = impl['runs']
            if a != b:
                diff = [i for i, (x, y) in enumerate(zip(a, b)) if x != y]
                return ['the same %d saves (ratio %r, key prefix %r) through the S3 cassette\'s own seeded generator in two interpreters '
                        '(PYTHONHASHSEED 1 / 2%s): %d keep / drop decisions differ, first at save %d'
                        % (case['n'], case['ratio'], case['prefix'],
                           '; the second one also saves through another sampled S3 cassette' if case.get('neighbour') else '',
                           len(diff), diff[0])]
            return []
        if case.get('kind') == 's3sample':
            for i, (ratio, d, r) in enumerate(zip(case['ratios'], case['draws'], impl)):
                want = ratio is None or Fraction(*ratio) >= 1 or Fraction(*d) <= Fraction(*ratio)
                want_draws = 0 if (ratio is None or Fraction(*ratio) >= 1) else 1
                if r.get('sizeSeen') is not None and r['sizeSeen'] != r['sizeStored']:
                    fails.append('S3 save %d: the sampling calculator was handed size %d, the stored (compressed) recording has %d bytes'
                                 % (i, r['sizeSeen'], r['sizeStored']))
                if r.get('lookupDraws', 0) != 0:
                    fails.append('S3 save %d: the %s lookup that followed it consumed %r values of the sampling generator - later '
                                 'keep / drop decisions would depend on the lookups made' % (i, case['lookups'][i], r['lookupDraws']))
                if r['stored'] != want or r['draws'] != want_draws:
                    fails.append('S3 save %d: ratio %r draw %r stored=%r draws=%r, the rule gives stored=%r draws=%r'
                                 % (i, ratio, d, r['stored'], r['draws'], want, want_draws))
            return fails
        if 'row' in case:
            want, want_draws = verdict(case['row'])
            r = impl[0]
            kinds = [k for k, _ in r['log']]
            got = 'none' if not kinds else kinds[-1]
            if (want == 'none' and kinds) or (want != 'none' and kinds != ['create', want]):
                fails.append('row %r: cassette saw %r, the policy says %s' % (case['row'], kinds, want))
            if r['drawn'] != want_draws:
                fails.append('row %r: %d draws consumed, the policy consumes %d' % (case['row'], r['drawn'], want_draws))
            if 'row2' in case:
                want2, draws2 = verdict(case['row2'])
                kinds2 = [k for k, _ in impl[1]['log']]
                if kinds2 != ['create', want2] or impl[1]['drawn'] != draws2:
                    fails.append('second run %r after a forced first run: cassette saw %r with %d draws, the policy says %s '
                                 'with %d (forcing leaked?)' % (case['row2'], kinds2, impl[1]['drawn'], want2, draws2))
            return fails
        # seeded history: replay the documented rule on the generator's own stream
        gen = random.Random(case['seed'])
        for i, ((cls, force, discard), r) in enumerate(zip(case['plan'], impl)):
            p = case['classes'][cls]['params'] or {'rate': [1, 1], 'ignore': False, 'skipped': False}
            kinds = [k for k, _ in r['log']]
            if p['skipped']:
                want, nd = 'none', 0
            elif discard:
                want, nd = 'abort', 0
            elif force and not p['ignore']:
                want, nd = 'save', 0
            elif Fraction(*p['rate']) >= 1:
                want, nd = 'save', 0
            else:
                want, nd = ('save' if gen.random() <= float(p['rate'][0]) / float(p['rate'][1]) else 'abort'), 1
            if (want == 'none' and kinds) or (want != 'none' and kinds != ['create', want]) or r['drawn'] != nd:
                fails.append('operation %d (%s, force=%s, discard=%s): cassette saw %r with %d draws; policy on the seeded '
                             'stream: %s with %d' % (i, cls, force, discard, kinds, r['drawn'], want, nd))
                break
        return fails

    def nontrivial(self, case, impl):
        if case.get('kind') in ('s3sample', 's3process', 'playinside'):
            return True
        return any(r.get('log') for r in impl)

    def features(self, case, impl):
        if case.get('kind') == 'playinside':
            return ['replay-inside-a-recorded-operation']
        if case.get('kind') == 's3process':
            return ['s3-own-generator-two-interpreters' + ('+neighbour-cassette' if case.get('neighbour') else '')]
        if case.get('kind') == 's3sample':
            return ['s3sample']
        if 'row' in case:
            return ['table', 'verdict:' + verdict(case['row'])[0]]
        kept = sum(1 for r in impl if [k for k, _ in r['log']][-1:] == ['save'])
        return ['seeded-history', 'history-kept-%d-of-%d' % (kept, len(impl))]

    def sample_repr(self, case):
        if 'plan' in case:
            return {'seed': case['seed'], 'classes': case['classes'], 'plan_head': case['plan'][:10], 'operations': len(case['plan'])}
        return case

    def shrink(self, case):
        if case.get('kind') in ('s3sample', 's3process', 'playinside') or 'row' in case:
            return []
        out = []
        n = len(case['runs'])
        for k in (n // 2, n - 1):
            if 0 < k < n:
                out.append(dict(case, runs=case['runs'][:k], plan=case['plan'][:k]))
        return out

    def targeted(self, case, rng):
        return []


PROP = C17
