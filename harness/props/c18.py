"""C18 - Recording metadata tells the truth about the run (DESIGN.md section 6, C18)."""
from harness.props.recorder_common import RecorderProp, ALL_OPTS, records
from harness.rvals import canon_wire


class C18(RecorderProp):
    ID = 'C18'
    RULE = ('random operations terminating by return (8 % of them returning a value that looks like the recorder\'s rendering of a failure: `{error_type, error_repr}`) / ordinary exception / interrupt (KeyboardInterrupt, SystemExit, '
            'GeneratorExit) at every step incl. inside input and output bodies, after 0-3 captured outputs, on instance and '
            'class-level operations, with extractors that succeed, raise, return None, an int or a half-valid iterable, scripted '
            'clock, in local time zones UTC / JST-9 / EST5EDT / IST-5:30; saved metadata (class, exception flag, duration, incomplete flag, user keys, '
            'timestamp = UTC wall time) compared with the run; default '
            'lookup (skip incomplete) compared with the saved complete recordings; non-trivial = a recording was saved; '
            'distinct = distinct canonical case')
    OPTS = dict(ALL_OPTS, extractors=True, interrupts=True, sampling=False, faults=False, control=False, play_ratio=0.0,
                missing_play=False, runs=(1, 4), cassettes=['memory', 'memory', 'file', 's3', 'async'])
    N = {'quick': 3000, 'thorough': 30000}

    def gen_one(self, rng, tier):
        from harness import recorder_gen as rg
        case = rg.gen_history(rng, self.OPTS)
        for cspec in case['classes'].values():
            cspec['hasExtractor'] = rng.random() < 0.7
        for cspec in case['classes'].values():
            if cspec.get('base') is not None:       # the decorated operation (and its extractor) is the base class' one
                cspec['hasExtractor'] = case['classes'][cspec['base']]['hasExtractor']
        for run in case['runs']:
            if case['classes'][run['cls']]['hasExtractor'] and 'extractor' not in run:
                run['extractor'] = rng.choice([{'ok': [['user', {'s': 'u'}], ['n', {'i': '3'}]]}, {'ok': []}, 'raise', 'junk5',
                                               'junkpairs', 'junknone'])
        for run in case['runs']:
            if run['run'] == 'op' and run['script'] and run['script'][-1].get('op') == 'ret' and rng.random() < 0.08:
                # a RETURNED value that looks like the recorder's own rendering of a failure (result-or-error style): it is a result
                run['script'][-1] = {'op': 'ret', 'e': {'c': {'d': [['error_type', {'s': 'ValueError'}],
                                                                      ['error_repr', {'s': "ValueError('boom')"}]]}}}
        if case.get('cassette') == 'memory':
            case['default_lookup'] = True
        # the service's local time zone: the recording timestamp is UTC wherever it runs
        case['tz'] = rng.choice(['JST-9', 'UTC', 'EST5EDT', 'IST-5:30', 'JST-9'])
        return case

    NESTED = {'quick': 150, 'thorough': 1500}

    def generate(self, rng, tier):
        """+ histories in which an operation calls another decorated operation of the same recorder and carries on whatever
        that call does (known finding K6: it raises the documented AssertionError; not modelled) - the metadata of the
        enclosing operation's recording must tell the truth about the ENCLOSING run all the same"""
        cases = super(C18, self).generate(rng, tier)
        tries = 0
        made = 0
        while made < self.NESTED[tier] and tries < 20 * self.NESTED[tier]:
            tries += 1
            case = self.gen_one(rng, tier)
            ops = [r for r in case['runs'] if r['run'] == 'op' and r.get('enabled')]
            if not ops:
                continue
            run = rng.choice(ops)
            inner_cls = rng.choice(sorted(case['classes']))
            inner = [{'op': 'ret', 'e': {'c': {'i': '1'}}}] if rng.random() < 0.5 else [{'op': 'raise', 't': 'ValueError'}]
            pos = rng.randint(0, max(0, len(run['script']) - 1))
            run['script'] = run['script'][:pos] + [{'op': 'nestedop', 'cls': inner_cls, 'x': 'inner', 'script': inner}] + run['script'][pos:]
            case['model'] = False
            case['nested_operation'] = True
            case.pop('default_lookup', None)
            cases.append(case)
            made += 1
        return cases

    def oracle(self, case, impl):
        fails = []
        complete = {}
        created = 0
        for i, (run, r) in enumerate(zip(case['runs'], impl)):
            if run['run'] != 'op':
                continue
            if records(case, run):
                rid = created
                created += 1
            saved = r.get('saved')
            if not saved or 'meta' not in saved:
                continue
            md = saved['meta']
            cspec = case['classes'][run['cls']]
            interrupted = r['end'][0] == 'interrupt'
            if md['cls'] != run['cls']:
                fails.append('run %d: metadata names class %r, the operation is of class %r' % (i, md['cls'], run['cls']))
            want_duration = run['clock'][1] - run['clock'][0]
            if md['duration'] != want_duration or want_duration < 0:
                fails.append('run %d: duration %r, the clock measured %r' % (i, md['duration'], want_duration))
            at = r.get('_recorded_at')
            if at is not None and (at[1] is None or abs(at[1]) > 600):
                fails.append('run %d (local time zone %s): the recording timestamp %s is %s the UTC time of the run'
                             % (i, case.get('tz'), at[0], 'not a timestamp, let alone' if at[1] is None else '%+.0f s off' % at[1]))
            if md['incomplete'] != interrupted:
                fails.append('run %d: incomplete=%r but the run ended %r' % (i, md['incomplete'], r['end']))
            want_flag = None if interrupted else (r['end'][0] == 'exc')
            if md['excFlag'] != want_flag:
                fails.append('run %d: exception flag %r but the run ended %r' % (i, md['excFlag'], r['end']))
            ext = run.get('extractor') if cspec.get('hasExtractor') else None
            want_user = sorted([k, canon_wire(v)] for k, v in ext['ok']) if isinstance(ext, dict) else []
            if md['user'] != want_user:
                fails.append('run %d: user metadata %r, the extractor (%r) yields %r' % (i, md['user'], ext, want_user))
            if not interrupted:
                complete.setdefault(run['cls'], []).append(rid)
        if impl and '_default_lookup' in impl[-1]:
            for cname, got in impl[-1]['_default_lookup'].items():
                if got != sorted(complete.get(cname, [])):
                    fails.append('default lookup for %s returned %r, the saved complete recordings are %r'
                                 % (cname, got, sorted(complete.get(cname, []))))
        return fails

    def known_finding(self, case, failures):
        if any('_tape_recorder_operation' in sp['alias'] and sp['kind'] == 'out' for sp in case['sites'].values()) \
                and all('incomplete=' in f or 'default lookup' in f for f in failures):
            return 'output-alias-contains-reserved-operation-alias'
        return None

    def nontrivial(self, case, impl):
        return any(r.get('saved') for r in impl)


PROP = C18
