"""C16 - S3 time-window lookup is exact (DESIGN.md section 6, C16).

One case = one bucket (recordings created AND saved at their instant `t`, in the given order) + many lookups ("windows").
Times are SECONDS since 1970-01-01T00:00 (naive UTC; the resolution of S3's LastModified); `strftime('%Y%m%d')` travels to the model as the table "daytab".
The case is, minus keys starting with '_', the body of the driver request "c16.multi".
"""
import datetime
import random
import fnmatch

from harness.engine import Prop
from harness.wire import to_wire, to_py

EPOCH = datetime.datetime(1970, 1, 1)
DAY = 86400
M = 60          # one minute
PREFIXES = ['', 'p', 'a/b', 'xmetadata']


SUBSEC = [False]


def instant(t):
    """second t of the model as a datetime.  With SUBSEC on, every second carries a sub-second part of its own (a function of t):
    an order-preserving embedding that keeps the calendar day, so every comparison and every day count of the model stands"""
    if t is None:
        return None
    return EPOCH + datetime.timedelta(seconds=t, microseconds=(t * 7919 + 13) % 1000000 if SUBSEC[0] else 0)


def minutes(dt):
    d = dt - EPOCH
    return d.days * DAY + d.seconds        # (seconds; the name is historical)


def day_str(d):
    return (EPOCH + datetime.timedelta(days=d)).strftime('%Y%m%d')


def fmt(t):
    return 'none' if t is None else instant(t).strftime('%Y-%m-%d %H:%M:%S')


def mk_case(p, recs, windows):
    ts = [r['t'] for r in recs]
    for w in windows:
        ts += [x for x in (w['s'], w['e'], w['now']) if x is not None]
    lo, hi = (min(ts) // DAY, max(ts) // DAY) if ts else (0, 0)
    tab = [[d, day_str(d)] for d in range(max(0, lo - 3), hi + 4)]
    return {'p': p, 'daytab': tab, 'recs': recs, 'windows': windows}


def wire_fields(d):
    return to_wire(d)['d']


# ---------------------------------------------------------------------------------------------------------------
# independent statement of the documented meaning of a metadata filter (as in c14.py; the filters used here are
# JSON-native atoms, so what the S3 content filter sees - json.loads of the stored text - is the metadata itself)
# ---------------------------------------------------------------------------------------------------------------
def spec_value(f, r):
    if isinstance(f, list):
        return any(spec_value(a, r) for a in f)
    if isinstance(f, dict) and 'operator' in f and 'value' in f:
        op, v = f['operator'], f['value']
        try:
            if op == '=':
                return bool(r == v)
            if op == '<':
                return bool(r < v)
            if op == '<=':
                return bool(r <= v)
            if op == '>':
                return bool(r > v)
            if op == '>=':
                return bool(r >= v)
        except TypeError:
            return False
        return False
    if r is None:
        return f is None
    if f is None:
        return False
    if isinstance(f, str):
        return isinstance(r, str) and fnmatch.fnmatchcase(r, f)
    return bool(r == f)


def spec_meta(f, md):
    return all(spec_value(v, md.get(k)) for k, v in f.items())


def rec_id(rec):
    return '%s/%s/%s' % (rec['cat'], instant(rec['t']).strftime('%Y%m%d'), rec['uid'])


def rec_md(rec):
    return to_py({'d': rec.get('md') or []})


def win_filter(w):
    return to_py({'d': w.get('f') or []})


def expected(case, w):
    """The recordings of the window, in creation order; None when the window's premise ("end defaulting to now" means
    nothing is newer than now) does not hold of the case."""
    s, e, now = w['s'], w['e'], w['now']
    if e is None and any(r['t'] > now for r in case['recs']):
        return None
    hi = e if e is not None else now
    f = win_filter(w)
    return [r for r in case['recs']
            if r['cat'] == w['cat'] and (s is None or s <= r['t']) and r['t'] <= hi and spec_meta(f, rec_md(r))]


def f7_shape(w):
    s, e = w['s'], (w['e'] if w['e'] is not None else w['now'])
    return s is not None and s <= e and e // DAY > s // DAY and e % DAY < s % DAY


# ---------------------------------------------------------------------------------------------------------------
# stand-ins bound into the modules under test (clock, uuid, random.choice, shuffle)
# ---------------------------------------------------------------------------------------------------------------
class FakeDT(datetime.datetime):
    NOW = EPOCH
    CALLS = []

    @classmethod
    def utcnow(cls):
        cls.CALLS.append('utcnow')
        return cls.NOW

    @classmethod
    def today(cls):
        cls.CALLS.append('today')
        return cls.NOW

    @classmethod
    def now(cls, tz=None):
        cls.CALLS.append('now')
        return cls.NOW


class _Hex(object):
    def __init__(self, h):
        self.hex = h


class _Uuid(object):
    current = 'u????'

    def uuid1(self, *a, **k):
        return _Hex(self.current)

    uuid4 = uuid1


class _Random(object):
    """`random.choice` of the window under test: seq[draws[step % len(draws)] % len(seq)], no draws -> index 0"""
    draws = ()
    step = 0

    def choice(self, seq):
        i = (self.draws[self.step % len(self.draws)] % len(seq)) if self.draws else 0
        self.step += 1
        return seq[i]


class _Shuffle(object):
    """`shuffle` of the window under test: rotate left by rot % len, in place"""
    rot = 0

    def __call__(self, x, *a, **k):
        if len(x):
            k = self.rot % len(x)
            x[:] = x[k:] + x[:k]


UUID = _Uuid()
RANDOM = _Random()
SHUFFLE = _Shuffle()


def bind():
    """idempotent; after engine.use_repo() so that `playback` is the tree under test"""
    from harness import fake_s3
    fake_s3.install()
    import playback.tape_cassettes.s3.s3_tape_cassette as mod
    import playback.tape_cassettes.s3.s3_basic_facade as facade_mod
    mod.datetime = FakeDT
    mod.uuid = UUID
    mod.random = RANDOM
    facade_mod.shuffle = SHUFFLE
    return fake_s3, mod


class C16(Prop):
    ID = 'C16'
    CORRESPONDENCE = ('PlaybackModel.S3.iterRecordingIds (prefixDays, idPrefixes, windowPred, iterKeys, merge) vs '
                      'S3TapeCassette.iter_recording_ids + S3BasicFacade.iter_keys over the fake bucket')
    RULE = ('hour grid over 2021-02-27..2021-03-03 (month boundary, non-leap February; 6-hour grid in the quick tier): a '
            'recording at every grid instant, every window (start, end) on the grid with explicit end, and for every `now` on '
            'the grid every start with the end defaulting to now; instants at 23:59/00:00/00:01 around midnights with windows '
            'of <1 day crossing midnight, 24 h, 24 h +- 1 min, 48 h; one recording a day over 45 days with windows of 15-45 day folders; random buckets (whole minutes and single seconds) of 5-25 recordings in 6 days '
            'with 8-20 windows (limits, filters, random order); in 40% of the cases every instant (recording times, window bounds, now) carries a sub-second part - an order- and day-preserving embedding of the model\'s seconds; one case = one bucket + its windows; per case additionally (not '
            'modelled): its first window with the 1st / 2nd / 3rd / 5th read request (listing step or GET) answered by the error boto3 raises for a 503 SlowDown answer (botocore ClientError) - the '
            'lookup raises or is exact - and its first two windows consumed interleaved through one cassette; a case is non-trivial '
            'when some window has a non-empty expected set; distinct = distinct canonical case')
    TRUSTED = ['correspondence harness harness/props/c16.py + Lean driver (Drive/S3.lean)',
               'harness/fake_s3.py behind the real S3BasicFacade stands for S3 (lexicographic listing, last_modified stamped '
               'from the controlled clock at put time)',
               "strftime('%Y%m%d') is a parameter of the model; its graph on the days of the case is computed by Python and "
               'sent to the driver as a table',
               'datetime/timedelta/date arithmetic modelled as seconds and days (t / 86400) since 1970-01-01; sub-second parts are attached by the harness as a function of the second (equal seconds = equal instants)',
               'random.choice / shuffle replaced on both sides by the same deterministic draws (given list / rotation)',
               'metadata filter semantics: C14']
    ASSUMPTIONS = ['process clock in UTC: datetime.today() and datetime.utcnow() return the same naive instant',
                   'a recording is created and saved at the same instant (day folder of the id = day of last_modified)',
                   'end defaulting to now: nothing in the bucket is newer than now',
                   'window bounds are naive UTC datetimes at one-second resolution']
    PARALLEL = 14

    # ------------------------------------------------------------------------------------------------------
    # generator
    # ------------------------------------------------------------------------------------------------------
    @staticmethod
    def uids(n, rng, shuffled):
        u = ['u%04d' % i for i in range(n)]
        if shuffled:
            rng.shuffle(u)
        return u

    def grid_cases(self, rng, base, hours, tag):
        b = minutes(base)
        grid = [b + 3600 * h for h in hours]
        step = grid[1] - grid[0]
        top = grid[-1]
        cases = []

        def recs_upto(limit, shuffled):
            pairs = []
            for k, t in enumerate(grid):
                if t > limit:
                    break
                pairs.append(('Op', t))
                if k % 4 == 1:
                    pairs.append(('OpB', t))
            us = self.uids(len(pairs), rng, shuffled)
            return [{'cat': c, 'uid': u, 't': t} for (c, t), u in zip(pairs, us)]

        # explicit end: one case per start, every end >= start
        for i, s in enumerate(grid):
            ws = [{'cat': 'Op', 's': s, 'e': e, 'now': top, 'lim': None} for e in grid if e >= s]
            for e in sorted({s - step, s - DAY, s - DAY - step, grid[0]}):
                if grid[0] <= e < s:
                    ws.append({'cat': 'Op', 's': s, 'e': e, 'now': top, 'lim': None})       # end before start: nothing
            for e in grid[i::7]:
                ws.append({'cat': 'OpB', 's': s, 'e': e, 'now': top, 'lim': None})
            ws.append({'cat': 'Op', 's': None, 'e': s, 'now': top, 'lim': None})            # upper bound only
            ws.append({'cat': 'Op', 's': None, 'e': None, 'now': top, 'lim': None})         # plain listing
            c = mk_case(PREFIXES[i % 4], recs_upto(top, i % 2 == 1), ws)
            c['_kind'] = tag + ':explicit'
            cases.append(c)
        # default end: one case per `now`, the bucket holds what exists at `now`, every start (also after now)
        for j, now in enumerate(grid):
            ws = [{'cat': 'Op', 's': s, 'e': None, 'now': now, 'lim': None} for s in grid]
            ws += [{'cat': 'OpB', 's': s, 'e': None, 'now': now, 'lim': None} for s in grid[j % 5::5]]
            ws.append({'cat': 'Op', 's': None, 'e': None, 'now': now, 'lim': None})
            c = mk_case(PREFIXES[(j + 1) % 4], recs_upto(now, j % 2 == 0), ws)
            c['_kind'] = tag + ':default'
            cases.append(c)
        return cases

    def boundary_cases(self, rng):
        d0 = minutes(datetime.datetime(2021, 3, 10))
        mids = [d0 + DAY * k for k in range(1, 5)]
        inst = sorted({m + d for m in mids for d in (-60 * M, -30 * M, -M, -1, 0, 1, M, 30 * M, 60 * M)} | {d0 + 720 * M + DAY * k for k in range(0, 5)})
        top = inst[-1] + 2 * DAY + 5 * M

        def recs_upto(limit, shuffled):
            pairs = [('Op', t) for t in inst if t <= limit]
            pairs += [('OpB', t) for t in inst if t <= limit and t % DAY in (0, DAY - 1)]
            pairs.sort(key=lambda ct: ct[1])
            us = self.uids(len(pairs), rng, shuffled)
            return [{'cat': c, 'uid': u, 't': t} for (c, t), u in zip(pairs, us)]

        wins = [(s, e) for s in inst for e in inst if s <= e]
        for x in inst:
            wins += [(x, x + DAY), (x, x + DAY - 1), (x, x + DAY + 1), (x, x + 2 * DAY), (x, x + 2 * DAY - 1), (x, x - 1)]
        for m in mids:          # shorter than a day, crossing midnight, the end earlier in the day than the start
            wins += [(m - 1, m), (m - 1, m + 1), (m - 60 * M, m + 30 * M), (m - 30 * M, m + 29 * M), (m - 720 * M, m + 719 * M), (m - 1, m + DAY - 2), (m - M, m + M),
                     (m - DAY + 1, m), (m - 2, m - 1 + DAY - 1)]
        wins = sorted(set(wins))
        cases = []
        n = 8
        for k in range(n):
            ws = [{'cat': 'Op', 's': s, 'e': e, 'now': top, 'lim': None} for (s, e) in wins[k::n]]
            ws += [{'cat': 'OpB', 's': s, 'e': e, 'now': top, 'lim': None} for (s, e) in wins[k::n][::9]]
            c = mk_case(PREFIXES[k % 4], recs_upto(top, k % 2 == 1), ws)
            c['_kind'] = 'boundary:explicit'
            cases.append(c)
        for j, now in enumerate(inst + [inst[-1] + DAY, mids[1] + 2]):
            ws = [{'cat': 'Op', 's': s, 'e': None, 'now': now, 'lim': None} for s in inst]
            ws += [{'cat': 'Op', 's': now - d, 'e': None, 'now': now, 'lim': None} for d in (0, 1, DAY - 1, DAY, DAY + 1, 2 * DAY)]
            ws += [{'cat': 'OpB', 's': s, 'e': None, 'now': now, 'lim': None} for s in inst[j % 6::6]]
            c = mk_case(PREFIXES[(j + 2) % 4], recs_upto(now, j % 2 == 0), ws)
            c['_kind'] = 'boundary:default'
            cases.append(c)
        # windows of weeks: one recording a day (and two on some days) over 45 days, windows of 15 - 45 day folders
        base = minutes(datetime.datetime(2021, 3, 1))
        pairs = [('Op', base + DAY * k + 720 * M) for k in range(45)] + [('Op', base + DAY * k + 5 * M) for k in (16, 17, 31, 32, 33)]
        pairs.sort(key=lambda ct: ct[1])
        us = self.uids(len(pairs), rng, True)
        long_recs = [{'cat': c, 'uid': u, 't': t} for (c, t), u in zip(pairs, us)]
        top = base + 46 * DAY
        ws = [{'cat': 'Op', 's': base + DAY * a, 'e': base + DAY * b + 900 * M, 'now': top, 'lim': None}
              for a, b in ((0, 14), (0, 15), (0, 16), (0, 17), (0, 18), (1, 20), (0, 31), (0, 32), (0, 33), (0, 44), (10, 44), (28, 44))]
        ws += [{'cat': 'Op', 's': base + DAY * a, 'e': None, 'now': top, 'lim': None} for a in (0, 12, 28, 29)]
        c = mk_case(PREFIXES[1], long_recs, ws)
        c['_kind'] = 'boundary:weeks'
        cases.append(c)
        return cases

    BASES = [datetime.datetime(2021, 2, 26), datetime.datetime(2021, 3, 9), datetime.datetime(2020, 2, 27),
             datetime.datetime(2019, 12, 29), datetime.datetime(2021, 10, 29), datetime.datetime(2024, 2, 27)]

    def rand_instant(self, rng, lo, days, bias):
        if rng.random() < bias:
            m = lo + DAY * rng.randint(0, days)
            return max(lo, m + rng.choice([-61 * M, -60 * M, -M, -2, -1, 0, 0, 1, 2, M, 59 * M, 60 * M, 61 * M, rng.randint(-90, 90), rng.randint(-90, 90) * M]))
        t = lo + rng.randint(0, days * DAY)
        return t if rng.random() < 0.3 else t - t % M          # mostly on whole minutes, so that equal instants happen

    def rand_case(self, rng, bias=0.3, p=None):
        lo = minutes(rng.choice(self.BASES)) + rng.choice([0, 0, 1, M, 37 * M, 720 * M])
        days = 6
        n = rng.randint(5, 25)
        ts = sorted(self.rand_instant(rng, lo, days, bias) for _ in range(n))
        if rng.random() < 0.3:      # several recordings within the same minute
            ts = sorted(ts + [rng.choice(ts) for _ in range(rng.randint(1, 3))])
        us = self.uids(len(ts), rng, rng.random() < 0.5)
        recs = []
        for t, u in zip(ts, us):
            r = {'cat': rng.choice(['Op', 'Op', 'Op', 'OpB', 'Q']), 'uid': u, 't': t}
            c = rng.random()
            if c < 0.3:
                r['md'] = wire_fields({'m': 1})
            elif c < 0.4:
                r['md'] = wire_fields(rng.choice([{'m': 2}, {'m': 1, 'x': 'a'}, {'x': 'a'}, {'m': None}]))
            recs.append(r)
        top = ts[-1]
        ws = []
        for _ in range(rng.randint(8, 20)):
            w = {'cat': rng.choice(['Op', 'Op', 'Op', 'Op', 'OpB', 'Q'])}
            c = rng.random()
            if c < 0.3:
                s = rng.choice(ts)
            elif c < 0.36:
                s = None
            else:
                s = self.rand_instant(rng, lo, days, bias)
            w['s'] = s
            c = rng.random()
            if c < 0.3:
                e = None
            elif c < 0.45:
                e = rng.choice(ts)
            elif s is None:
                e = self.rand_instant(rng, lo, days, bias)
            elif c < 0.5:
                e = max(0, s - rng.choice([1, 59, M, 59 * M, DAY, rng.randint(1, 3 * DAY)]))       # end before start
            else:
                e = s + rng.choice([0, 1, M, rng.randint(0, 120), rng.randint(0, 120) * M, rng.randint(0, DAY - 1), DAY - 1, DAY, DAY + 1, 2 * DAY,
                                    rng.randint(0, 6 * DAY), rng.randint(0, 6 * DAY)])
            w['e'] = e
            w['now'] = top + rng.choice([0, 0, 0, 1, 59, M, DAY - 1, DAY, rng.randint(0, 2 * DAY)])
            if rng.random() < 0.2:
                w['f'] = wire_fields({'m': 1})
            w['lim'] = None
            if rng.random() < 0.25:
                w['random'] = True
                w['ch'] = [rng.randint(0, 9) for _ in range(rng.randint(0, 6))]
                w['rot'] = rng.randint(0, 7)
            ws.append(w)
        case = mk_case(rng.choice(PREFIXES) if p is None else p, recs, ws)
        for w in ws:
            if rng.random() < 0.4:
                k = len(expected(case, w))
                w['lim'] = rng.choice([0, 1, 2, k, k + 3])
        case['_kind'] = 'random'
        return case

    def generate(self, rng, tier):
        quick = tier == 'quick'
        cases = self.grid_cases(rng, datetime.datetime(2021, 2, 27), range(0, 97, 6 if quick else 1), 'grid')
        if not quick:
            # the same at a coarser step across a year boundary and across the 29th of February of a leap year
            cases += self.grid_cases(rng, datetime.datetime(2019, 12, 30), range(0, 97, 3), 'grid-newyear')
            cases += self.grid_cases(rng, datetime.datetime(2020, 2, 27), range(0, 97, 3), 'grid-leap')
        cases += self.boundary_cases(rng)
        for _ in range(60 if quick else 1500):
            cases.append(self.rand_case(rng))
        sub = random.Random(rng.random())
        for c in cases:
            if sub.random() < 0.4:
                c['subsec'] = True       # instants carry sub-second parts (what utcnow() gives a service)
        return cases

    # ------------------------------------------------------------------------------------------------------
    # the real code
    # ------------------------------------------------------------------------------------------------------
    def run_impl(self, case):
        SUBSEC[0] = bool(case.get('subsec'))
        fake_s3, mod = bind()
        fake_s3.reset()
        st = fake_s3.store('b')
        st.clock = lambda: FakeDT.NOW
        cassette = mod.S3TapeCassette('b', key_prefix=case['p'], read_only=False)
        create_clock = set()
        created = []
        for rec in case['recs']:
            FakeDT.NOW = instant(rec['t'])
            UUID.current = rec['uid']
            try:
                FakeDT.CALLS = []
                r = cassette.create_new_recording(rec['cat'])
                create_clock.update(FakeDT.CALLS)
                r.set_data('k', 1)
                if rec.get('md'):
                    r.add_metadata(rec_md(rec))
                cassette.save_recording(r)
                created.append(r.id)
            except Exception as ex:      # never on the unchanged tree; the oracle reports it
                return {'setup_error': type(ex).__name__, 'at': rec['uid']}
        out = []
        for w in case['windows']:
            FakeDT.NOW = instant(w['now'])
            FakeDT.CALLS = []
            RANDOM.draws = list(w.get('ch') or [])
            RANDOM.step = 0
            SHUFFLE.rot = w.get('rot') or 0
            f = win_filter(w)
            try:
                ids = list(cassette.iter_recording_ids(w['cat'], start_date=instant(w['s']), end_date=instant(w['e']),
                                                       metadata=f or None, limit=w.get('lim'),
                                                       random_results=bool(w.get('random'))))
                out.append({'ids': ids, 'clock': list(FakeDT.CALLS)})
            except Exception as ex:
                out.append(type(ex).__name__)
        res = {'windows': out, 'create_clock': sorted(create_clock), 'created': created}
        # -- not modelled, judged by the oracle alone: the same window lookups (ordered, explicit end) when the store answers
        #    one read request with an error, and when two lookups through one cassette are consumed interleaved
        ws = [w for w in case['windows'] if w['e'] is not None and w['s'] is not None][:2]

        def look(w):
            FakeDT.NOW = instant(w['now'])
            return cassette.iter_recording_ids(w['cat'], start_date=instant(w['s']), end_date=instant(w['e']),
                                               metadata=win_filter(w) or None, limit=w.get('lim'), random_results=False)
        extra = {'seq': [], 'faults': [], 'interleaved': None}
        try:
            for w in ws:
                extra['seq'].append(list(look(w)))
            if ws:
                for n in (1, 2, 3, 5):
                    st.read_fault = n
                    try:
                        extra['faults'].append([n, 'ids', list(look(ws[0]))])
                    except fake_s3.ReadFault:
                        extra['faults'].append([n, 'raised'])
                    except Exception as ex:
                        extra['faults'].append([n, 'other', type(ex).__name__])
                    finally:
                        st.read_fault = None
            if created:
                # fetching a stored recording / its metadata while the store answers with an error: the error reaches the caller,
                # it is not turned into "no such recording"
                extra['getfault'] = []
                for call in (cassette.get_recording, cassette.get_recording_metadata):
                    st.read_fault = 1
                    try:
                        call(created[0])
                        extra['getfault'].append('returned')
                    except fake_s3.ReadFault:
                        extra['getfault'].append('raised')
                    except Exception as ex:
                        extra['getfault'].append(type(ex).__name__)
                    finally:
                        st.read_fault = None
            if len(ws) == 2:
                it_a = iter(look(ws[0]))
                first = next(it_a, None)
                b = list(look(ws[1]))
                a = ([] if first is None else [first]) + list(it_a)
                extra['interleaved'] = [a, b]
        except Exception as ex:
            extra['error'] = type(ex).__name__
        res['_extra'] = extra
        return res

    # ------------------------------------------------------------------------------------------------------
    # the model
    # ------------------------------------------------------------------------------------------------------
    def model_requests(self, case):
        req = {'m': 'c16.multi'}
        req.update({k: v for k, v in case.items() if not k.startswith('_')})
        return [req]

    def impl_view(self, case, impl):
        return {k: v for k, v in impl.items() if not k.startswith('_')}

    def model_transcript(self, case, answers):
        out = []
        for w, a in zip(case['windows'], answers[0]):
            if isinstance(a, dict):
                a = dict(a, clock=['utcnow'] if (w['s'] is not None and w['e'] is None) else [])
            out.append(a)
        return {'windows': out, 'create_clock': ['today'] if case['recs'] else [],
                'created': [rec_id(r) for r in case['recs']]}

    # ------------------------------------------------------------------------------------------------------
    # the property, stated over the implementation transcript
    # ------------------------------------------------------------------------------------------------------
    @staticmethod
    def describe(w):
        end = fmt(w['e']) if w['e'] is not None else 'now=%s' % fmt(w['now'])
        extra = ''
        if w.get('f'):
            extra += ' filter=%r' % (win_filter(w),)
        if w.get('lim') is not None:
            extra += ' limit=%d' % w['lim']
        if w.get('random'):
            extra += ' random'
        return '%s [%s .. %s]%s' % (w['cat'], fmt(w['s']), end, extra)

    def oracle(self, case, impl):
        if 'setup_error' in impl:
            return ['creating/saving recording %s raised %s' % (impl['at'], impl['setup_error'])]
        # ids as the cassette itself handed them out (the id format is compared with the model in the correspondence,
        # the oracle does not depend on it)
        id_of = {r['uid']: i for r, i in zip(case['recs'], impl.get('created') or [])}
        saved = {}
        for r in case['recs']:
            saved[id_of.get(r['uid'], rec_id(r))] = r
        fails = []
        for k, (w, got) in enumerate(zip(case['windows'], impl['windows'])):
            want = expected(case, w)
            if want is None:
                continue
            name = 'window #%d %s' % (k, self.describe(w))
            if not isinstance(got, dict):
                fails.append('%s: lookup raised %s' % (name, got))
                continue
            ids = got['ids']
            want_ids = [id_of.get(r['uid'], rec_id(r)) for r in want]
            wset = set(want_ids)
            if len(set(ids)) != len(ids):
                fails.append('%s: an id is listed twice: %r' % (name, sorted(i for i in set(ids) if ids.count(i) > 1)))
            extra = [i for i in ids if i not in wset]
            if extra:
                fails.append('%s: outside the window but listed: %s' % (name, ', '.join(
                    '%s (saved %s)' % (i, fmt(saved[i]['t'])) if i in saved else '%s (no such recording)' % i
                    for i in sorted(set(extra)))))
            lim = w.get('lim')
            if lim is None:
                got_set = set(ids)
                missing = [i for i in want_ids if i not in got_set]
                if missing:
                    fails.append('%s: inside the window but not listed: %s' % (name, ', '.join(
                        '%s (saved %s)' % (i, fmt(saved[i]['t'])) for i in missing)))
            elif len(ids) != min(lim, len(want_ids)):
                fails.append('%s: %d ids listed, %d recordings in the window' % (name, len(ids), len(want_ids)))
        ex = impl.get('_extra') or {}
        if ex.get('error'):
            fails.append('repeating the first windows (ordered) raised %s' % ex['error'])
        ws = [w for w in case['windows'] if w['e'] is not None and w['s'] is not None][:2]
        for f in ex.get('faults', []):
            if f[1] == 'other':
                fails.append('window %s with read request %d answered by an error: the lookup raised %s' % (self.describe(ws[0]), f[0], f[2]))
            elif f[1] == 'ids' and f[2] != ex['seq'][0]:
                fails.append('window %s with read request %d answered by an error: the lookup returned %r without raising - it returns '
                             '%r when the store is healthy' % (self.describe(ws[0]), f[0], f[2], ex['seq'][0]))
        for what, got in zip(('get_recording', 'get_recording_metadata'), ex.get('getfault') or []):
            if got != 'raised':
                fails.append('%s of a stored recording while the store answers the read with an error: %s (the error must reach the caller)'
                             % (what, got))
        if ex.get('interleaved'):
            a, b = ex['interleaved']
            if a != ex['seq'][0] or b != ex['seq'][1]:
                fails.append('two lookups through one cassette consumed interleaved (one id of %s, all of %s, the rest of the first): '
                             '%r and %r; one after the other they return %r and %r'
                             % (self.describe(ws[0]), self.describe(ws[1]), a, b, ex['seq'][0], ex['seq'][1]))
        return fails

    def nontrivial(self, case, impl):
        return any(expected(case, w) for w in case['windows'])

    def features(self, case, impl):
        out = ['prefix:%s' % (case['p'] or "''"), 'kind:%s' % case.get('_kind', 'corpus' if '_corpus' in case else 'other')]
        if case.get('subsec'):
            out.append('instants:with-sub-second-parts')
        for w in case['windows']:
            out.append('end:explicit' if w['e'] is not None else 'end:default')
            if w['s'] is None:
                out.append('start:none')
            elif w['e'] is not None and w['e'] < w['s']:
                out.append('window:end-before-start')
            elif w['e'] is None and w['now'] < w['s']:
                out.append('window:start-after-now')
            if f7_shape(w):
                out.append('window:crosses-midnight-end-earlier-in-day')
            lim = w.get('lim')
            out.append('lim:none' if lim is None else 'lim:%s' % (lim if lim <= 2 else 'n'))
            if w.get('random'):
                out.append('random')
            if w.get('f'):
                out.append('filter')
            want = expected(case, w)
            out.append('expected:%s' % ('empty' if not want else 'one' if len(want) == 1 else 'many'))
        return out

    def known_finding(self, case, failures):
        return None

    def shrink(self, case):
        ws, rs = case['windows'], case['recs']
        if len(ws) > 2:
            yield dict(case, windows=ws[:len(ws) // 2])
            yield dict(case, windows=ws[len(ws) // 2:])
        if len(rs) > 2:
            yield dict(case, recs=rs[:len(rs) // 2])
            yield dict(case, recs=rs[len(rs) // 2:])
        if len(ws) > 1:
            for i in range(min(len(ws), 24)):
                yield dict(case, windows=ws[:i] + ws[i + 1:])
        for i in range(min(len(rs), 32)):
            yield dict(case, recs=rs[:i] + rs[i + 1:])
        for i, w in enumerate(ws[:4]):
            if w.get('f'):
                yield dict(case, windows=ws[:i] + [{k: v for k, v in w.items() if k != 'f'}] + ws[i + 1:])
            if w.get('random'):
                w2 = {k: v for k, v in w.items() if k not in ('random', 'ch', 'rot')}
                yield dict(case, windows=ws[:i] + [w2] + ws[i + 1:])
            if w.get('lim') is not None:
                yield dict(case, windows=ws[:i] + [dict(w, lim=None)] + ws[i + 1:])

    def targeted(self, case, rng):
        """minute-level buckets and windows concentrated around midnights"""
        return [self.rand_case(rng, bias=0.85, p=rng.choice([case['p'], case['p'], None])) for _ in range(500)]

    def sample_repr(self, case):
        return {'p': case['p'], 'recs': len(case['recs']), 'windows': len(case['windows']),
                'first_recs': case['recs'][:3], 'first_windows': case['windows'][:3],
                'readable': [self.describe(w) for w in case['windows'][:3]]}


PROP = C16
