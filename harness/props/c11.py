"""C11 - Recorded data cannot be altered through the values handed out (DESIGN.md section 6, C11).

A case is a scripted life of one recording on the REAL code:

  record phase   an operation (TapeRecorder, copy_data_on_intercepion on/off) whose body calls intercepted inputs and outputs
                 with list/dict/set/tuple/object values, mutates them in place after they were captured, records data;
  read phase     fetches (cassette.get_recording), reads (get_data, __getitem__), live metadata, __setitem__ on a fetched
                 object, client-built values, in-place mutations of whatever was handed out (append, __setitem__, pop, clear,
                 del, attribute assignment, set.add, embedding one handed-out object into another), replays
                 (TapeRecorder.play: injected inputs, output results, play_data, Playback.recorded_outputs,
                 Playback.original_recording) whose replayed code mutates what is injected.

The heap model (PlaybackModel/Heap.lean via Drive/Heap.lean) runs the same script; the observable is the value seen at every
hand-out, as a canonical tree.  Script semantics shared by both sides: a mutation whose path does not resolve or whose edit
does not apply to the kind of object found is a no-op (both sides report whether it applied).
"""
import json
import os
import shutil
import tempfile

from harness.engine import Prop

OP_OUT = 'output: _tape_recorder_operation #1.output'
TAG = {'a': 's:t'}          # metadata field `tag` = 't' of every recording; lookups filter on it


def user_metadata(m):
    """the part of a recording's metadata the scripts own (the recorder's own fields hold floats / timestamps)"""
    return {k: v for k, v in m.items() if not str(k).startswith('_tape_recorder')}


class Box(object):
    """a plain object with attributes (importable, so jsonpickle restores it)"""


class Fragile(object):
    """a value that decodes from the store but cannot be encoded again: its serialised state leaves out a derived attribute
    that decoding does not rebuild (a recording made by an older version of a class looks like this to a newer one)"""

    def __init__(self, items):
        self.items = list(items)
        self._index = dict((x, i) for i, x in enumerate(items))

    def __getstate__(self):
        state = dict(self.__dict__)
        del state['_index']
        return state


class Sticky(object):
    """a value whose class customises copying: `copy.deepcopy` hands back the very same object (interned / registry-backed
    values do this).  The serializer still builds a fresh one."""

    def __init__(self, items):
        self.items = list(items)

    def __deepcopy__(self, memo):
        return self

    def __copy__(self):
        return self


VALUE_CLASSES = {'fragile': Fragile, 'sticky': Sticky}


class BoxError(Exception):
    """an exception carrying mutable state in attributes (the serializer keeps the attributes and drops the arguments); an
    intercepted input whose value is one of these RAISES it, the operation catches it and may mutate what it carries"""


# ------------------------------------------------------------------------------------------------------------------
# trees  <->  Python values
# ------------------------------------------------------------------------------------------------------------------
def atom_py(s):
    if s == 'None':
        return None
    if s == 'True':
        return True
    if s == 'False':
        return False
    if s.startswith('i:'):
        return int(s[2:])
    return s[2:]


def to_py(t):
    if 'a' in t:
        return atom_py(t['a'])
    k, ls, cs = t['k'], t['l'], [to_py(c) for c in t['c']]
    if k == 'list':
        return cs
    if k == 'tuple':
        return tuple(cs)
    if k == 'set':
        return set(cs)
    if k == 'dict':
        return dict(zip(ls, cs))
    b = BoxError() if k == 'obj:BoxError' else Box()
    for name, v in zip(ls, cs):
        setattr(b, name, v)
    return b


def from_py(v, _stack=()):
    """canonical tree of a Python value (dict / attribute entries sorted by name, set members sorted); a cycle - only a
    broken implementation can produce one here - is cut with a marker instead of recursing for ever"""
    if v is None:
        return {'a': 'None'}
    if v is True:
        return {'a': 'True'}
    if v is False:
        return {'a': 'False'}
    if isinstance(v, int):
        return {'a': 'i:%d' % v}
    if isinstance(v, str):
        return {'a': 's:' + v}
    if id(v) in _stack:
        return {'a': 's:<cycle>'}
    st = _stack + (id(v),)
    if isinstance(v, list):
        return {'k': 'list', 'l': [], 'c': [from_py(x, st) for x in v]}
    if isinstance(v, tuple):
        return {'k': 'tuple', 'l': [], 'c': [from_py(x, st) for x in v]}
    if isinstance(v, (set, frozenset)):
        return {'k': 'set', 'l': [], 'c': sorted((from_py(x, st) for x in v), key=lambda t: json.dumps(t, sort_keys=True))}
    if isinstance(v, dict):
        ks = sorted(v)
        return {'k': 'dict', 'l': list(ks), 'c': [from_py(v[k], st) for k in ks]}
    if isinstance(v, (Box, BoxError)):
        ks = sorted(v.__dict__)
        return {'k': 'obj:Box' if isinstance(v, Box) else 'obj:BoxError', 'l': list(ks), 'c': [from_py(v.__dict__[k], st) for k in ks]}
    return {'a': 's:<%s>' % type(v).__name__}


def norm_env(t):
    """the envelope of an input that raised is {'exception': ex}; the heap model knows one envelope shape, {'value': v}"""
    if isinstance(t, dict) and t.get('k') == 'dict' and t.get('l') == ['exception']:
        return dict(t, l=['value'])
    return t


def canon_tree(t):
    """the same canonical form for a tree printed by the driver"""
    if not isinstance(t, dict) or 'a' in t:
        return t
    cs = [canon_tree(c) for c in t['c']]
    if t['k'] == 'set':
        return {'k': 'set', 'l': [], 'c': sorted(cs, key=lambda x: json.dumps(x, sort_keys=True))}
    if t['k'] == 'dict' or t['k'].startswith('obj:'):
        pairs = sorted(zip(t['l'], cs), key=lambda p: p[0])
        return {'k': t['k'], 'l': [p[0] for p in pairs], 'c': [p[1] for p in pairs]}
    return {'k': t['k'], 'l': [], 'c': cs}


def in_key(alias):
    return 'input: %s args={"py/tuple": []}, kwargs=[]' % alias      # an instance method called without arguments


def out_key(alias, n):
    return 'output: %s #%d.output' % (alias, n)


def res_key(alias, n):
    return 'output: %s #%d.result' % (alias, n)


# ------------------------------------------------------------------------------------------------------------------
# script semantics on real Python objects
# ------------------------------------------------------------------------------------------------------------------
def navigate(obj, path):
    """(found, object) following list/tuple indices, dict keys, attribute names"""
    for e in path:
        if 'i' in e:
            if isinstance(obj, (list, tuple)) and e['i'] < len(obj):
                obj = obj[e['i']]
            else:
                return False, None
        else:
            if isinstance(obj, dict) and e['k'] in obj:
                obj = obj[e['k']]
            elif isinstance(obj, dict) and e['k'] == 'value' and set(obj) == {'exception'}:
                obj = obj['exception']          # the envelope of an input that raised: {'exception': ex}
            elif isinstance(obj, (Box, BoxError)) and e['k'] in obj.__dict__:
                obj = obj.__dict__[e['k']]
            else:
                return False, None
    return True, obj


def operand(x, variables):
    if 'tree' in x:
        return True, to_py(x['tree'])
    if x['var'] not in variables:
        return False, None
    return navigate(variables[x['var']], x.get('path', []))


def apply_edit(variables, step):
    """in-place mutation; returns whether it applied (same applicability rule as Drive/Heap.lean editCell)"""
    if step['var'] not in variables:
        return False
    ok, obj = navigate(variables[step['var']], step.get('path', []))
    if not ok:
        return False
    e = step['edit']
    name, key = e['e'], e.get('key')
    val = None
    if 'x' in e:
        ok, val = operand(e['x'], variables)
        if not ok:
            val = None
            has_x = False
        else:
            has_x = True
    else:
        has_x = False
    if name == 'append' and has_x and isinstance(obj, list):
        obj.append(val)
        return True
    if name == 'pop' and isinstance(obj, list) and obj:
        obj.pop()
        return True
    if name == 'clear' and isinstance(obj, (list, dict, set)):
        obj.clear()
        return True
    if name == 'setitem' and has_x and key is not None:
        if 'i' in key and isinstance(obj, list) and key['i'] < len(obj):
            obj[key['i']] = val
            return True
        if 'k' in key and isinstance(obj, dict):
            obj[key['k']] = val
            return True
        return False
    if name == 'setattr' and has_x and key is not None and 'k' in key and isinstance(obj, (Box, BoxError)):
        setattr(obj, key['k'], val)
        return True
    if name == 'delitem' and key is not None and 'k' in key and isinstance(obj, dict) and key['k'] in obj:
        del obj[key['k']]
        return True
    if name == 'add' and has_x and isinstance(obj, set):
        obj.add(val)
        return True
    return False


# ------------------------------------------------------------------------------------------------------------------
class C11(Prop):
    ID = 'C11'
    CORRESPONDENCE = 'PlaybackModel.Heap (runClient over fetch/getData/getMeta/setData/new/mutate/recordIn/recordOut/recordRaw/save) vs MemoryRecording + cassettes + TapeRecorder.play'
    RULE = ('scripted lives of one recording on every cassette: record (copy-on-interception on/off) with in-place mutation '
            'after capture, then fetches / reads / live metadata / __setitem__ / mutations of handed-out values / replays whose '
            'replayed code mutates injected values; + stored values whose copy-on-read fails (an object whose serialised state omits a '
            'derived attribute) and stored values whose class customises copying (`__deepcopy__` returns the same object), read / re-read / replayed on the in-memory and the file cassette (not modelled: whatever a read hands '
            'out must not expose the stored value); + inputs recorded with copy-on-interception through a data handler whose prepared form holds the '
            'result next to a live argument / instance state that the operation goes on changing (not modelled: the recording holds what they were at the '
            'interception); a case is non-trivial when at least one in-place mutation applied to a '
            'handed-out or captured object and a later read observed the key; distinct = distinct canonical case')
    TRUSTED = ['correspondence harness harness/props/c11.py + Lean driver (Drive/Heap.lean): script compilation, path '
               'navigation and the edit-applicability rule are implemented twice (Python on real objects, Lean on cells)',
               'values are trees: sharing INSIDE one stored value (py/id) is outside the model and not generated; sharing across '
               'values (embedding one handed-out object into another) is generated',
               'CPython object identity and jsonpickle 0.9.3 decode(encode(v)) producing a fresh graph are exercised, not proved',
               'harness/fake_s3.py stands in for S3 behind the real S3BasicFacade']
    ASSUMPTIONS = ['faithful value domain of DESIGN.md 4.3: None, bools, ints, str, list, tuple, set of ints/strs, '
                   'string-keyed dict, plain objects; no cycles, no sharing inside one value',
                   'the client reaches recorded data only through the API (get_data, __getitem__, play_data, replay '
                   'injection, recorded_outputs, get_recording, get_metadata), not through MemoryRecording.recording_data '
                   'or get_data_direct']
    PARALLEL = 12

    # ------------------------------------------------------------------------------------------------------
    # generation
    # ------------------------------------------------------------------------------------------------------
    def rand_atom(self, rng, hashable_plain=False):
        c = rng.random()
        if hashable_plain or c < 0.5:
            return {'a': 'i:%d' % rng.randint(2, 9)} if rng.random() < 0.6 else {'a': 's:' + rng.choice(['a', 'b', 'xy', ''])}
        return {'a': rng.choice(['None', 'True', 'False'])}

    def rand_tree(self, rng, depth, mutable_top=False):
        c = rng.random()
        if depth <= 0 or (c < 0.2 and not mutable_top):
            return self.rand_atom(rng)
        kind = rng.choice(['list', 'list', 'dict', 'dict', 'set'] + (['obj:Box', 'obj:Box'] if self._obj else []) +
                          ([] if mutable_top else ['tuple']))
        n = rng.randint(0, 3)
        if kind == 'set':
            seen, cs = set(), []
            for _ in range(n):
                a = self.rand_atom(rng, True)
                if a['a'] not in seen:
                    seen.add(a['a'])
                    cs.append(a)
            return {'k': 'set', 'l': [], 'c': cs}
        if kind in ('dict', 'obj:Box'):
            if kind == 'obj:Box':
                n = max(n, 1)      # an attribute-less object is outside the faithful domain (jsonpickle decodes it to None)
            ls = rng.sample(['p', 'q', 'r', 'value', 'args'], n)
            return {'k': kind, 'l': ls, 'c': [self.rand_tree(rng, depth - 1) for _ in ls]}
        return {'k': kind, 'l': [], 'c': [self.rand_tree(rng, depth - 1) for _ in range(n)]}

    def tuple_top(self, rng):
        """a tuple holding at least one mutable part"""
        cs = [self.rand_tree(rng, 1) for _ in range(rng.randint(0, 2))]
        cs.insert(rng.randint(0, len(cs)), self.rand_tree(rng, 1, mutable_top=True))
        return {'k': 'tuple', 'l': [], 'c': cs}

    def exc_top(self, rng):
        """an exception carrying mutable state: an input with this value raises it"""
        ls = rng.sample(['payload', 'handled_by', 'p'], rng.randint(1, 2))
        return {'k': 'obj:BoxError', 'l': ls, 'c': [self.rand_tree(rng, 1, mutable_top=True) for _ in ls]}

    def rand_path(self, rng, tree, prefix=()):
        """a path to a container inside `tree` (by the shape it had when built)"""
        path, t = list(prefix), tree
        while 'k' in t and t['c'] and t['k'] != 'set' and (rng.random() < 0.5 or t['k'] == 'tuple'):
            i = rng.randrange(len(t['c']))
            path.append({'k': t['l'][i]} if t['l'] else {'i': i})
            t = t['c'][i]
        return path, t

    def rand_edit(self, rng, target, embed=None):
        """an edit that applies to the shape `target` had when built (it may have changed since: then it is a no-op)"""
        kind = target.get('k')
        x = {'tree': self.rand_tree(rng, 1)}
        if embed is not None and rng.random() < 0.35:
            x = {'var': embed}
        if kind == 'list':
            c = rng.random()
            if c < 0.45:
                return {'e': 'append', 'x': x}
            if c < 0.6:
                return {'e': 'pop'}
            if c < 0.75:
                return {'e': 'clear'}
            return {'e': 'setitem', 'key': {'i': rng.randint(0, max(0, len(target['c']) - 1))}, 'x': x}
        if kind == 'dict':
            c = rng.random()
            if c < 0.5:
                return {'e': 'setitem', 'key': {'k': rng.choice(target['l'] + ['new', 'value'])}, 'x': x}
            if c < 0.7 and target['l']:
                return {'e': 'delitem', 'key': {'k': rng.choice(target['l'])}}
            return {'e': 'clear'}
        if kind == 'set':
            return {'e': 'add', 'x': {'tree': self.rand_atom(rng, True)}} if rng.random() < 0.7 else {'e': 'clear'}
        if kind in ('obj:Box', 'obj:BoxError'):
            return {'e': 'setattr', 'key': {'k': rng.choice(target['l'] + ['extra'])}, 'x': x}
        # tuple / atom at the top: try something that will not apply, or append (no-op)
        return {'e': 'append', 'x': x}

    def generate(self, rng, tier):
        n = 2000 if tier == "quick" else 20000
        cases = [self.gen_case(rng) for _ in range(n)]
        # stored values whose copy-on-read FAILS (not modelled: the oracle is the statement itself): whatever a read does with
        # such a value - raise, or hand something out - the stored data cannot be altered through it
        for cassette in ('mem', 'file'):
            for reads in (['get', 'get'], ['item', 'get'], ['get', 'refetch', 'get'], ['play', 'play'], ['get', 'play']):
                cases.append({'kind': 'fragile', 'cassette': cassette, 'reads': reads,
                              'items': [rng.choice(['a', 'b', 'c']) + str(i) for i in range(rng.randint(1, 3))]})
                # ... and values whose class customises copying (`__deepcopy__` hands back the same object)
                cases.append({'kind': 'fragile', 'cls': 'sticky', 'cassette': cassette, 'reads': reads,
                              'items': [rng.choice(['a', 'b', 'c']) + str(i) for i in range(rng.randint(1, 3))]})
        for cassette in ('mem', 'file'):
            for embed in ('argument', 'state'):
                calls = rng.sample(range(10), rng.randint(1, 3))
                cases.append({'kind': 'ctxhandler', 'cassette': cassette, 'embed': embed, 'copy': True, 'calls': calls,
                              'changes': rng.randint(1, 2)})
        return cases

    def run_ctxhandler(self, case):
        """copy-on-interception with a data handler whose prepared form holds, next to the result, a live object of the service (an
        argument of the call / state of the instance) that the operation goes on changing"""
        from playback.tape_recorder import TapeRecorder, RecordingParameters
        from playback.interception.input_interception import InputInterceptionDataHandler
        tmp = tempfile.mkdtemp(prefix='c11h')
        try:
            cassette = self.make_cassette(case['cassette'], tmp)
            tr = TapeRecorder(cassette)
            tr.enable_recording()
            ids = []
            real_create = cassette.create_new_recording

            def create(category):
                r = real_create(category)
                ids.append(r.id)
                return r
            cassette.create_new_recording = create

            class WithContext(InputInterceptionDataHandler):
                def prepare_input_for_recording(self, interception_key, result, args, kwargs):
                    live = args[1] if case['embed'] == 'argument' else args[0].state
                    return {'wrapped': result, 'context': live}

                def restore_input_from_recording(self, recorded_data, args, kwargs):
                    return recorded_data['wrapped']
            at_call = []

            class Op(object):
                def __init__(self):
                    self.state = ['state', 0]

                @tr.intercept_input('load', data_handler=WithContext())
                def load(self, request):
                    return ['result', list(request)]

                @tr.operation()
                def run(self):
                    for n in case['calls']:
                        request = ['request', n]
                        got = self.load(request)
                        live = request if case['embed'] == 'argument' else self.state
                        at_call.append({'wrapped': [got[0], list(got[1])], 'context': list(live)})
                        for _ in range(case['changes']):
                            request.append('changed later')
                            self.state.append('changed later')
                            got.append('changed later')
                    return 'done'
            tr.recording_params(RecordingParameters(copy_data_on_intercepion=True))(Op)
            Op().run()
            if not ids:
                return {'error': 'no recording was created'}
            try:
                rec = cassette.get_recording(ids[0])
            except Exception as ex:
                return {'error': 'the recording was not saved (%s)' % type(ex).__name__}
            keys = sorted(k for k in rec.get_all_keys() if k.startswith('input: load'))
            by_n = {}
            for k in keys:
                v = rec.get_data(k)['value']
                by_n[v['wrapped'][1][1]] = {'wrapped': [v['wrapped'][0], list(v['wrapped'][1])] + list(v['wrapped'][2:]),
                                            'context': list(v['context'])}
            return {'stored': [by_n.get(n) for n in case['calls']], 'at_call': at_call}
        finally:
            shutil.rmtree(tmp, ignore_errors=True)

    def run_fragile(self, case):
        from playback.tape_recorder import TapeRecorder
        tmp = tempfile.mkdtemp(prefix='c11f')
        try:
            cassette = self.make_cassette(case['cassette'], tmp)
            rec = cassette.create_new_recording('Frag')
            key = 'input: load args={"py/tuple": []}, kwargs=[]'
            rec.set_data(key, {'value': VALUE_CLASSES[case.get('cls', 'fragile')](case['items'])})
            rec.set_data(OP_OUT, {'args': ['done'], 'kwargs': {}})
            cassette.save_recording(rec)
            tr = TapeRecorder(cassette)

            class Op(object):
                @tr.intercept_input('load')
                def load(self):
                    return VALUE_CLASSES[case.get('cls', 'fragile')](case['items'])

                @tr.operation()
                def run(self):
                    v = self.load()
                    seen = list(v.items)
                    v.items.append('MUTATED-BY-REPLAYED-CODE')
                    return seen
            fetched = cassette.get_recording(rec.id)
            out = []
            for how in case['reads']:
                try:
                    if how == 'refetch':
                        fetched = cassette.get_recording(rec.id)
                        out.append(['refetch', 'ok'])
                        continue
                    if how == 'play':
                        box = []
                        tr.play(rec.id, lambda recording: box.append(Op().run()))
                        out.append([how, 'items', box[0]])
                        continue
                    v = fetched.get_data(key) if how == 'get' else fetched[key]
                    out.append([how, 'items', list(v['value'].items)])
                    v['value'].items.append('MUTATED-BY-READER')
                except Exception as ex:
                    out.append([how, 'raised', type(ex).__name__])
            return {'reads': out}
        finally:
            shutil.rmtree(tmp, ignore_errors=True)

    _obj = True

    def gen_case(self, rng):
        """Two families.  With plain objects among the values, no mutable object is stored by reference under two keys of
        the recording (jsonpickle 0.9.3 mis-resolves py/id after a py/object with a container attribute - a defect of the
        store round trip, reported under C07, that would make the tree-valued model disagree with the stored text).  Without
        objects, sharing across keys (an input value passed on to an output, embedded into another captured value) is free."""
        self._obj = objects = rng.random() < 0.5
        copy = rng.random() < 0.55
        body, shapes = [], {}          # shapes: var -> tree it was built from (for choosing applicable edits)
        embedded = set()
        captured = set()               # objects mode: variables already stored by reference somewhere
        self._argused = argused = set()    # passed to an output already: embedding them later would create sharing INSIDE one value
        ins = rng.sample(['in1', 'in2', 'in3'], rng.randint(1, 3))
        out_counts = {}
        data_keys = []
        # --- the operation body
        for alias in ins:
            # a tuple at the top (e.g. `return ids, options`) is only shallowly immutable: its parts are mutated below
            c = rng.random()
            t = self.rand_tree(rng, 2, mutable_top=True) if c < 0.65 else self.tuple_top(rng) if c < 0.85 else self.exc_top(rng)
            raises = t.get('k') == 'obj:BoxError'
            v = 'x_' + alias
            body.append({'s': 'in', 'alias': alias, 'tree': t, 'var': v})
            shapes[v] = t
            captured.add(v)
            # (a raised exception is stored as it is, with or without copy-on-interception - the property speaks of values -
            # so the recorded run leaves it alone; the replayed code is free to mutate what it catches)
            self.maybe_mut(rng, body, shapes, embedded, v, when_pool=['rep'] if raises else ['rec', 'rep', 'both', 'rec'],
                           p=0.9 if raises else 0.6)
            if raises:
                embedded.add(v)          # never passed on / embedded: it would be stored by reference under a second key
            if rng.random() < (0.8 if raises else 0.2):
                # the same input again (same key): while replaying it must be handed a FRESH copy of what is recorded
                v2 = 'y_' + alias
                body.append({'s': 'in', 'alias': alias, 'tree': t, 'var': v2})
                shapes[v2] = t
                captured.add(v2)
                self.maybe_mut(rng, body, shapes, embedded, v2, when_pool=['rep'] if raises else ['rec', 'rep', 'both'])
                if raises:
                    embedded.add(v2)
        for j in range(rng.randint(0, 2)):
            t = self.rand_tree(rng, 2, mutable_top=True) if rng.random() < 0.75 else self.tuple_top(rng)
            v = 'n%d' % j
            body.append({'s': 'new', 'tree': t, 'var': v})
            shapes[v] = t
        for j in range(rng.randint(1, 3)):
            alias = rng.choice(['out1', 'out2'])
            out_counts[alias] = out_counts.get(alias, 0) + 1
            pool = [v for v in shapes if v not in embedded and not (objects and v in captured)]
            args = rng.sample(pool, min(len(pool), rng.randint(0, 2)))
            kw = []
            rest = [v for v in pool if v not in args]
            if rest and rng.random() < 0.3:
                kw = [['kw', rng.choice(rest)]]
            rt = self.rand_tree(rng, 2, mutable_top=rng.random() < 0.7)
            rv = 'r%d' % j
            body.append({'s': 'out', 'alias': alias, 'n': out_counts[alias], 'args': args, 'kw': kw, 'res': rt, 'var': rv})
            shapes[rv] = rt
            captured.update(args + [k[1] for k in kw] + [rv])
            argused.update(args + [k[1] for k in kw])
            for a in args + [k[1] for k in kw]:
                if rng.random() < 0.6:
                    self.maybe_mut(rng, body, shapes, embedded, a, when_pool=['rec', 'both', 'rec', 'rep'], p=1.0)
            self.maybe_mut(rng, body, shapes, embedded, rv, when_pool=['rec', 'rep', 'both'])
        pool = [v for v in shapes if v not in embedded and not (objects and v in captured)]
        if rng.random() < 0.5 and pool:
            v = rng.choice(pool)
            body.append({'s': 'rec_data', 'key': 'd1', 'var': v})
            body.append({'s': 'play_data', 'key': 'd1', 'var': 'pd1'})
            data_keys.append('d1')
            shapes['pd1'] = shapes[v]
            embedded.add(v)        # do not mutate / embed it afterwards: record_data stores by reference, no claim is made
            self.maybe_mut(rng, body, shapes, embedded, 'pd1', when_pool=['rep'])
        md = self.rand_tree(rng, 2, mutable_top=True)
        # --- keys of the recording, with the shape of what a read hands out
        keys = []
        for st in body:
            if st['s'] == 'in':
                if (in_key(st['alias']), 'env', st['tree']) not in keys:
                    keys.append((in_key(st['alias']), 'env', st['tree']))
            elif st['s'] == 'out':
                keys.append((out_key(st['alias'], st['n']), 'args', None))
                keys.append((res_key(st['alias'], st['n']), 'env', st['res']))
            elif st['s'] == 'rec_data':
                keys.append((st['key'], 'raw', shapes[st['var']]))
        keys.append((OP_OUT, 'args', None))
        # --- the read phase
        script, nrec, nvar, nplay = [], 0, 0, 0
        recs, handed = [], []        # handed: (var, shape)
        aliased = set()              # (recording object, key) holding an object the client still has a reference to
        md_whole = {'k': 'dict', 'l': ['tag', 'user'], 'c': [TAG, md]}
        # a lookup that scans the recording BEFORE it is fetched is how a batch is normally selected for replay
        if rng.random() < 0.6:
            script.append({'s': 'lookup', 'filter': rng.random() < 0.5})
        for _ in range(rng.randint(4, 12)):
            c = rng.random()
            if recs and rng.random() < 0.08:
                script.append({'s': 'lookup', 'filter': rng.random() < 0.6})
            if recs and rng.random() < 0.07:
                # mutate the stored object of ONE fetched recording through get_data_direct (only where no object is
                # stored under two keys, see gen_case's doc)
                key, kind, shape = rng.choice(keys)
                shp = shape if kind == 'raw' else ({'k': 'dict', 'l': ['value'], 'c': [shape]} if kind == 'env' else
                                                   {'k': 'dict', 'l': ['args', 'kwargs'], 'c': [{'k': 'list', 'l': [], 'c': []}, {'k': 'dict', 'l': [], 'c': []}]})
                path, target = self.rand_path(rng, shp)
                drec = rng.choice(recs)
                if kind == 'env' and shape.get('k') == 'obj:BoxError':
                    drec = None         # the envelope of a raised input is {'exception': ex}: its top level is not scripted
                # (not a key the client stored one of ITS objects under: the model compiles `direct` as read a copy /
                # mutate / put back, which is the same thing only while the client holds no reference to the stored object)
                if objects and drec is not None and (drec, key) not in aliased:
                    script.append({'s': 'direct', 'rec': drec, 'key': key, 'path': path,
                                   'edit': self.rand_edit(rng, target, None)})
            if c < 0.2 or not recs:
                nrec += 1
                recs.append('R%d' % nrec)
                script.append({'s': 'fetch', 'rec': recs[-1]})
            elif c < 0.5:
                key, kind, shape = rng.choice(keys)
                nvar += 1
                v = 'v%d' % nvar
                sub = [{'k': 'value'}] if kind == 'env' and (rng.random() < 0.7 or shape.get('k') == 'obj:BoxError') else []
                script.append({'s': 'get', 'rec': rng.choice(recs), 'key': key, 'via': rng.choice(['get_data', 'getitem']),
                               'sub': sub, 'var': v})
                shp = shape if (kind == 'raw' or sub) else ({'k': 'dict', 'l': ['value'], 'c': [shape]} if kind == 'env'
                                                            else {'k': 'dict', 'l': ['args', 'kwargs'], 'c': [{'k': 'list', 'l': [], 'c': []}, {'k': 'dict', 'l': [], 'c': []}]})
                handed.append((v, shp))
            elif c < 0.75 and handed:
                v, shp = rng.choice(handed)
                path, target = self.rand_path(rng, shp)
                others = [h[0] for h in handed if h[0] != v and h[0] not in embedded]
                emb = rng.choice(others) if others and rng.random() < 0.3 else None
                e = self.rand_edit(rng, target, emb)
                if 'x' in e and 'var' in e['x']:
                    embedded.add(e['x']['var'])
                    embedded.add(v)
                script.append({'s': 'mut', 'var': v, 'path': path, 'edit': e})
            elif c < 0.82:
                nvar += 1
                v = 'm%d' % nvar
                whole = rng.random() < 0.5
                script.append({'s': 'meta', 'rec': rng.choice(recs), 'var': v, 'whole': whole})
                handed.append((v, md_whole if whole else md))
                embedded.add(v)     # two get_metadata() of one object are the SAME dict: never embed it (cycles / sharing)
            elif c < 0.88 and handed:
                cand = [h[0] for h in handed if h[0] not in embedded]
                if cand:
                    v = rng.choice(cand)
                    embedded.add(v)
                    script.append({'s': 'set', 'rec': rng.choice(recs), 'key': rng.choice([k[0] for k in keys] + ['fresh']),
                                   'var': v})
                    aliased.add((script[-1]['rec'], script[-1]['key']))
            elif c < 0.93:
                nvar += 1
                v = 'c%d' % nvar
                t = self.rand_tree(rng, 2, mutable_top=True)
                script.append({'s': 'new', 'tree': t, 'var': v})
                handed.append((v, t))
            else:
                nplay += 1
                ns = 'p%d.' % nplay
                play = {'s': 'play', 'ns': ns}
                if rng.random() < 0.4:
                    # the playback function takes what it needs out of the recording's metadata
                    play['meta_edit'] = rng.choice([{'e': 'delitem', 'key': {'k': 'tag'}}, {'e': 'delitem', 'key': {'k': 'user'}},
                                                    {'e': 'setitem', 'key': {'k': 'tag'}, 'x': {'tree': {'a': 's:other'}}},
                                                    {'e': 'setitem', 'key': {'k': 'user'}, 'x': {'tree': {'k': 'list', 'l': [], 'c': []}}}])
                    # (not `clear`: play() itself reads the duration from the metadata of the object it handed out)
                script.append(play)
                recs.append(ns + 'orig')
                for st in body:
                    if st['s'] == 'in':
                        handed.append((ns + st['var'], st['tree']))
                    elif st['s'] == 'out':
                        handed.append((ns + st['var'], st['res']))
                # Playback.recorded_outputs[i].value, in the (sorted) key order of the fetched recording
                outs = sorted([(out_key(st['alias'], st['n']), st) for st in body if st['s'] == 'out'] + [(OP_OUT, None)],
                              key=lambda p: p[0])
                for i, (k, st) in enumerate(outs):
                    argshapes = [shapes[a] for a in st['args']] if st else [{'a': 's:done'}]
                    kwl = [kk for kk, _ in st['kw']] if st else []
                    kwshapes = [shapes[a] for _, a in st['kw']] if st else []
                    handed.append((ns + 'ro%d' % i, {'k': 'dict', 'l': ['args', 'kwargs'],
                                                     'c': [{'k': 'list', 'l': [], 'c': argshapes},
                                                           {'k': 'dict', 'l': kwl, 'c': kwshapes}]}))
        # --- final observations: every live object, a fresh fetch, a clean replay
        for r in list(recs):
            for key, kind, shape in keys:
                nvar += 1
                script.append({'s': 'get', 'rec': r, 'key': key, 'via': 'get_data', 'sub': [], 'var': 'f%d' % nvar})
        script.append({'s': 'fetch', 'rec': 'Rlast'})
        for key, kind, shape in keys:
            nvar += 1
            script.append({'s': 'get', 'rec': 'Rlast', 'key': key, 'via': 'getitem', 'sub': [], 'var': 'f%d' % nvar})
        script.append({'s': 'get', 'rec': 'Rlast', 'key': 'fresh', 'via': 'get_data', 'sub': [], 'var': 'ffresh'})
        script.append({'s': 'meta', 'rec': 'Rlast', 'var': 'mlast', 'whole': True})
        script.append({'s': 'lookup', 'filter': True})
        script.append({'s': 'play', 'ns': 'plast.', 'clean': True})
        script.append({'s': 'lookup', 'filter': False})
        return {'cassette': rng.choice(['mem', 'file', 's3']), 'copy': copy, 'body': body, 'md': md, 'script': script,
                # inputs intercepted through a (pass-through) data handler: copy-on-interception applies to them as well
                'handler_ins': [a for a in ins if rng.random() < 0.3 and not any(
                    st['s'] == 'in' and st['alias'] == a and st['tree'].get('k') == 'obj:BoxError' for st in body)]}

    def maybe_mut(self, rng, body, shapes, embedded, v, when_pool, p=0.6):
        if rng.random() > p or v in embedded:
            return
        path, target = self.rand_path(rng, shapes[v])
        others = [o for o in shapes if o != v and o not in embedded and o not in self._argused]
        emb = rng.choice(others) if others and rng.random() < 0.2 and not self._obj and v not in self._argused else None
        e = self.rand_edit(rng, target, emb)
        if 'x' in e and 'var' in e['x']:
            embedded.add(e['x']['var'])
            embedded.add(v)
        body.append({'s': 'mut', 'var': v, 'path': path, 'edit': e, 'when': rng.choice(when_pool)})

    # ------------------------------------------------------------------------------------------------------
    # the real code
    # ------------------------------------------------------------------------------------------------------
    def make_cassette(self, kind, tmp):
        if kind == 'mem':
            from playback.tape_cassettes.in_memory.in_memory_tape_cassette import InMemoryTapeCassette
            return InMemoryTapeCassette()
        if kind == 'file':
            from playback.tape_cassettes.file_based.file_based_tape_cassette import FileBasedTapeCassette
            return FileBasedTapeCassette(os.path.join(tmp, 'cassette'))
        from harness import fake_s3
        fake_s3.install()
        fake_s3.reset()
        from playback.tape_cassettes.s3.s3_tape_cassette import S3TapeCassette
        return S3TapeCassette('bucket-c11', key_prefix='pre', read_only=False)

    def run_impl(self, case):
        if case.get('kind') == 'fragile':
            return self.run_fragile(case)
        if case.get('kind') == 'ctxhandler':
            return self.run_ctxhandler(case)
        from playback.tape_recorder import TapeRecorder, RecordingParameters
        tmp = tempfile.mkdtemp(prefix='c11')
        try:
            cassette = self.make_cassette(case['cassette'], tmp)
            tr = TapeRecorder(cassette)
            tr.enable_recording()
            body = case['body']
            env = {'phase': 'rec', 'ns': '', 'vars': {}, 'obs': [], 'snap': {}, 'md': to_py(case['md'])}
            obs = env['obs']

            def emit(tag, val):
                obs.append({'tag': tag, 'val': val})

            class Op(object):
                @tr.operation(metadata_extractor=lambda self: {'tag': 't', 'user': env['md']})
                def run(self):
                    variables, ns, phase = env['vars'], env['ns'], env['phase']
                    for st in body:
                        s = st['s']
                        if s == 'in':
                            env['build'] = st['tree']
                            try:
                                v = getattr(self, 'in_' + st['alias'])()
                            except BoxError as ex:      # the input failed; the operation handles (and keeps) the exception
                                v = ex
                            variables[ns + st['var']] = v
                            if phase == 'rec':
                                env['snap'][in_key(st['alias'])] = {'k': 'dict', 'l': ['value'], 'c': [from_py(v)]}
                            else:
                                emit(['inject', in_key(st['alias'])], from_py(v))
                        elif s == 'new':
                            variables[ns + st['var']] = to_py(st['tree'])
                        elif s == 'out':
                            args = [variables[ns + a] for a in st['args']]
                            kw = {k: variables[ns + a] for k, a in st['kw']}
                            if phase == 'rec':
                                env['snap'][out_key(st['alias'], st['n'])] = from_py({'args': list(args), 'kwargs': kw})
                            env['build'] = st['res']
                            r = getattr(self, 'out_' + st['alias'])(*args, **kw)
                            variables[ns + st['var']] = r
                            if phase == 'rec':
                                env['snap'][res_key(st['alias'], st['n'])] = {'k': 'dict', 'l': ['value'], 'c': [from_py(r)]}
                            else:
                                emit(['result', res_key(st['alias'], st['n'])], from_py(r))
                        elif s == 'mut':
                            if (phase in ('rec', 'rep') and st['when'] in (phase, 'both')):
                                step = dict(st, var=ns + st['var'])
                                if 'x' in st['edit'] and 'var' in st['edit']['x']:
                                    step['edit'] = dict(st['edit'], x=dict(st['edit']['x'], var=ns + st['edit']['x']['var']))
                                emit(['mut', phase], apply_edit(variables, step))
                        elif s == 'rec_data':
                            tr.record_data(st['key'], variables[ns + st['var']])
                        elif s == 'play_data':
                            v = tr.play_data(st['key'])
                            variables[ns + st['var']] = v
                            if phase != 'rec':
                                emit(['play_data', st['key']], from_py(v))
                    return 'done'

            from playback.interception.input_interception import InputInterceptionDataHandler

            class PassThrough(InputInterceptionDataHandler):
                """a data handler that records the value it is given as it is (so what is recorded still references the live
                value unless the recorder copies it) and hands the recorded value back on replay"""

                def prepare_input_for_recording(self, interception_key, result, args, kwargs):
                    return result

                def restore_input_from_recording(self, recorded_data, args, kwargs):
                    return recorded_data

            def mk_in(alias):
                @(tr.intercept_input(alias, data_handler=PassThrough()) if alias in case.get('handler_ins', [])
                  else tr.intercept_input(alias))
                def f(self):
                    v = to_py(env['build'])
                    if isinstance(v, BoxError):
                        raise v
                    return v
                return f

            def mk_out(alias):
                @tr.intercept_output(alias)
                def f(self, *args, **kwargs):
                    return to_py(env['build'])
                return f
            for alias in ('in1', 'in2', 'in3'):
                setattr(Op, 'in_' + alias, mk_in(alias))
            for alias in ('out1', 'out2'):
                setattr(Op, 'out_' + alias, mk_out(alias))
            tr.recording_params(RecordingParameters(copy_data_on_intercepion=case['copy']))(Op)

            # ---- record
            Op().run()
            tr.disable_recording()
            ids = cassette.get_all_recording_ids() if case['cassette'] == 'mem' else list(cassette.iter_recording_ids('Op'))
            if len(ids) != 1:
                return {'obs': obs, 'snap': env['snap'], 'error': 'recording not saved'}
            rid = ids[0]
            # ---- read phase
            variables = env['vars']          # the service keeps its objects; read-phase names are distinct
            recs = {}
            setkeys = set()                   # (rec name, key) that were overwritten by the client
            for st in case['script']:
                s = st['s']
                if s in ('get', 'meta', 'set', 'direct') and recs.get(st['rec']) is None:
                    emit(['skipped', s], '<no recording object: the replay that should have produced it failed>')
                    continue
                if s == 'fetch':
                    recs[st['rec']] = cassette.get_recording(rid)
                elif s == 'get':
                    rec = recs[st['rec']]
                    try:
                        v = rec.get_data(st['key']) if st['via'] == 'get_data' else rec[st['key']]
                    except Exception as ex:
                        emit(['get', st['rec'], st['key'], 'error'], type(ex).__name__)
                        continue
                    ok, v = navigate(v, st['sub'])
                    if ok:
                        variables[st['var']] = v
                    emit(['get', st['rec'], st['key'], 'sub' if st['sub'] else 'whole',
                          'overwritten' if (id(rec), st['key']) in setkeys else 'stored'],
                         norm_env(from_py(v)) if ok else '<none>')
                elif s == 'meta':
                    m = recs[st['rec']].get_metadata()
                    whole = from_py(user_metadata(m))
                    if st.get('whole'):
                        variables[st['var']] = m
                        emit(['meta', st['rec']], whole)
                    else:
                        if 'user' in m:
                            variables[st['var']] = m['user']
                        emit(['meta', st['rec']], from_py(m['user']) if 'user' in m else '<none>')
                    obs[-1]['whole'] = whole
                elif s == 'lookup':
                    try:
                        found = list(cassette.iter_recording_ids('Op', metadata={'tag': 't'} if st['filter'] else None))
                        emit(['lookup', st['filter']], TAG if found == [rid] else '<found %d recordings>' % len(found))
                    except Exception as ex:
                        emit(['lookup', st['filter']], 'raised ' + type(ex).__name__)
                elif s == 'direct':
                    rec = recs[st['rec']]
                    try:
                        stored = rec.get_data_direct(st['key'])
                    except Exception as ex:
                        emit(['get', st['rec'], st['key'], 'error'], type(ex).__name__)
                        emit(['mut', 'direct'], False)
                        continue
                    emit(['get', st['rec'], st['key'], 'whole',
                          'overwritten' if (id(rec), st['key']) in setkeys else 'stored'], norm_env(from_py(stored)))
                    variables['$direct'] = stored
                    emit(['mut', 'direct'], apply_edit(variables, {'var': '$direct', 'path': st['path'], 'edit': st['edit']}))
                    setkeys.add((id(rec), st['key']))
                elif s == 'set':
                    rec = recs[st['rec']]
                    if st['var'] in variables:
                        rec[st['key']] = variables[st['var']]
                        setkeys.add((id(rec), st['key']))
                elif s == 'new':
                    variables[st['var']] = to_py(st['tree'])
                elif s == 'mut':
                    emit(['mut', 'read'], apply_edit(variables, st))
                elif s == 'obs':
                    emit(['obs', st['var']], from_py(variables[st['var']]))
                elif s == 'play':
                    # 'repc': a replay whose replayed code mutates nothing
                    env['phase'], env['ns'] = ('repc' if st.get('clean') else 'rep'), st['ns']

                    def playback_function(recording, st=st):
                        if st.get('meta_edit'):
                            m = recording.get_metadata()
                            emit(['meta', st['ns'] + 'orig'], from_py(user_metadata(m)))
                            obs[-1]['whole'] = obs[-1]['val']
                            variables[st['ns'] + '$m'] = m
                            emit(['mut', 'playmeta'], apply_edit(variables, {'var': st['ns'] + '$m', 'path': [],
                                                                              'edit': st['meta_edit']}))
                        return Op().run()
                    try:
                        pb = tr.play(rid, playback_function)
                    except Exception as ex:      # the property says a replay of a stored recording keeps working
                        emit(['play-error', st['ns']], 'replay raised ' + type(ex).__name__)
                        recs[st['ns'] + 'orig'] = None
                        continue
                    finally:
                        env['phase'] = 'rec'
                    recs[st['ns'] + 'orig'] = pb.original_recording
                    for i, o in enumerate(pb.recorded_outputs):
                        variables[st['ns'] + 'ro%d' % i] = o.value
                        emit(['recorded_output', o.key], from_py(o.value))
            return {'obs': obs, 'snap': env['snap']}
        finally:
            shutil.rmtree(tmp, ignore_errors=True)

    # ------------------------------------------------------------------------------------------------------
    # the model
    # ------------------------------------------------------------------------------------------------------
    def compile_body(self, case, phase, ns, steps):
        """driver steps for one run of the operation body; phase 'rec' | 'rep' | 'repc' (replay without mutations)"""
        body = case['body']
        for st in body:
            s = st['s']
            if s == 'in':
                if phase == 'rec':
                    steps.append({'op': 'new', 'tree': st['tree'], 'var': st['var']})
                    steps.append({'op': 'recordIn', 'key': in_key(st['alias']), 'var': st['var']})
                else:
                    steps.append({'op': 'get', 'rec': ns + 'orig', 'key': in_key(st['alias']), 'sub': [{'k': 'value'}],
                                  'var': ns + st['var']})
            elif s == 'new':
                steps.append({'op': 'new', 'tree': st['tree'], 'var': ns + st['var']})
            elif s == 'out':
                if phase == 'rec':
                    steps.append({'op': 'recordOut', 'key': out_key(st['alias'], st['n']), 'args': st['args'],
                                  'kwl': [k for k, _ in st['kw']], 'kwv': [a for _, a in st['kw']]})
                    steps.append({'op': 'new', 'tree': st['res'], 'var': st['var']})
                    steps.append({'op': 'recordIn', 'key': res_key(st['alias'], st['n']), 'var': st['var']})
                else:
                    steps.append({'op': 'get', 'rec': ns + 'orig', 'key': res_key(st['alias'], st['n']),
                                  'sub': [{'k': 'value'}], 'var': ns + st['var']})
            elif s == 'mut':
                fires = st['when'] in ('rec', 'both') if phase == 'rec' else (phase == 'rep' and st['when'] in ('rep', 'both'))
                if fires:
                    e = st['edit']
                    if 'x' in e and 'var' in e['x']:
                        e = dict(e, x=dict(e['x'], var=ns + e['x']['var']))
                    steps.append({'op': 'mut', 'var': ns + st['var'], 'path': st['path'], 'edit': e})
            elif s == 'rec_data':
                if phase == 'rec':
                    steps.append({'op': 'recordRaw', 'key': st['key'], 'var': st['var']})
            elif s == 'play_data':
                if phase == 'rec':
                    steps.append({'op': 'new', 'tree': {'a': 'None'}, 'var': st['var']})
                else:
                    steps.append({'op': 'get', 'rec': ns + 'orig', 'key': st['key'], 'sub': [], 'var': ns + st['var']})

    def model_requests(self, case):
        if case.get('kind') in ('fragile', 'ctxhandler'):
            return []
        steps = []
        self.compile_body(case, 'rec', '', steps)
        steps.append({'op': 'new', 'tree': {'a': 's:done'}, 'var': '$ret'})
        steps.append({'op': 'recordOut', 'key': OP_OUT, 'args': ['$ret'], 'kwl': [], 'kwv': []})
        steps.append({'op': 'save', 'md': {'k': 'dict', 'l': ['tag', 'user'], 'c': [TAG, case['md']]}})
        nlook = 0
        out_keys = sorted([out_key(st['alias'], st['n']) for st in case['body'] if st['s'] == 'out'] + [OP_OUT])
        for st in case['script']:
            s = st['s']
            if s == 'fetch':
                steps.append({'op': 'fetch', 'id': 0, 'rec': st['rec']})
            elif s == 'get':
                steps.append({'op': 'get', 'rec': st['rec'], 'key': st['key'], 'sub': st['sub'], 'var': st['var']})
            elif s == 'meta':
                steps.append({'op': 'meta', 'rec': st['rec'], 'sub': [] if st.get('whole') else [{'k': 'user'}],
                              'var': st['var']})
            elif s == 'lookup':
                # a lookup decodes the stored text and matches its metadata: what it sees is the tag of a fresh decode
                nlook += 1
                steps.append({'op': 'fetch', 'id': 0, 'rec': '$lookup%d' % nlook})
                steps.append({'op': 'meta', 'rec': '$lookup%d' % nlook, 'sub': [{'k': 'tag'}], 'var': '$tag%d' % nlook})
            elif s == 'direct':
                # in-place mutation of the stored object of ONE fetched recording: observably (no object is stored under
                # two keys in these cases) the same as read a copy, mutate it, put it back on that object
                nlook += 1
                v = '$direct%d' % nlook
                steps.append({'op': 'get', 'rec': st['rec'], 'key': st['key'], 'sub': [], 'var': v})
                steps.append({'op': 'mut', 'var': v, 'path': st['path'], 'edit': st['edit']})
                steps.append({'op': 'set', 'rec': st['rec'], 'key': st['key'], 'var': v})
            elif s == 'set':
                steps.append({'op': 'set', 'rec': st['rec'], 'key': st['key'], 'var': st['var']})
            elif s == 'new':
                steps.append({'op': 'new', 'tree': st['tree'], 'var': st['var']})
            elif s == 'mut':
                steps.append({'op': 'mut', 'var': st['var'], 'path': st['path'], 'edit': st['edit']})
            elif s == 'obs':
                steps.append({'op': 'obs', 'var': st['var']})
            elif s == 'play':
                ns = st['ns']
                steps.append({'op': 'fetch', 'id': 0, 'rec': ns + 'orig'})
                if st.get('meta_edit'):
                    steps.append({'op': 'meta', 'rec': ns + 'orig', 'sub': [], 'var': ns + '$m'})
                    steps.append({'op': 'mut', 'var': ns + '$m', 'path': [], 'edit': st['meta_edit']})
                self.compile_body(case, 'repc' if st.get('clean') else 'rep', ns, steps)
                for i, k in enumerate(out_keys):
                    steps.append({'op': 'get', 'rec': ns + 'orig', 'key': k, 'sub': [], 'var': ns + 'ro%d' % i})
        return [{'m': 'c11.run', 'copy': case['copy'], 'direct': False, 'steps': steps}]

    def model_transcript(self, case, answers):
        if case.get('kind') in ('fragile', 'ctxhandler'):
            return None
        return [canon_tree(x) for x in answers[0]]

    def impl_view(self, case, impl):
        if case.get('kind') in ('fragile', 'ctxhandler'):
            return None
        if 'error' in impl:
            return impl['error']
        return [o['val'] for o in impl['obs']]

    # ------------------------------------------------------------------------------------------------------
    # the property, stated directly
    # ------------------------------------------------------------------------------------------------------
    def oracle(self, case, impl):
        if case.get('kind') == 'ctxhandler':
            if 'error' in impl:
                return ['data handler embedding a live object: ' + impl['error']]
            fails = []
            for i, (stored, at_call) in enumerate(zip(impl['stored'], impl['at_call'])):
                if stored != at_call:
                    fails.append('copy-on-interception: input %d went through a data handler whose prepared form holds the result and a live '
                                 '%s; both were changed after the interception; the recording holds %r, at the interception they were %r'
                                 % (i, case['embed'], stored, at_call))
            return fails
        if case.get('kind') == 'fragile':
            fails = []
            for i, r in enumerate(impl['reads']):
                if r[1] == 'items' and r[2] != case['items']:
                    fails.append('stored value whose copy fails: read %d (%s) handed out items %r, the recording was saved with %r '
                                 '(reads so far: %r)' % (i, r[0], r[2], case['items'], impl['reads'][:i]))
            return fails
        if 'error' in impl:
            return ['recording was not saved: ' + impl['error']]
        fails = []
        seen = {}        # (key, sub/whole) -> first stored value observed
        first = {}
        metas = {}

        def check(key, part, val, where):
            k = (key, part)
            if k in seen and seen[k] != val:
                fails.append('stability: key %r (%s) was read as %s and later (%s) as %s'
                             % (key, part, json.dumps(seen[k]), where, json.dumps(val)))
            seen.setdefault(k, val)
            first.setdefault(k, where)

        for o in impl['obs']:
            tag, val = o['tag'], o['val']
            if tag[0] == 'get' and tag[-1] == 'stored':
                check(tag[2], tag[3], val, 'get on %s' % tag[1])
            elif tag[0] in ('inject', 'result'):
                check(tag[1], 'sub', val, 'replay injection')
            elif tag[0] == 'play_data':
                check(tag[1], 'whole', val, 'play_data')
            elif tag[0] == 'recorded_output':
                check(tag[1], 'whole', val, 'Playback.recorded_outputs')
            elif tag[0] == 'meta':
                # the FIRST get_metadata() of each fetched object; later ones on the same object are the live dict (no claim)
                if tag[1] not in metas:
                    metas[tag[1]] = o.get('whole', val)
            elif tag[0] == 'lookup' and val != TAG:
                fails.append('independence: a later lookup%s no longer finds the stored recording (%s)'
                             % (' by recorded metadata' if tag[1] else '', val))
            elif tag[0] == 'play-error':
                fails.append('independence: a later replay of the stored recording failed: %s' % val)
        if len({json.dumps(v, sort_keys=True) for v in metas.values()}) > 1:
            fails.append('independence: metadata of different fetches differs: %s' % json.dumps(metas, sort_keys=True))
        if case['copy']:
            for key, snap in impl['snap'].items():
                got = seen.get((key, 'whole'))
                if got is None and (key, 'sub') in seen and snap.get('l') == ['value']:
                    got, snap = seen[(key, 'sub')], snap['c'][0]
                if got is None or got == snap:
                    continue
                if key.endswith('.output'):
                    fails.append('copy-on-interception (output arguments): key %r recorded %s but the arguments at the call '
                                 'were %s' % (key, json.dumps(got), json.dumps(snap)))
                else:
                    fails.append('copy-on-interception: key %r recorded %s but the value captured was %s'
                                 % (key, json.dumps(got), json.dumps(snap)))
        return fails

    def known_finding(self, case, failures):
        """K4 matches ONLY: copy-on-interception enabled, every failure is about the ARGUMENTS of an output call, and the
        recorded body does mutate (at record time) after an output call."""
        if not case.get('copy') or not failures:
            return None
        if not all(f.startswith('copy-on-interception (output arguments)') for f in failures):
            return None
        seen_out = False
        for st in case['body']:
            if st['s'] == 'out':
                seen_out = True
            elif st['s'] == 'mut' and seen_out and st['when'] in ('rec', 'both'):
                return 'output-args-not-copied'
        return None

    # ------------------------------------------------------------------------------------------------------
    def nontrivial(self, case, impl):
        if case.get('kind') in ('fragile', 'ctxhandler'):
            return True
        return 'obs' in impl and any(o['tag'][0] == 'mut' and o['val'] is True for o in impl['obs'])

    def features(self, case, impl):
        if case.get('kind') == 'ctxhandler':
            return ['cassette:' + case['cassette'], 'handler-embeds-live-%s' % case['embed'], 'copy:%s' % case['copy']]
        if case.get('kind') == 'fragile':
            return ['cassette:' + case['cassette'], 'stored-value-whose-copy-fails' if case.get('cls', 'fragile') == 'fragile' else 'stored-value-with-own-deepcopy'] + ['fragile-read:%s:%s' % (r[0], r[1]) for r in impl['reads']]
        out = ['cassette:' + case['cassette'], 'copy:%s' % case['copy']]
        if 'obs' not in impl:
            return out
        for o in impl['obs']:
            t = o['tag']
            if t[0] == 'mut':
                out.append('mut-%s:%s' % (t[1], 'applied' if o['val'] else 'noop'))
            elif t[0] == 'get':
                out.append('read:get' if t[-1] != 'error' else 'read:keyerror')
            else:
                out.append('read:' + t[0])
        for st in case['body'] + case['script']:
            if st['s'] == 'mut':
                out.append('edit:' + st['edit']['e'])
                if 'x' in st['edit'] and 'var' in st['edit']['x']:
                    out.append('edit:embeds-existing-object')
            elif st['s'] in ('set', 'play', 'fetch', 'lookup', 'direct'):
                out.append('step:' + st['s'])
                if st.get('meta_edit'):
                    out.append('step:play-function-edits-metadata')
        return out

    def sample_repr(self, case):
        if case.get('kind') in ('fragile', 'ctxhandler'):
            return case
        return {'cassette': case['cassette'], 'copy': case['copy'], 'body': case['body'][:6], 'script': case['script'][:8]}

    def shrink(self, case):
        if case.get('kind') in ('fragile', 'ctxhandler'):
            return
        sc = case['script']
        for i in range(len(sc)):
            if sc[i]['s'] in ('mut', 'set', 'new', 'meta', 'obs', 'lookup', 'direct') or (sc[i]['s'] == 'get'):
                used = sc[i].get('var')
                rest = sc[:i] + sc[i + 1:]
                if sc[i]['s'] in ('get', 'new', 'meta') and any(self.uses(s, used) for s in rest):
                    continue
                yield dict(case, script=rest)
        body = case['body']
        for i in range(len(body)):
            if body[i]['s'] == 'mut':
                yield dict(case, body=body[:i] + body[i + 1:])
        if case['cassette'] != 'mem':
            yield dict(case, cassette='mem')

    @staticmethod
    def uses(step, var):
        if step.get('var') == var and step['s'] in ('mut', 'set', 'obs'):
            return True
        e = step.get('edit')
        return bool(e and 'x' in e and e['x'].get('var') == var)

    def targeted(self, case, rng):
        return [self.gen_case(rng) for _ in range(200)]


PROP = C11
