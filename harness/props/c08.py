"""C08 - Every recording gets exactly one, correctly attributed verdict (DESIGN.md section 6, C08).

The REAL `Equalizer` runs scripted players in real worker processes (one subprocess of `harness/equalizer_runner.py`
per sequence, spread over the cores); the Lean model (`PlaybackModel/Equalizer.lean`, handler `c08.run`) runs the same
sequence; the comparisons are compared field by field.  The oracle restates the property directly.
"""
import json
import os
import subprocess
import sys
from multiprocessing.pool import ThreadPool

from harness.engine import Prop, InfraError, VERIF, REPO

RUNNER = os.path.join(VERIF, 'harness', 'equalizer_runner.py')
KILL_DELAY = 1.5           # keep in step with equalizer_runner.KILL_DELAY
STATUSES = ['Equal', 'Fixed', 'Different', 'Failed', 'EqualizerFailure']
DIED = 'playback process have died'
TIMEOUT = 'timeout while running recording playback and comparison'
FAULTY = ('exit', 'hang', 'late')          # the worker does not answer in time
INPROC_OK = ('verdict', 'bare', 'playerRaises', 'extractorRaises', 'comparatorRaises')


# ----------------------------------------------------------------------------------------------------------------
# shared by C08 and C13
# ----------------------------------------------------------------------------------------------------------------
def polls_of(timeout):
    return int(timeout) + 1


def seq_seconds(case, mode):
    """expected wall time of one runner subprocess (used for the subprocess time-out only)"""
    if mode == 'inproc':
        return 2.0
    kd = KILL_DELAY if any(b['k'] == 'late' for b in case['beh'].values()) else 0.0
    t = 2.0
    for i in case['ids']:
        k = case['beh'][i]['k']
        if k == 'exit':
            t += 1.2
        elif k in ('hang', 'late'):
            t += polls_of(case['timeout']) + kd + 0.3
        else:
            t += 0.1
    return t


def run_runner(case, mode):
    """one subprocess = one sequence on the real Equalizer; a time-out of the subprocess is an infrastructure error"""
    sub = dict(case, mode=mode)
    env = dict(os.environ, VERIF_REPO=REPO)
    limit = seq_seconds(case, mode) * 2 + 90
    try:
        p = subprocess.run([sys.executable, RUNNER], input=json.dumps(sub), capture_output=True, text=True,
                           timeout=limit, env=env)
    except subprocess.TimeoutExpired:
        return {'_harness_error': 'equalizer_runner exceeded %.0f s on %s' % (limit, json.dumps(sub)[:600])}
    if p.returncode != 0 or not p.stdout.strip():
        return {'_harness_error': 'equalizer_runner rc=%s\n%s' % (p.returncode, p.stderr[-3000:])}
    try:
        return json.loads(p.stdout)
    except ValueError:
        return {'_harness_error': 'equalizer_runner printed no JSON: %r' % p.stdout[-500:]}


def realise(case, tr):
    """What the scripted timing really turned into on this run.  `late` means "answers after the parent gave up and
    before the kill lands"; whether that happened is read off the run itself (the runner logs when each player call
    ended and when the parent gave up / sent the kill), because a loaded machine can stall a process for seconds:
      * a `late` whose answer the parent still received in its wait loop (the parent never gave up) was an ordinary,
        slow verdict; a `late` that was killed before its player returned was a hang;
      * an answering behaviour whose player demonstrably returned only after the parent had given up was late / a hang.
    An answer that was there in time and was not used is never re-interpreted.  Returns {id: behaviour} or None when
    the same id would need two different behaviours (the case is then skipped)."""
    beh, ids = case['beh'], case['ids']
    giveup = {g[0]: (g[1], g[2]) for g in tr.get('giveups', [])}
    eff = {}
    for pos, task in enumerate(tr.get('tasks', [])):
        rid, t_answer = task[0], task[3]
        if pos >= len(ids) or ids[pos] != rid:
            break
        b = beh[rid]
        k, g, new = b['k'], giveup.get(pos), None
        if k == 'late':
            if g is None and pos < len(tr['comparisons']):
                new = {'k': 'verdict', 's': b['s'], 'm': b['m']}
            elif g is not None and (t_answer is None or t_answer > g[1] - 0.1):
                new = {'k': 'hang'}
        elif k in INPROC_OK and g is not None and t_answer is not None and t_answer > g[0] - 0.05:
            new = {'k': 'late', 's': b['s'], 'm': b['m']} if k == 'verdict' and t_answer < g[1] - 0.1 else {'k': 'hang'}
        if new is not None:
            if ids[:len(tr['tasks'])].count(rid) > 1:
                return None
            eff[rid] = new
    return eff


def eff_beh(case):
    """behaviours as realised on the last run of this case (see `realise`)"""
    return dict(case['beh'], **case.get('_eff', {}))


def view_beh(case, mode):
    """behaviours as the model / the independent statement see them.  `unreadable`: the replay succeeds and the verdict is
    reached, but the result (it carries a replayed value that pickles in the worker and cannot be unpickled by the parent)
    cannot be read back from a dedicated worker: in-process an ordinary verdict, from a worker a framework failure - with the
    worker alive, its replay counted"""
    src = eff_beh(case) if mode == 'ded' else case['beh']
    out = {}
    for rid, b in src.items():
        if b['k'] == 'unreadable':
            b = dict(b, err='unreadable ' + rid)        # the text of the parent's unpickling error
        out[rid] = b
    return out


def modes_of(case):
    return ['ded', 'inproc'] if case['mode'] == 'both' else [case['mode']]


def run_case(case):
    out = {}
    for mode in modes_of(case):
        r = run_runner(case, mode)
        if '_harness_error' in r:
            return r
        out[mode] = r
    if 'ded' in out:
        out['realised'] = realise(case, out['ded'])
    return out


def note_realised(case, impl):
    case.pop('_eff', None)
    case.pop('_skip', None)
    if isinstance(impl, dict) and 'ded' in impl:
        if impl.get('realised') is None:
            case['_skip'] = True
        elif impl['realised']:
            case['_eff'] = impl['realised']


def run_all(cases, threads=16):
    if not cases:
        return []
    with ThreadPool(min(threads, len(cases))) as pool:
        impls = pool.map(run_case, cases)
    for c, i in zip(cases, impls):
        note_realised(c, i)
    return impls


SKIPPED = {'skipped': 'the scripted timing was not realised on this run (machine stall); case not judged'}


def id_numbers(case):
    """recording ids are renamed 0,1,2… in order of first occurrence"""
    num = {}
    for i in case['ids']:
        num.setdefault(i, len(num))
    return num


def model_request(case, mode, handler):
    num = id_numbers(case)
    req = {'m': handler, 'mode': mode, 'keep': case['keep'], 'rate': case['rate'],
           'timeoutMs': int(round(case['timeout'] * 1000)),
           'tasks': [[num[i], view_beh(case, mode)[i]] for i in case['ids']]}
    consume = case.get('consume', ['all'])
    if consume[0] != 'all':
        req['k'] = consume[1]
    return req


def model_comparisons(case, answer):
    name = {v: k for k, v in id_numbers(case).items()}
    out = []
    for c in answer['comparisons']:
        out.append({'id': name[c['id']], 'status': c['status'], 'message': c['message'],
                    'playback': None if c['playback'] is None else name[c['playback']],
                    'expected': None if c['expected'] is None else [c['expected'][0], name[c['expected'][1]]],
                    'actual': None if c['actual'] is None else [c['actual'][0], name[c['actual'][1]]],
                    'flags': c['flags']})
    return out


def spec_comparison(case, mode, rid):
    """Independent statement of 'the verdict and attached replay of that recording alone'."""
    b = view_beh(case, mode)[rid]
    k, keep = b['k'], case['keep']
    kept = (['rec', rid], ['act', rid]) if keep else (None, None)

    def failure(msg, playback):
        return {'id': rid, 'status': 'EqualizerFailure', 'message': msg, 'playback': playback}
    if mode == 'ded' and k in FAULTY:
        # a framework failure without a replay; the wording of the message is the model's business, not the property's
        return {'id': rid, 'status': 'EqualizerFailure', 'playback': None, 'expected': None, 'actual': None, 'message': Ellipsis}
    if k in ('verdict', 'late'):
        return {'id': rid, 'status': b['s'], 'message': b['m'], 'playback': rid, 'expected': kept[0], 'actual': kept[1]}
    if k == 'bare':
        return {'id': rid, 'status': b['s'], 'message': None, 'playback': rid, 'expected': kept[0], 'actual': kept[1]}
    if k == 'playerRaises':
        return failure(b['m'], None)
    if k == 'unreadable':
        return failure(b['err'], None)
    if k == 'extractorRaises':
        # with kept results the parent's own re-extraction raises too: the outer handler reports it without a replay
        return failure(b['m'], None if keep else rid)
    if k == 'comparatorRaises':
        d = failure(b['m'], rid)
        d['expected'], d['actual'] = kept
        return d
    raise ValueError(k)


def expected_count(case):
    consume = case.get('consume', ['all'])
    return len(case['ids']) if consume[0] == 'all' else min(consume[1], len(case['ids']))


def attribution_failures(case, mode, tr):
    fails = []
    ids = case['ids']
    got = tr['comparisons']
    n = expected_count(case)
    if tr.get('overdue') is not None:
        fails.append('%s: the comparison at position %d never arrived (watchdog)' % (mode, tr['overdue']))
        return fails
    if [c['id'] for c in got] != ids[:n]:
        fails.append('%s: comparisons are labelled %r, the ids were %r' % (mode, [c['id'] for c in got], ids[:n]))
        return fails
    for pos, c in enumerate(got):
        want = spec_comparison(case, mode, c['id'])
        for f in ('status', 'message', 'playback', 'expected', 'actual'):
            if want.get(f) is Ellipsis:
                continue
            if c.get(f) != want.get(f):
                fails.append('%s: position %d (%s, %s): %s is %r, alone it is %r'
                             % (mode, pos, c['id'], eff_beh(case)[c['id']]['k'], f, c.get(f), want.get(f)))
        if c['playback'] not in (None, c['id']):
            fails.append('%s: position %d: the comparison labelled %s carries the replay of %s'
                         % (mode, pos, c['id'], c['playback']))
    return fails


def mk_beh(kind, rid, rng=None, status=None):
    if kind == 'verdict':
        return {'k': 'verdict', 's': status or 'Equal', 'm': 'for ' + rid}
    if kind == 'bare':
        return {'k': 'bare', 's': status or 'Fixed'}
    if kind == 'late':
        return {'k': 'late', 's': status or 'Equal', 'm': 'late ' + rid}
    if kind == 'unreadable':
        return {'k': 'unreadable', 's': status or 'Equal', 'm': 'for ' + rid}
    if kind in ('playerRaises', 'extractorRaises', 'comparatorRaises'):
        return {'k': kind, 'm': '%s %s' % (kind[:-6], rid)}
    if kind == 'hangTermIgnored':      # a hang (the model's `hang`) of a player that ignores SIGTERM
        return {'k': 'hang', 'sigterm': 'ignore'}
    if kind == 'hangTermHandled':      # … or has installed a graceful-shutdown handler for it
        return {'k': 'hang', 'sigterm': 'handler'}
    return {'k': kind}


def mk_case(ids, kinds, mode, keep, rate, timeout, consume=('all',), rng=None):
    beh = {}
    for i, k in zip(ids, kinds):
        if i not in beh:
            st = rng.choice(STATUSES[:4]) if rng else None
            beh[i] = mk_beh(k, i, status=st)
            if rng and k in ('verdict', 'bare', 'late', 'comparatorRaises', 'unreadable') and rng.random() < 0.35:
                beh[i]['cd'] = True       # this recording carries comparison data of its own (a tolerance); the others none
            if rng and k in ('verdict', 'bare') and rng.random() < 0.12:
                # the replayed code does part of its work in a child process of its own (multiprocessing): invisible in the
                # verdict, in-process and in a dedicated worker alike
                beh[i]['child'] = True
    if any(b['k'] == 'late' for b in beh.values()) and float(timeout) == int(timeout):
        timeout = timeout + 0.5     # whole-second time-outs make the number of polls depend on microseconds
    if mode == 'both' and not all(b['k'] in INPROC_OK for b in beh.values()):
        mode = 'ded'
    return {'ids': list(ids), 'beh': beh, 'mode': mode, 'keep': keep, 'rate': rate, 'timeout': timeout,
            'consume': list(consume)}


def shrink_case(case):
    case = {k: v for k, v in case.items() if not k.startswith('_')}
    ids = case['ids']
    for i in range(len(ids)):
        rest = ids[:i] + ids[i + 1:]
        if rest:
            c = dict(case, ids=rest, beh={k: v for k, v in case['beh'].items() if k in rest})
            if c.get('consume', ['all'])[0] != 'all':
                c['consume'] = [c['consume'][0], min(c['consume'][1], len(rest))]
            yield c
    for i in sorted(case['beh']):
        if case['beh'][i]['k'] != 'verdict':
            yield dict(case, beh=dict(case['beh'], **{i: mk_beh('verdict', i)}))
    if case['keep']:
        yield dict(case, keep=False)


# ----------------------------------------------------------------------------------------------------------------
class C08(Prop):
    ID = 'C08'
    CORRESPONDENCE = 'PlaybackModel.Equalizer.runDedT / runInProc vs Equalizer.run_comparison over scripted players'
    RULE = ('one case = one sequence of 3-8 recording ids with a scripted behaviour per id (verdict, bare status, player / '
            'extractor / comparator raises, worker exits, hangs, answers late, a result the parent cannot unpickle; a third of the recordings carry comparison data of their own which the comparator checks; ~12% of the answering '
            'replays do part of their work in a multiprocessing child of their own), run on the real Equalizer in real worker '
            'processes (and in-process when meaningful); non-trivial = the sequence contains a failure of some kind; '
            'distinct = distinct canonical case')
    TRUSTED = ['correspondence harness harness/props/c08.py + harness/equalizer_runner.py + Lean driver (Drive/Equalizer.lean)',
               'multiprocessing: FIFO queues deliver what a live worker puts, is_alive, SIGKILL kills, fork semantics '
               '(exercised on every run, not proved)',
               'time is abstracted to the parent\'s 1 s polls; "late" is realised by a harness subclass delaying '
               '_kill_compare_process (a legal schedule of the parent)']
    ASSUMPTIONS = ['player, extractor and comparator are functions of the recording id (scripted); results are picklable']
    PARALLEL = 16
    TIME_BUDGET = {'quick': 400, 'thorough': 3000}

    def generate(self, rng, tier):
        cases = []

        def fill(n, spots):
            """n ids, `spots` = {position: kind}; the rest are plain verdicts"""
            ids = ['r%d' % i for i in range(n)]
            kinds = [spots.get(i, 'verdict') for i in range(n)]
            return ids, kinds
        kinds7 = ['playerRaises', 'extractorRaises', 'comparatorRaises', 'bare', 'exit', 'hang', 'late', 'unreadable']
        # every behaviour at first / middle / last position
        for k in kinds7:
            for where in ('first', 'middle', 'last'):
                n = rng.randint(3, 6)
                pos = {'first': 0, 'middle': rng.randint(1, n - 2), 'last': n - 1}[where]
                ids, kinds = fill(n, {pos: k})
                cases.append(mk_case(ids, kinds, 'both', rng.random() < .5, rng.randint(1, 4), 0.5, rng=rng))
        # consecutive faults, faults on recycle boundaries, repeated ids
        combos = [['late', 'late'], ['hang', 'exit'], ['exit', 'late'], ['late', 'hang', 'exit'],
                  ['extractorRaises', 'late'], ['late', 'extractorRaises']]
        for combo in combos[:3 if tier == 'quick' else len(combos)]:
            n = len(combo) + rng.randint(1, 3)
            start = rng.randint(0, n - len(combo))
            ids, kinds = fill(n, {start + j: k for j, k in enumerate(combo)})
            cases.append(mk_case(ids, kinds, 'ded', rng.random() < .5, rng.randint(1, 3), 0.5, rng=rng))
        ids = ['r0', 'r1', 'r0', 'r2', 'r1']
        cases.append(mk_case(ids, ['verdict', 'playerRaises', 'verdict', 'bare', 'playerRaises'], 'both', True, 2, 0.5, rng=rng))
        ids, kinds = fill(4, {rng.randint(0, 2): rng.choice(['hangTermIgnored', 'hangTermHandled'])})
        cases.append(mk_case(ids, kinds, 'ded', rng.random() < .5, rng.randint(1, 3), 0.5, rng=rng))
        # kept results (expected / actual re-extracted by the parent): every in-process failure kind right after a success and
        # right before one, in both modes - a failed recording carries nothing of its neighbours
        for k in ('extractorRaises', 'playerRaises', 'comparatorRaises', 'bare'):
            cases.append(mk_case(['r0', 'r1', 'r2', 'r3'], ['verdict', k, 'verdict', k], 'both', True, rng.randint(2, 4), 0.5, rng=rng))
        # random sequences
        n_ded, n_in = (0, 40) if tier == 'quick' else (270, 400)
        weights = ['verdict'] * 4 + ['bare', 'playerRaises', 'extractorRaises', 'comparatorRaises', 'exit', 'hang', 'late',
                                     'hangTermIgnored', 'unreadable']
        for _ in range(n_ded):
            n = rng.randint(3, 8)
            kinds = [rng.choice(weights) for _ in range(n)]
            while sum(k in ('hang', 'late', 'hangTermIgnored') for k in kinds) > 3:
                kinds[rng.randrange(n)] = 'verdict'
            ids = ['r%d' % i for i in range(n)]
            cases.append(mk_case(ids, kinds, 'both', rng.random() < .5, rng.choice([1, 2, 3, 4, 5]),
                                 rng.choice([0.5, 0.5, 1.5, 1.0]), rng=rng))
        for _ in range(n_in):
            n = rng.randint(1, 8)
            kinds = [rng.choice(list(INPROC_OK) + ['verdict', 'late']) for _ in range(n)]
            ids = [rng.choice(['r0', 'r1', 'r2', 'r3', 'r4', 'r5']) for _ in range(n)] if rng.random() < .3 \
                else ['r%d' % i for i in range(n)]
            cases.append(mk_case(ids, kinds, 'inproc', rng.random() < .5, rng.randint(1, 4), 0.5, rng=rng))
        return cases

    # ------------------------------------------------------------------------------------------------------
    def run_impl(self, case):
        impl = run_case(case)
        note_realised(case, impl)
        return impl

    def run_all_impl(self, cases):
        return run_all(cases, self.PARALLEL)

    def model_requests(self, case):
        return [model_request(case, mode, 'c08.run') for mode in modes_of(case)]

    def model_transcript(self, case, answers):
        if case.get('_skip'):
            return SKIPPED
        return {mode: model_comparisons(case, a) for mode, a in zip(modes_of(case), answers)}

    def impl_view(self, case, impl):
        if case.get('_skip'):
            return SKIPPED
        return {mode: impl[mode]['comparisons'] for mode in modes_of(case)}

    def oracle(self, case, impl):
        fails = []
        if case.get('_skip'):
            return fails
        for mode in modes_of(case):
            fails += attribution_failures(case, mode, impl[mode])
        if case['mode'] == 'both' and not fails and not case.get('_eff'):
            a, b = impl['ded']['comparisons'], impl['inproc']['comparisons']
            if a != b:
                fails.append('in-process and dedicated-process runs differ: %r vs %r' % (b, a))
        return fails

    def nontrivial(self, case, impl):
        return any(b['k'] != 'verdict' for b in case['beh'].values())

    def features(self, case, impl):
        out = ['mode:' + case['mode'], 'keep:%s' % case['keep'], 'rate:%d' % case['rate'], 'len:%d' % len(case['ids'])]
        if case.get('_skip'):
            out.append('timing-not-realised:skipped')
        for i, b in case.get('_eff', {}).items():
            out.append('timing-realised-as:%s->%s' % (case['beh'][i]['k'], b['k']))
        n = len(case['ids'])
        for pos, i in enumerate(case['ids']):
            k = case['beh'][i]['k']
            out.append('beh:' + k)
            if case['beh'][i].get('sigterm'):
                out.append('hang:sigterm-' + case['beh'][i]['sigterm'])
            if k != 'verdict':
                out.append('%s@%s' % (k, 'first' if pos == 0 else 'last' if pos == n - 1 else 'middle'))
            if pos and k in FAULTY and case['beh'][case['ids'][pos - 1]]['k'] in FAULTY:
                out.append('consecutive-faults')
        return out

    def shrink(self, case):
        return shrink_case(case)

    def targeted(self, case, rng):
        out = []
        for _ in range(12):
            n = rng.randint(3, 5)
            kinds = ['verdict'] * n
            kinds[rng.randrange(n)] = rng.choice(['late', 'hang', 'exit', 'extractorRaises', 'playerRaises'])
            out.append(mk_case(['r%d' % i for i in range(n)], kinds, 'both', rng.random() < .5, rng.randint(1, 3), 0.5, rng=rng))
        return out


PROP = C08
