"""C07 - Stored recordings round-trip through every cassette (DESIGN.md section 6, C07).

One case = one cassette (in-memory / file based in a mkdtemp directory / S3 on the fake bucket with a key prefix) and a
history: 0-5 other recordings saved before, the main recording, 0-5 saved after, then fetches of every saved id and of
ids that were never saved.  Recording ids are made by the real `create_new_recording` with `uuid.uuid1` (and, for S3, the
module's `datetime`) rebound so that the ids are known to the model.

Observables: id, sorted get_all_keys(), canonical get_data(k), get_metadata(), get_recording_metadata(id), error class
for unknown ids, the names in the store (dict keys / file names / S3 object keys) and the stored text (in-memory string,
file content, decompressed S3 `full` object and S3 `metadata` object) - all compared with the Lean model.
The oracle states the property on the real transcript alone: what is fetched equals what was saved.
"""
import json
import os
import shutil
import tempfile

from harness.engine import Prop, load_known_findings
from harness.props import c06
from harness.props.c06 import to_py, to_wire, canon_py, canon_model, rand_val

KNOWN_META = 's3-data-key-_metadata'
# Found by this check: jsonpickle 0.9.3 restores the values of an object's py/state twice (Python >= 3.11: every object
# has __getstate__), registering each list in the state a second time, so every later py/id reference is shifted.  A
# list / object referenced again AFTER a plain object whose state holds a list comes back as the wrong object.  Such
# cases are generated (and the corpus witness is run) only when known_findings.json lists this id as open.
KNOWN_SHARED = 'shared-subobject-after-object-state'


def finding_listed(fid):
    return any(f['id'] == fid and f['property'] == 'C07' and f['status'] == 'open' for f in load_known_findings())


def state_lists(w):
    """does the value, reached through list / dict nesting only, contain a list (what the second restore re-registers)"""
    if isinstance(w, dict):
        if 'l' in w or 'ref' in w:
            return True
        if 'd' in w:
            return any(state_lists(x) for _, x in w['d'])
    return False


def risky(w):
    """contains a plain object whose state holds a list"""
    if isinstance(w, dict):
        if 'o' in w:
            return any(state_lists(x) or risky(x) for _, x in w['o'][1])
        for k in ('l', 't', 'S'):
            if k in w:
                return any(risky(x) for x in w[k])
        if 'd' in w:
            return any(risky(x) for _, x in w['d'])
    return False


def defuse(w, in_state=False):
    """the same value with the lists inside object states turned into tuples"""
    if isinstance(w, dict):
        if 'o' in w:
            return {'o': [w['o'][0], [[k, defuse(x, True)] for k, x in w['o'][1]]]}
        if 'l' in w:
            return {'t' if in_state else 'l': [defuse(x, in_state) for x in w['l']]}
        if 't' in w:
            return {'t': [defuse(x, False) for x in w['t']]}
        if 'd' in w:
            return {'d': [[k, defuse(x, in_state)] for k, x in w['d']]}
    return w
DAY = '20260102'
KEY_TEXTS = ['k', 'input: f args=["x"], kwargs=[]', 'output: g #1.result', 'output: g #1.output', 'a"b', 'back\\slash', "q'", 'é',
             'ü-key', '\U0001F600', 'a\U0001F600b', '', ' ', '  ', '{', '}', '{}', '[', ']', '{"a": 1}', ':', ',', ', ', ': ', ' args=',
             ', kwargs=', '#', 'line\nbreak', 'tab\t', '\x00', '\x7f', '/', 'a/b', '_', '_closed', 'id', 'recording_data',
             'recording_metadata', 'py', 'py/', 'py/tuplex', 'json://k', 'null', '1', 'Z', 'z', '퟿', '￿', 'k' * 60,
             'tape_recorder_operation', '\\u00e9', '\\"', '%s', '{0}', 'metadata', '_metadata_', 'x_metadata']
META_KEYS = ['duration', 'exception', 'operation_class', 'a', 'b', 'é', 'k k', '', 'x"y', '_metadata', 'id', '\U0001F600', 'Z']
CATEGORIES = ['Op', 'OpB', 'Op_x', 'Service', 'é', 'a b', 'X', 'Op.v2', 'Op.v2.x', 'billing.ops.Invoice', 'Batch[Order]', 'svc:op', 'q*x?']


def _hex(n):
    return '%032x' % n


def with_shared(rng, w, shared):
    """replace some list / object sub-values by references to one shared Python object"""
    if isinstance(w, dict):
        if ('l' in w or 'o' in w) and rng.random() < 0.3:
            shared.append(w)
            return {'ref': len(shared) - 1}
        if 'l' in w:
            return {'l': [with_shared(rng, x, shared) for x in w['l']]}
        if 't' in w:
            return {'t': [with_shared(rng, x, shared) for x in w['t']]}
        if 'd' in w:
            return {'d': [[k, with_shared(rng, x, shared)] for k, x in w['d']]}
        if 'o' in w:
            return {'o': [w['o'][0], [[k, with_shared(rng, x, shared)] for k, x in w['o'][1]]]}
    return w


def build(w, table):
    """Python value of a spec that may hold {'ref': n} nodes (the same object at every occurrence)"""
    if isinstance(w, dict):
        if 'ref' in w:
            return table[w['ref']]
        if 'l' in w:
            return [build(x, table) for x in w['l']]
        if 't' in w:
            return tuple(build(x, table) for x in w['t'])
        if 'd' in w:
            return {k: build(x, table) for k, x in w['d']}
        if 'o' in w:
            o = c06.CLASSES[w['o'][0]].__new__(c06.CLASSES[w['o'][0]])
            for k, x in w['o'][1]:
                o.__dict__[k] = build(x, table)
            return o
    return to_py(w)


def has_ref(w):
    if isinstance(w, dict):
        if 'ref' in w:
            return True
        for k in ('l', 't'):
            if k in w:
                return any(has_ref(x) for x in w[k])
        if 'd' in w:
            return any(has_ref(x) for _, x in w['d'])
        if 'o' in w:
            return any(has_ref(x) for _, x in w['o'][1])
    return False


def recording_id(case, rec):
    if case['cassette'] == 's3':
        return '%s/%s/%s' % (rec['category'], DAY, _hex(rec['uid']))
    return '%s/%s' % (rec['category'], _hex(rec['uid']))


def all_recordings(case):
    return case['before'] + [case['main']] + case['after']


class FakeUuid(object):
    def __init__(self, hexes):
        self.hexes = list(hexes)

    def __call__(self, *a, **k):
        h = self.hexes.pop(0)
        return type('U', (object,), {'hex': h})()


class C07(Prop):
    ID = 'C07'
    CORRESPONDENCE = ('PlaybackModel.Cassette.save / get / getMetadata (over Codec.encToks / decToks) vs InMemoryTapeCassette, '
                      'FileBasedTapeCassette, S3TapeCassette + S3BasicFacade on the fake bucket, MemoryRecording, pickle_copy')
    RULE = ('one cassette (in-memory / file / S3 with key prefix "", "p" or "a/b") per case; 0-5 recordings saved before and '
            'after the main one; recordings of 0-12 keys with hostile key texts and values / metadata from the faithful domain, '
            'a third of them with shared sub-objects; every saved id and 2-5 never-saved ids fetched; stored names and stored '
            'text compared with the model; categories with dots, brackets, colons, * and ?; half of the S3 cassettes sample at storage '
            'level with a calculator that keeps everything after a draw; + (not modelled) 2-3 threads saving different recordings '
            'through one file / in-memory cassette object under the line scheduler. Non-trivial: the main recording has at least one key or one metadata entry; '
            'distinct = distinct canonical case')
    TRUSTED = ['correspondence harness harness/props/c07.py + c06.py + Lean driver (Drive/Codec.lean)',
               'jsonpickle 0.9.3 + json as transcribed in PlaybackModel/Codec.lean (token level); zlib is a parameter of the '
               'theorems (decompress . compress = id) and the real zlib runs in the tie',
               'harness/fake_s3.py stands in for S3 behind the real S3BasicFacade; the file system for the file cassette',
               'shared sub-objects (py/id) are invisible to the tree-valued theorems; the tie compares them structurally']
    ASSUMPTIONS = ['values and metadata in the faithful domain of DESIGN.md 4.3; data / metadata keys are strings other than '
                   'the jsonpickle tag names; ids as made by create_new_recording (category without "/")',
                   'known finding K2: on S3 a data key named _metadata is excluded from the theorems and reported as KNOWN-FINDING']
    PARALLEL = 8
    DRIVER_CHUNKS = 8

    def __init__(self):
        self.shared_finding = finding_listed(KNOWN_SHARED)

    def corpus(self):
        out = []
        for c in Prop.corpus(self):
            need = c.get('requires_finding')
            if need is None or finding_listed(need):
                out.append(c)
        return out

    # ------------------------------------------------------------------------------------------------------
    def gen_recording(self, rng, uid, big=False, share=True):
        nkeys = rng.choice([0, 1, 1, 2, 3, 5, 8, 12]) if big else rng.choice([0, 1, 2, 3])
        keys = rng.sample(KEY_TEXTS, nkeys)
        shared = []
        sharing = share and rng.random() < 0.33
        safe = sharing and not (self.shared_finding and rng.random() < 0.5)
        data = []
        for k in keys:
            v = rand_val(rng, rng.choice([0, 1, 2, 3]))
            if safe:
                v = defuse(v)
            data.append([k, with_shared(rng, v, shared) if sharing else v])
        meta = [[k, rand_val(rng, rng.choice([0, 1, 2]))] for k in rng.sample(META_KEYS, rng.choice([0, 1, 2, 4]))]
        if safe:
            meta = [[k, defuse(v)] for k, v in meta]
        if sharing and shared:
            # use the shared objects a second time, in another key or in the metadata
            for n in range(len(shared)):
                where = rng.random()
                if where < 0.5 or not data:
                    data.append(['again%d' % n, {'l': [{'ref': n}, {'ref': n}]}])
                elif where < 0.8:
                    meta.append(['shared%d' % n, {'ref': n}])
                else:
                    i = rng.randrange(len(data))
                    data[i] = [data[i][0], {'t': [data[i][1], {'ref': n}]}]
        return {'category': rng.choice(CATEGORIES), 'uid': uid, 'data': data, 'meta': meta, 'shared': shared}

    def gen_case(self, rng, cassette=None):
        cassette = cassette or rng.choice(['memory', 'file', 's3'])
        uids = rng.sample(range(1, 2 ** 60), 12)
        before = [self.gen_recording(rng, uids[i]) for i in range(rng.choice([0, 0, 1, 2, 5]))]
        after = [self.gen_recording(rng, uids[5 + i]) for i in range(rng.choice([0, 0, 1, 2, 5]))]
        main = self.gen_recording(rng, uids[11], big=True)
        if rng.random() < 0.4:
            # the same id is saved AGAIN later in the history (a new recording object with the id of an earlier one);
            # usually with a shorter serialized form, sometimes with a longer one.  The latest save is what must come back.
            target = rng.choice(before + [main] + after[:1])
            again = self.gen_recording(rng, target['uid'], big=rng.random() < 0.25)
            if rng.random() < 0.6:
                again['data'], again['meta'], again['shared'] = [[k, rng.choice([None, {'i': '1'}, {'s': ''}])] for k, _ in again['data'][:1]], [], []
            again['category'] = target['category']
            pos = rng.randrange((1 if target in after else 0), len(after) + 1)
            after = after[:pos] + [again] + after[pos:]
        case = {'kind': 'cassette', 'cassette': cassette, 'prefix': rng.choice(['', 'p', 'a/b']) if cassette == 's3' else '',
                'before': before, 'main': main, 'after': after}
        if cassette == 's3' and rng.random() < 0.5:
            case['sampled'] = True
        if cassette == 's3' and rng.random() < 0.4:
            case['ia'] = rng.choice([0.001, 0.25, 10 ** 6])      # recordings at least this large go to the infrequent-access class
        if rng.random() < 0.15:
            case['twice'] = True      # every recording object is also handed to a second cassette of the same kind (a mirror)
        main_id = recording_id(case, main)
        unknown = ['nope', main_id + 'x', main_id[:-1], '%s/%s' % (main['category'], _hex(7)), '']
        if cassette == 's3':
            unknown.append('%s/%s' % (main['category'], _hex(main['uid'])))
        else:
            unknown.append('%s/%s/%s' % (main['category'], DAY, _hex(main['uid'])))
        case['unknown'] = rng.sample(unknown, rng.randint(2, 5))
        return case

    def generate(self, rng, tier):
        n = 500 if tier == 'quick' else 10000
        cases = []
        for _ in range(n):
            for cassette in ('memory', 'file', 's3'):
                cases.append(self.gen_case(rng, cassette))
        # two threads (two recorders of one service) saving different recordings through ONE cassette object, every line of the
        # cassette module a scheduling point (not modelled: each saved id must fetch as what was saved under it)
        for _ in range(60 if tier == 'quick' else 800):
            cases.append({'kind': 'threadsave', 'cassette': rng.choice(['file', 'file', 'memory']), 'rand': rng.randrange(10 ** 9),
                          'recs': [{'cat': rng.choice(['Op', 'OpB', 'Op.v2']), 'n': rng.randint(1, 4), 'tag': t} for t in ('A', 'B', 'C')[:rng.choice([2, 2, 3])]]})
        return cases

    def run_threadsave(self, case):
        import random as _random
        from harness import sched as S
        tmp = tempfile.mkdtemp(prefix='verif-c07t-')
        try:
            if case['cassette'] == 'file':
                import playback.tape_cassettes.file_based.file_based_tape_cassette as mod
                cassette = mod.FileBasedTapeCassette(os.path.join(tmp, 'cassette'))
            else:
                import playback.tape_cassettes.in_memory.in_memory_tape_cassette as mod
                cassette = mod.InMemoryTapeCassette()
            target = mod.__file__[:-1] if mod.__file__.endswith('.pyc') else mod.__file__
            sch = S.Scheduler([target], chooser=S.RandomChooser(_random.Random(case['rand'])), max_steps=60000, watchdog_s=30.0)
            ids, errors = {}, []

            def saver(rec):
                def body():
                    try:
                        r = cassette.create_new_recording(rec['cat'])
                        ids[rec['tag']] = r.id
                        for i in range(rec['n']):
                            r.set_data('k%d' % i, [rec['tag'], i])
                        r.add_metadata({'owner': rec['tag']})
                        cassette.save_recording(r)
                    except S.SchedAbort:
                        raise
                    except BaseException as ex:
                        errors.append([rec['tag'], type(ex).__name__])
                return body
            for rec in case['recs']:
                sch.spawn(rec['tag'], saver(rec))
            outcome = sch.run()
            got = {}
            for rec in case['recs']:
                try:
                    f = cassette.get_recording(ids[rec['tag']])
                    got[rec['tag']] = {'id_ok': f.id == ids[rec['tag']], 'keys': sorted(f.get_all_keys()),
                                       'owner': f.get_metadata().get('owner'),
                                       'data': [f.get_data(k) for k in sorted(f.get_all_keys())]}
                except Exception as ex:
                    got[rec['tag']] = {'err': type(ex).__name__}
            leftovers = sorted(os.listdir(cassette.directory)) if case['cassette'] == 'file' else []
            return {'outcome': outcome, 'errors': errors, 'got': got, 'files': len(leftovers), 'choices': list(sch.choices)[:200]}
        finally:
            shutil.rmtree(tmp, ignore_errors=True)

    # ------------------------------------------------------------------------------------------------------
    def run_impl(self, case):
        if case.get('kind') == 'threadsave':
            return self.run_threadsave(case)
        import uuid
        import datetime as real_datetime
        from harness import fake_s3
        recs = all_recordings(case)
        real_uuid1 = uuid.uuid1
        uuid.uuid1 = FakeUuid([_hex(r['uid']) for r in recs])
        tmp = None
        s3mod = None
        try:
            if case['cassette'] == 'memory':
                from playback.tape_cassettes.in_memory.in_memory_tape_cassette import InMemoryTapeCassette
                cassette = InMemoryTapeCassette()
            elif case['cassette'] == 'file':
                from playback.tape_cassettes.file_based.file_based_tape_cassette import FileBasedTapeCassette
                tmp = tempfile.mkdtemp(prefix='verif-c07-')
                cassette = FileBasedTapeCassette(os.path.join(tmp, 'cassette'))
            else:
                fake_s3.install()
                fake_s3.reset()
                import playback.tape_cassettes.s3.s3_tape_cassette as s3mod

                class FixedDay(real_datetime.datetime):
                    @classmethod
                    def today(cls):
                        return cls(2026, 1, 2, 12, 0, 0)
                s3mod.datetime = FixedDay
                # half of the S3 cases go through storage-level sampling with a calculator that keeps everything after a draw
                # (ratio just below 1: every draw of the cassette's seeded generator is within it): what is stored for a kept
                # recording is what was saved
                calc = (lambda category, size, recording: 0.999999999) if case.get('sampled') else None
                cassette = s3mod.S3TapeCassette('verif-bucket', key_prefix=case['prefix'], read_only=False, sampling_calculator=calc,
                                                 infrequent_access_kb_threshold=case.get('ia'))
            self._second = None
            if case.get('twice'):
                if case['cassette'] == 'memory':
                    self._second = InMemoryTapeCassette()
                elif case['cassette'] == 'file':
                    self._second = FileBasedTapeCassette(os.path.join(tmp, 'mirror'))
                else:
                    self._second = s3mod.S3TapeCassette('verif-bucket-mirror', key_prefix=case['prefix'], read_only=False)
            return self.drive(case, cassette, tmp)
        finally:
            self._second = None
            uuid.uuid1 = real_uuid1
            if s3mod is not None:
                s3mod.datetime = real_datetime.datetime
            if tmp is not None:
                shutil.rmtree(tmp, ignore_errors=True)

    def drive(self, case, cassette, tmp):
        from zlib import decompress
        from harness import fake_s3
        saved = []      # (id, snapshot of keys/data/meta taken before the save, live python values)
        for rec in all_recordings(case):
            table = []
            for w in rec['shared']:
                table.append(build(w, table))
            r = cassette.create_new_recording(rec['category'])
            live = []
            for k, w in rec['data']:
                v = build(w, table)
                live.append(v)
                r.set_data(k, v)
            meta = {k: build(w, table) for k, w in rec['meta']}
            r.add_metadata(meta)
            snap = {'id': r.id, 'keys': sorted(k for k, _ in rec['data']),
                    'data': sorted([k, canon_py(v)] for (k, _), v in zip(rec['data'], live)),
                    'meta': canon_py(meta)}
            try:
                cassette.save_recording(r)
            except Exception as ex:      # (a value of the faithful domain: the oracle reports it)
                snap['save_error'] = type(ex).__name__
            if getattr(self, '_second', None) is not None and 'save_error' not in snap:
                # the same recording object is saved through a second cassette as well: that one holds it too
                try:
                    self._second.save_recording(r)
                    snap['second'] = self.fetch(self._second, r.id)
                except Exception as ex:
                    snap['second'] = {'err': 'save:' + type(ex).__name__}
            # late mutations of everything the caller still holds: none of it may reach the stored recording
            for v in live + table + list(meta.values()):
                if isinstance(v, list):
                    v.append('<late mutation>')
                elif isinstance(v, dict):
                    v['<late>'] = 1
                elif hasattr(v, '__dict__') and not isinstance(v, type):
                    v.__dict__['late_attr'] = 1
            r.recording_data['<late key>'] = 1
            r.recording_metadata['<late meta>'] = 1
            saved.append(snap)
        fetched = []
        for snap in saved:
            fetched.append(self.fetch(cassette, snap['id']))
        # fetched objects are private copies: spoil the first fetch of the main recording and fetch again
        main_snap = saved[len(case['before'])]
        try:
            first = cassette.get_recording(main_snap['id'])
            for k in list(first.get_all_keys()):
                v = first.get_data(k)
                if isinstance(v, list):
                    v.append('<spoiled>')
            first.recording_data['<spoiled key>'] = 1
        except Exception:
            pass
        again = self.fetch(cassette, main_snap['id'])
        unknown = []
        for uid in case['unknown']:
            unknown.append([self.outcome(lambda: cassette.get_recording(uid)), self.outcome(lambda: cassette.get_recording_metadata(uid))])
        # what is physically stored
        if case['cassette'] == 'memory':
            names = sorted(cassette._recordings.keys())
            blobs = [{'text': cassette._recordings.get(s['id'])} for s in saved]
        elif case['cassette'] == 'file':
            names = sorted(os.listdir(cassette.directory))
            blobs = []
            for s in saved:
                name = s['id'].replace('/', '_') + '.json'
                path = os.path.join(cassette.directory, name)
                text = None
                if os.path.isfile(path):
                    with open(path, 'rb') as f:
                        text = f.read().decode('utf-8')
                blobs.append({'name': name, 'text': text})
        else:
            st = fake_s3.store('verif-bucket')
            names = sorted(st.objects)
            blobs = []
            kp = (case['prefix'] + '/') if case['prefix'] else ''
            for s in saved:
                fk = 'tape_recorder_recordings/%sfull/%s' % (kp, s['id'])
                mk = 'tape_recorder_recordings/%smetadata/%s' % (kp, s['id'])
                full = st.objects.get(fk)
                meta = st.objects.get(mk)
                blobs.append({'full_key': fk, 'meta_key': mk,
                              'full': decompress(full[0]).decode('utf-8') if full else None,
                              'metadata': meta[0].decode('utf-8') if meta else None})
        return {'saved': saved, 'fetched': fetched, 'again': again, 'unknown': unknown, 'names': names, 'blobs': blobs}

    @staticmethod
    def outcome(thunk):
        try:
            r = thunk()
        except Exception as ex:
            return type(ex).__name__
        return 'returned:' + type(r).__name__

    def fetch(self, cassette, rid):
        try:
            rec = cassette.get_recording(rid)
        except Exception as ex:
            return {'err': type(ex).__name__}
        if rec is None:
            return {'err': 'returned:NoneType'}
        out = {'id': rec.id, 'keys': sorted(rec.get_all_keys())}
        data = []
        for k in out['keys']:
            try:
                data.append([k, canon_py(rec.get_data(k))])
            except Exception as ex:
                data.append([k, {'err': type(ex).__name__}])
        out['data'] = data
        out['meta'] = canon_py(rec.get_metadata())
        try:
            out['meta_alone'] = canon_py(cassette.get_recording_metadata(rid))
        except Exception as ex:
            out['meta_alone'] = {'err': type(ex).__name__}
        return out

    # ------------------------------------------------------------------------------------------------------
    @staticmethod
    def inline(w, shared):
        if isinstance(w, dict):
            if 'ref' in w:
                return C07.inline(shared[w['ref']], shared)
            if 'l' in w:
                return {'l': [C07.inline(x, shared) for x in w['l']]}
            if 't' in w:
                return {'t': [C07.inline(x, shared) for x in w['t']]}
            if 'd' in w:
                return {'d': [[k, C07.inline(x, shared)] for k, x in w['d']]}
            if 'o' in w:
                return {'o': [w['o'][0], [[k, C07.inline(x, shared)] for k, x in w['o'][1]]]}
        return w

    def tree(self, w, shared):
        """wire value for the model: shared references inlined, sets in this process's iteration order"""
        return to_wire(to_py(self.inline(w, shared)))

    def dedup(self, items):
        """later assignments to the same dict key replace the value and keep the position"""
        out, pos = [], {}
        for k, v in items:
            if k in pos:
                out[pos[k]] = [k, v]
            else:
                pos[k] = len(out)
                out.append([k, v])
        return out

    def model_requests(self, case):
        if case.get('kind') == 'threadsave':
            return []
        ops = []
        ids = []
        for rec in all_recordings(case):
            rid = recording_id(case, rec)
            ids.append(rid)
            ops.append({'op': 'save', 'id': rid,
                        'data': self.dedup([[k, self.tree(w, rec['shared'])] for k, w in rec['data']]),
                        'meta': self.dedup([[k, self.tree(w, rec['shared'])] for k, w in rec['meta']])})
        for rid in ids:
            ops.append({'op': 'get', 'id': rid})
            ops.append({'op': 'meta', 'id': rid})
        for rid in case['unknown']:
            ops.append({'op': 'get', 'id': rid})
            ops.append({'op': 'meta', 'id': rid})
        ops.append({'op': 'names'})
        for rid in ids:
            ops.append({'op': 'blob', 'id': rid})
        return [{'m': 'c07.run', 'kind': case['cassette'], 'prefix': case['prefix'], 'ops': ops}]

    def model_transcript(self, case, answers):
        if case.get('kind') == 'threadsave':
            return None
        a = answers[0]
        n = len(all_recordings(case))
        u = len(case['unknown'])
        gets = a[n:n + 2 * n]
        fetched = []
        for i in range(n):
            g, m = gets[2 * i], gets[2 * i + 1]
            if 'err' in g:
                fetched.append({'err': g['err']})
                continue
            fetched.append({'id': g['id'], 'keys': sorted(g['keys']),
                            'data': sorted([k, canon_model(v)] for k, v in g['data']),
                            'meta': canon_model({'d': g['meta']}),
                            'meta_alone': canon_model({'d': m['meta']}) if 'meta' in m else {'err': m['err']}})
        unk = a[3 * n:3 * n + 2 * u]
        unknown = [[unk[2 * i].get('err', 'returned'), unk[2 * i + 1].get('err', 'returned')] for i in range(u)]
        names = a[3 * n + 2 * u]
        blobs = a[3 * n + 2 * u + 1:]
        out = {'fetched': fetched, 'again': fetched[len(case['before'])], 'unknown': unknown, 'names': names}
        if not self.shares(case):
            out['blobs'] = blobs
        return out

    @staticmethod
    def shares(case):
        return any(r['shared'] for r in all_recordings(case))

    def impl_view(self, case, impl):
        if case.get('kind') == 'threadsave':
            return None
        out = {'fetched': impl['fetched'], 'again': impl['again'], 'unknown': impl['unknown'], 'names': impl['names']}
        if not self.shares(case):
            out['blobs'] = impl['blobs']
        return out

    # ------------------------------------------------------------------------------------------------------
    def oracle(self, case, impl):
        if case.get('kind') == 'threadsave':
            fails = []
            if impl['outcome'] != 'finished' or impl['errors']:
                fails.append('threads saving through one %s cassette: run ended %s, errors %r (schedule %r)'
                             % (case['cassette'], impl['outcome'], impl['errors'], impl['choices']))
            for rec in case['recs']:
                g = impl['got'].get(rec['tag'])
                want = {'id_ok': True, 'keys': ['k%d' % i for i in range(rec['n'])], 'owner': rec['tag'],
                        'data': [[rec['tag'], i] for i in range(rec['n'])]}
                if g != want:
                    fails.append('threads saving through one %s cassette: the recording saved by thread %s fetches as %r, it was saved as '
                                 '%r (schedule %r)' % (case['cassette'], rec['tag'], g, want, impl['choices']))
            if case['cassette'] == 'file' and impl['files'] != len(case['recs']):
                fails.append('threads saving through one file cassette: %d files for %d recordings' % (impl['files'], len(case['recs'])))
            return fails
        fails = []
        recs = all_recordings(case)
        last = {}       # an id saved more than once holds what was saved last
        for j, snap in enumerate(impl['saved']):
            last[snap['id']] = j
        order = list(range(len(recs))) + [len(case['before'])]
        for i, (n, got) in enumerate(zip(order, impl['fetched'] + [impl['again']])):
            j = last[impl['saved'][n]['id']]
            snap, rec = impl['saved'][j], recs[j]
            who = 'recording %d' % i if i < len(recs) else 'main recording fetched again after the first copy was modified'
            if j != n:
                who += ' (id saved again as recording %d)' % j
            tag = 'metakey' if case['cassette'] == 's3' and any(k == '_metadata' for k, _ in rec['data']) else 'plain'
            if tag == 'plain' and rec['shared'] and (any(risky(w) for _, w in rec['data'] + rec['meta'])
                                                     or any(risky(w) for w in rec['shared'])):
                tag = 'sharedobj'
            if snap.get('save_error'):
                fails.append('[%s] %s: saving it raised %s' % (tag, who, snap['save_error']))
            if 'err' in got:
                fails.append('[%s] %s: fetch of the saved id %s gave %s' % (tag, who, snap['id'], got['err']))
                continue
            if got['id'] != snap['id']:
                fails.append('[%s] %s: fetched id %r, saved id %r' % (tag, who, got['id'], snap['id']))
            if got['keys'] != snap['keys']:
                fails.append('[%s] %s: fetched keys %r, saved keys %r' % (tag, who, got['keys'][:20], snap['keys'][:20]))
            gd = {k: v for k, v in got['data']}
            for k, v in snap['data']:
                if k in gd and gd[k] != v:
                    fails.append('[%s] %s: data under key %r differs: fetched %s, saved %s'
                                 % (tag, who, k, json.dumps(gd[k])[:200], json.dumps(v)[:200]))
            if got['meta'] != snap['meta']:
                fails.append('[%s] %s: fetched metadata %s, saved %s' % (tag, who, json.dumps(got['meta'])[:200], json.dumps(snap['meta'])[:200]))
            if got['meta_alone'] != got['meta']:
                fails.append('[%s] %s: get_recording_metadata gives %s, the full recording has %s'
                             % (tag, who, json.dumps(got['meta_alone'])[:200], json.dumps(got['meta'])[:200]))
            sec = impl['saved'][n].get('second') if i < len(recs) else None
            if sec is not None and tag == 'plain' and not (recs[n]['shared'] and True):
                own = impl['saved'][n]
                if 'err' in sec:
                    fails.append('[plain] recording %d handed to a second cassette as well: %s' % (i, sec['err']))
                elif sec['keys'] != own['keys'] or {k: v for k, v in sec['data']} != {k: v for k, v in own['data']} or sec['meta'] != own['meta']:
                    fails.append('[plain] recording %d handed to a second cassette as well: that one holds keys %r / metadata %s, saved were %r / %s'
                                 % (i, sec['keys'][:10], json.dumps(sec['meta'])[:150], own['keys'][:10], json.dumps(own['meta'])[:150]))
        for uid, (a, b) in zip(case['unknown'], impl['unknown']):
            if a != 'NoSuchRecording':
                fails.append('[plain] get_recording(%r) for a never saved id: %s' % (uid, a))
            if b != 'NoSuchRecording':
                fails.append('[plain] get_recording_metadata(%r) for a never saved id: %s' % (uid, b))
        return fails

    def known_finding(self, case, failures):
        if case.get('kind') == 'threadsave':
            return None
        """K2 only: S3, and every failure concerns a recording that holds a data key literally named _metadata"""
        if failures and case['cassette'] == 's3' and all(f.startswith('[metakey]') for f in failures):
            return KNOWN_META
        if failures and all(f.startswith('[sharedobj]') for f in failures):
            return KNOWN_SHARED
        return None

    def nontrivial(self, case, impl):
        if case.get('kind') == 'threadsave':
            return True
        return bool(case['main']['data'] or case['main']['meta'])

    def features(self, case, impl):
        if isinstance(case, dict) and case.get('twice'):
            return ['recording-objects-also-saved-through-a-second-cassette'] + self._features(case, impl)
        return self._features(case, impl)

    def _features(self, case, impl):
        if case.get('kind') == 'threadsave':
            return ['threads-saving-through-one-cassette:' + case['cassette']]
        out = ['cassette:' + case['cassette'], 'before:%d' % len(case['before']), 'after:%d' % len(case['after']),
               'keys:%d' % len(case['main']['data']), 'unknown:%d' % len(case['unknown'])]
        ids = [recording_id(case, r) for r in all_recordings(case)]
        if len(set(ids)) < len(ids):
            out.append('same-id-saved-twice')
        if case['cassette'] == 's3':
            out.append('prefix:%r' % case['prefix'])
        if self.shares(case):
            out.append('shared-sub-objects')
        for a, b in impl['unknown']:
            out.append('unknown-id:' + a)
        for k, _ in case['main']['data']:
            if k == '_metadata':
                out.append('data-key:_metadata')
            elif any(ord(ch) > 0xffff for ch in k):
                out.append('data-key:astral')
            elif any(ch in k for ch in '"\\{}[]:,'):
                out.append('data-key:json-metachar')
            elif k.strip() == '':
                out.append('data-key:empty-or-blank')
        return out

    def sample_repr(self, case):
        if case.get('kind') == 'threadsave':
            return case
        return {'cassette': case['cassette'], 'prefix': case['prefix'], 'before': len(case['before']), 'after': len(case['after']),
                'main': case['main'], 'unknown': case['unknown']}

    def shrink(self, case):
        if case.get('kind') == 'threadsave':
            return
        for key in ('before', 'after'):
            for i in range(len(case[key])):
                yield dict(case, **{key: case[key][:i] + case[key][i + 1:]})
        main = case['main']
        if not main['shared']:
            for i in range(len(main['data'])):
                yield dict(case, main=dict(main, data=main['data'][:i] + main['data'][i + 1:]))
            for i in range(len(main['meta'])):
                yield dict(case, main=dict(main, meta=main['meta'][:i] + main['meta'][i + 1:]))
        for i in range(len(case['unknown'])):
            yield dict(case, unknown=case['unknown'][:i] + case['unknown'][i + 1:])

    def targeted(self, case, rng):
        if case.get('kind') == 'threadsave':
            return []
        return [self.gen_case(rng, case['cassette']) for _ in range(150)]


PROP = C07
