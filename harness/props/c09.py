"""C09 - The recorder returns to idle; every run is independent of history (DESIGN.md section 6, C09)."""
import copy

from harness.props.recorder_common import RecorderProp, ALL_OPTS, IDLE
from harness import recorder_sim as rs


class C09(RecorderProp):
    ID = 'C09'
    RULE = ('histories of 2-6 runs (operations returning / raising / interrupted / discarded / sampled out / hit by faults, '
            'replays of present and missing ids, replays failing with a missing key or whose function raises) followed by a '
            'probe run; the probe is also executed on a FRESH recorder over the same cassette, PRNG and clock position; '
            'idle flags read after every run; + operations that start a replay while they are recorded, the replayed code perhaps discarding the recording in flight (not modelled: idle afterwards, a probe records what a fresh recorder records); non-trivial = history of >= 2 runs; distinct = distinct canonical case')
    OPTS = dict(ALL_OPTS, runs=(2, 6), play_ratio=0.45, same_script=0.5, cassettes=['memory', 'memory', 'file'], foreign=True)
    N = {'quick': 2000, 'thorough': 20000}

    PLAYINSIDE = {'quick': 40, 'thorough': 400}

    def generate(self, rng, tier):
        """+ operations that start a replay while they are recorded, the replayed code perhaps discarding the recording in flight
        (not modelled): afterwards the recorder is idle and a probe operation records what it records on a fresh recorder"""
        cases = super(C09, self).generate(rng, tier)
        for _ in range(self.PLAYINSIDE[tier]):
            steps = [[rng.choice(['in', 'out', 'out']), rng.randint(0, 3)] for _ in range(rng.randint(0, 4))]
            for _ in range(rng.choice([1, 1, 2])):
                steps.insert(rng.randint(0, len(steps)), ['play', rng.choice(['known', 'known-discard', 'known-discard', 'unknown'])])
            cases.append({'kind': 'playinside', 'model': False, 'steps': steps, 'end': rng.choice(['ret', 'ret', 'raise'])})
        return cases

    def sample_repr(self, case):
        return case if case.get('kind') == 'playinside' else super(C09, self).sample_repr(case)

    def features(self, case, impl):
        if case.get('kind') == 'playinside':
            return ['replay-inside-a-recorded-operation' + (':discarding' if any(st[1] == 'known-discard' for st in case['steps'] if st[0] == 'play') else '')]
        return super(C09, self).features(case, impl)

    def shrink(self, case):
        return [] if case.get('kind') == 'playinside' else super(C09, self).shrink(case)

    def run_impl(self, case):
        if case.get('kind') == 'playinside':
            from harness.props.c05 import C05
            return C05.run_playinside_case(self, case)
        t = rs.run_case(case)
        fresh = rs.run_case(dict(copy.deepcopy(case), fresh_before_last=True))
        t[-1]['_fresh_probe'] = rs.impl_public([fresh[-1]])[0]
        return t

    def oracle(self, case, impl):
        if case.get('kind') == 'playinside':
            fails = []
            if impl['idle'] != [False, False]:
                fails.append('after an operation that started a replay while it was recorded (steps %r) the recorder is not idle: '
                             'recording / replaying = %r' % (case['steps'], impl['idle']))
            if impl['probe_keys'] != impl['ref_keys']:
                fails.append('after an operation that started a replay while it was recorded (steps %r) a probe operation recorded %r, '
                             'on a fresh recorder it records %r' % (case['steps'], impl['probe_keys'], impl['ref_keys']))
            return fails
        fails = []
        for i, r in enumerate(impl):
            if r['idle'] != IDLE:
                fails.append('run %d: recorder not idle afterwards: %r' % (i, r['idle']))
        for i, (run, r) in enumerate(zip(case['runs'], impl)):
            if run['run'] == 'play' and any(k != 'get' for k, _ in r['log']):
                fails.append('run %d: a replay created / saved / aborted a recording (recorder was recording while replaying): %r'
                             % (i, r['log']))
        for i, r in enumerate(impl):
            if '_result_at_end' in r and r['_result_at_end'] != r['result']:
                fails.append('run %d: the Playback handed out by this replay changed when later runs happened: it was %r, at the '
                             'end of the history it reads %r' % (i, r['result'], r['_result_at_end']))
        probe = rs.impl_public([impl[-1]])[0]
        if probe != impl[-1]['_fresh_probe']:
            diff = [k for k in probe if probe[k] != impl[-1]['_fresh_probe'].get(k)]
            fails.append('probe run differs from the same run on a fresh recorder in %r: after history %r, fresh %r'
                         % (diff, {k: probe[k] for k in diff}, {k: impl[-1]['_fresh_probe'].get(k) for k in diff}))
        return fails

    def nontrivial(self, case, impl):
        if case.get('kind') == 'playinside':
            return True
        return len(case['runs']) >= 2


PROP = C09
