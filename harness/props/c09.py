"""C09 - The recorder returns to idle; every run is independent of history (DESIGN.md section 6, C09)."""
import copy

from harness.props.recorder_common import RecorderProp, ALL_OPTS, IDLE
from harness import recorder_sim as rs


class C09(RecorderProp):
    ID = 'C09'
    RULE = ('histories of 2-6 runs (operations returning / raising / interrupted / discarded / sampled out / hit by faults, '
            'replays of present and missing ids, replays failing with a missing key or whose function raises) followed by a '
            'probe run; the probe is also executed on a FRESH recorder over the same cassette, PRNG and clock position; '
            'idle flags read after every run; non-trivial = history of >= 2 runs; distinct = distinct canonical case')
    OPTS = dict(ALL_OPTS, runs=(2, 6), play_ratio=0.45, same_script=0.5, cassettes=['memory', 'memory', 'file'], foreign=True)
    N = {'quick': 2000, 'thorough': 20000}

    def run_impl(self, case):
        t = rs.run_case(case)
        fresh = rs.run_case(dict(copy.deepcopy(case), fresh_before_last=True))
        t[-1]['_fresh_probe'] = rs.impl_public([fresh[-1]])[0]
        return t

    def oracle(self, case, impl):
        fails = []
        for i, r in enumerate(impl):
            if r['idle'] != IDLE:
                fails.append('run %d: recorder not idle afterwards: %r' % (i, r['idle']))
        for i, (run, r) in enumerate(zip(case['runs'], impl)):
            if run['run'] == 'play' and any(k != 'get' for k, _ in r['log']):
                fails.append('run %d: a replay created / saved / aborted a recording (recorder was recording while replaying): %r'
                             % (i, r['log']))
        for i, r in enumerate(impl):
            if '_result_at_end' in r and r['_result_at_end'] != r['result']:
                fails.append('run %d: the Playback handed out by this replay changed when later runs happened: it was %r, at the '
                             'end of the history it reads %r' % (i, r['result'], r['_result_at_end']))
        probe = rs.impl_public([impl[-1]])[0]
        if probe != impl[-1]['_fresh_probe']:
            diff = [k for k in probe if probe[k] != impl[-1]['_fresh_probe'].get(k)]
            fails.append('probe run differs from the same run on a fresh recorder in %r: after history %r, fresh %r'
                         % (diff, {k: probe[k] for k in diff}, {k: impl[-1]['_fresh_probe'].get(k) for k in diff}))
        return fails

    def nontrivial(self, case, impl):
        return len(case['runs']) >= 2


PROP = C09
