"""C15 - S3 cassette writes are confined: read-only, own prefix, complete-before-visible (DESIGN.md section 6, C15).

A case is a call sequence on 1-3 REAL `S3TapeCassette`s that share one in-memory bucket (harness/fake_s3.py behind the real
`S3BasicFacade`) with foreign objects.  The case is at the same time (plus "m") the request of the driver handler `c15.run`.
"""
import datetime

from harness.engine import Prop
from harness.wire import to_wire, to_py

BASE = 'tape_recorder_recordings/'
PREFIXES = ['', 'a', 'ab', 'a/b']
CATS = ['Op', 'OpB', 'Q']                       # every id the generator ever saves is <one of these>/<YYYYMMDD>/<uid>
SHADOWED = ['full', 'metadata']                 # key prefixes whose roots lie inside the default prefix's full/ / metadata/ key space (K8)
LIST_CATS = CATS + SHADOWED                     # categories a fresh reader lists: through the default prefix a neighbour's objects look
                                                # like recordings of category 'full' / 'metadata'
K8 = 's3-default-prefix-shadows-full-metadata-prefixes'
K8_MARK = 'default-prefix shadowing (K8): '
FOREIGN = ['foreign/x', 'tape_recorder_recordingsX/full/a', 'tape_recorder_recordings', 'zzz',
           'tape_recorder_recordingsX/a/metadata/Op/20210301/u000', 'a/full/Op/20210301/u000', 'full/x',
           # neighbours whose names only BEGIN like a cassette's folders (no '/' after full / metadata)
           'tape_recorder_recordings/a/full_export.tar', 'tape_recorder_recordings/a/metadata_catalog/x',
           'tape_recorder_recordings/full_export.tar', 'tape_recorder_recordings/a/b/fullx', 'tape_recorder_recordings/ab/metadata.json']
EPOCH = datetime.datetime(1970, 1, 1)
TIMES = [26909270 * 60, 26909290 * 60, 26909291 * 60 + 1, 26910000 * 60]   # 2021-02-28 23:50, 2021-03-01 00:10, 00:11:01, 12:00 (seconds since 1970)
BUCKET = 'c15-bucket'
WRITES = ('create', 'save', 'savecrash')
OPS = WRITES + ('get', 'getmeta', 'list', 'close', 'exit')
VIEW_KEYS = ('res', 'log', 'keys', 'visible')
METADATAS = [None, None, {'m': 1}, {'m': 'x', 'n': [1, 2]}, {}]


def day_str(t):
    return (EPOCH + datetime.timedelta(seconds=t)).strftime('%Y%m%d')


def roots(p):
    r = BASE + (p + '/' if p else '')
    return r, r + 'full/', r + 'metadata/'


def shadowed(p):
    """the root of key prefix `p` lies inside the default prefix's own full/ or metadata/ key space"""
    return p in SHADOWED or p.startswith('full/') or p.startswith('metadata/')


class FakeDT(datetime.datetime):
    """stand-in for the name `datetime` inside s3_tape_cassette.py: the clock is a settable class attribute"""
    NOW = EPOCH

    @classmethod
    def utcnow(cls):
        return cls.NOW

    @classmethod
    def today(cls):
        return cls.NOW


class _Hex(object):
    def __init__(self, h):
        self.hex = h


class FakeUuid(object):
    """stand-in for the name `uuid` inside s3_tape_cassette.py: `uuid1().hex` is the uid of the current create op"""
    cur = 'unset'

    def uuid1(self):
        return _Hex(self.cur)


FAKE_UUID = FakeUuid()


class C15(Prop):
    ID = 'C15'
    CORRESPONDENCE = ('PlaybackModel.S3.step / runShared (create, save, interrupted save, get, get metadata, list, close, exit; '
                      'driver handler c15.run) vs the real S3TapeCassette + S3BasicFacade on an in-memory bucket: per step the '
                      'result, the mutation log, the bucket key set and what a fresh read-only cassette can discover / fetch')
    RULE = ('call sequences of 1-10 operations (create, save, get, get_recording_metadata, iter_recording_ids, close, '
            'context-manager exit) on 1-3 cassettes sharing one bucket with foreign objects; all 16 read_only x transient x '
            "prefix ('', a, ab, a/b) combinations enumerated first, then random ones (including two cassettes with the same "
            "prefix, and prefixes that differ from a neighbour's only by '/' characters: a/, /a, a//b, /); "
            'for every save of a sequence the two variants of the sequence in which that save is interrupted after '
            'its 1st / 2nd bucket mutation, the variant in which the store REFUSES its 2nd put (an error answer: the saving code\'s own '
            'handlers run; also on re-saves of stored recordings) and the two in which it refuses the put of the full object; ~12% of the sequences save a recording, delete it by closing a transient cassette on '
            'its key prefix and save the very same recording again through the same cassette object (a recording object fetched earlier in the sequence is saved as it is when the save asks for exactly its content); three sequences close a transient '
            'cassette, use it again and close it again; foreign objects include neighbours whose keys only begin like the cassette\'s folders; rarely (~3% of the sequences) a default-prefix cassette next to one with prefix '
            "'full' / 'metadata' (known finding K8); a case is non-trivial when it logged a mutation or refused a write; "
            '+ (not modelled) a read-only cassette looking up recordings with a metadata filter in a key space that also holds objects it cannot read as metadata: the bucket is unchanged; '
            'distinct = distinct canonical case')
    TRUSTED = ['correspondence harness harness/props/c15.py + Lean driver (Drive/S3.lean, handler c15.run)',
               'harness/fake_s3.py: the in-memory stand-in for boto3.client / boto3.resource behind the REAL S3BasicFacade '
               '(strong read-after-write, lexicographic listing, one log entry per mutation, a crash = BaseException raised '
               'right after the k-th mutation); the consistency model of the real S3 is not checked',
               "strftime('%Y%m%d') is a parameter of the model; the driver gets its graph on the days used as a table "
               "computed by Python's datetime",
               'the clock and uuid.uuid1 of s3_tape_cassette.py are replaced by settable stand-ins (module attributes '
               '`datetime`, `uuid`)']
    ASSUMPTIONS = ['no sampling calculator and no infrequent-access threshold (the defaults); recordings are small '
                   'MemoryRecordings with JSON-native metadata',
                   'a crash is the loss of the process right after an individual bucket mutation (no torn single put)',
                   'completeness of discoverable recordings is claimed for saves only, not for the clean-up of close()',
                   'recording ids have the shape category/YYYYMMDD/uid',
                   "neighbour independence is claimed per key prefix: an object written through one key prefix is never deleted "
                   "or overwritten through another (open known finding K8: default prefix vs prefixes full / metadata)"]
    PARALLEL = 14

    # ------------------------------------------------------------------------------------------------------
    # generator
    # ------------------------------------------------------------------------------------------------------
    def generate(self, rng, tier):
        n = 400 if tier == 'quick' else 8000
        cases = []
        combos = [{'p': p, 'ro': ro, 'tr': tr} for p in PREFIXES for ro in (False, True) for tr in (False, True)]
        k = 0
        while len(cases) < n:
            first = combos[k] if k < len(combos) else None
            k += 1
            # rarely: a default-prefix cassette next to one whose prefix is 'full' / 'metadata' (known finding K8)
            if first is None and rng.random() < 0.12:
                # the SAME recording (same id, same content) saved again after its objects were deleted
                base = self.resave_seq(rng)
            else:
                base = self.rand_seq(rng, first, k8=(first is None and rng.random() < 0.03))
            cases.append(base)
            cases.extend(self.crash_variants(base))
            if k in (3, 9, 15):
                cases.append(self.reclose_seq(rng))
            if rng.random() < 0.15:
                cases.append(self.multi_crash(base, rng))
        # (not modelled) a read-only cassette looking up recordings with a metadata filter in a key space that also holds objects
        # it cannot read as metadata (a console folder marker, a truncated upload, a stray file): whatever the lookup does -
        # fail or skip them - it changes nothing in the bucket
        for _ in range(12 if tier == 'quick' else 120):
            p = rng.choice(PREFIXES)
            cat = rng.choice(CATS[:2])
            junk = rng.sample(['%s/' % cat, '%s/20210301/' % cat, '%s/20210301/junk' % cat, '%s/20210301/u000.part' % cat], rng.randint(1, 3))
            cases.append({'kind': 'rolist', 'model': False, 'p': p, 'cat': cat, 'junk': junk, 'empty': [rng.random() < 0.5 for _ in junk],
                          'saved': rng.randint(0, 3), 'filter': rng.choice([{'m': 1}, {'m': 'x'}, {'n': [1, 2]}]),
                          'how': rng.choice(['ids', 'metadata'])})
        return cases

    @staticmethod
    def finish(foreign, cfgs, ops):
        days = sorted({o['t'] // 86400 for o in ops if 't' in o})
        return {'foreign': list(foreign), 'cfgs': [dict(c) for c in cfgs],
                'daytab': [[d, day_str(d * 86400)] for d in days], 'ops': [dict(o) for o in ops]}

    def rand_cfgs(self, rng, first, k8=False):
        if k8:
            cfgs = [{'p': '', 'ro': rng.random() < 0.3, 'tr': rng.random() < 0.6},
                    {'p': rng.choice(SHADOWED), 'ro': False, 'tr': rng.random() < 0.3}]
            if rng.random() < 0.3:
                cfgs.append({'p': rng.choice(PREFIXES[1:]), 'ro': rng.random() < 0.3, 'tr': rng.random() < 0.5})
            rng.shuffle(cfgs)
            return cfgs
        ncass = rng.choice([1, 2, 2, 3, 3])
        cfgs = [dict(first) if first else
                {'p': rng.choice(PREFIXES), 'ro': rng.random() < 0.3, 'tr': rng.random() < 0.5}]
        while len(cfgs) < ncass:
            used = [c['p'] for c in cfgs]
            if rng.random() < 0.25:     # deliberately the same prefix: typically a reader next to a writer
                src = rng.choice(cfgs)
                cfgs.append({'p': src['p'], 'ro': (not src['ro']) if rng.random() < 0.8 else src['ro'],
                             'tr': rng.random() < 0.4})
            elif rng.random() < 0.15:
                # a key prefix that differs from a neighbour's only by '/' characters: a key space of its own
                src = rng.choice(cfgs)['p']
                twin = rng.choice([src + '/', '/' + src, src.replace('/', '//') if '/' in src else src + '/'])
                cfgs.append({'p': twin, 'ro': rng.random() < 0.2, 'tr': rng.random() < 0.6})
            else:
                free = [p for p in PREFIXES if p not in used]
                cfgs.append({'p': rng.choice(free or PREFIXES), 'ro': rng.random() < 0.3, 'tr': rng.random() < 0.5})
        return cfgs

    def reclose_seq(self, rng):
        """a transient cassette object that is closed, used again and closed again (two `with` blocks, a close() that is
        retried): every close removes what the cassette stored until then"""
        p = rng.choice(PREFIXES)
        cfgs = [{'p': p, 'ro': False, 'tr': True}, {'p': rng.choice([q for q in PREFIXES if q != p]), 'ro': False, 'tr': False}]
        foreign = rng.sample(FOREIGN, rng.randint(2, len(FOREIGN)))
        ops = []
        for j in range(3):
            t = TIMES[min(j, len(TIMES) - 1)]
            cat = rng.choice(CATS[:2])
            u = 'u%03d' % j
            ops.append({'c': 0, 'op': 'create', 'cat': cat, 'uid': u, 't': t})
            ops.append({'c': 0, 'op': 'save', 'id': '%s/%s/%s' % (cat, day_str(t), u), 't': t})
            if j == 0:
                ops.append({'c': 1, 'op': 'create', 'cat': cat, 'uid': 'n%03d' % j, 't': t})
                ops.append({'c': 1, 'op': 'save', 'id': '%s/%s/n%03d' % (cat, day_str(t), j), 't': t})
            ops.append({'c': 0, 'op': rng.choice(['close', 'exit'])})
            ops.append({'c': rng.choice([0, 1]), 'op': 'list', 'cat': cat})
        ops.append({'c': 0, 'op': 'close'})
        return self.finish(foreign, cfgs, ops)

    def resave_seq(self, rng):
        """save a recording, delete it by closing a transient writable cassette on that key prefix (the saving cassette
        itself or another one), then save the very same recording (same id, same data, same metadata) again through the
        SAME cassette object, and look it up: everything discoverable must be fetchable at every point of the re-save"""
        p = rng.choice(PREFIXES)
        if rng.random() < 0.5:
            cfgs = [{'p': p, 'ro': False, 'tr': True}]
            saver = closer = 0
        else:
            cfgs = [{'p': p, 'ro': False, 'tr': rng.random() < 0.3}, {'p': p, 'ro': False, 'tr': True}]
            saver, closer = 0, 1
        if rng.random() < 0.3:
            cfgs.append({'p': rng.choice([q for q in PREFIXES if q != p]), 'ro': rng.random() < 0.3, 'tr': rng.random() < 0.5})
        foreign = rng.sample(FOREIGN, rng.randint(2, len(FOREIGN)))
        ops, saves = [], []
        for j in range(rng.choice([1, 1, 2])):
            t = rng.choice(TIMES)
            cat = rng.choice(CATS[:2])
            u = 'u%03d' % j
            rid = '%s/%s/%s' % (cat, day_str(t), u)
            ops.append({'c': saver, 'op': 'create', 'cat': cat, 'uid': u, 't': t})
            sv = {'c': saver, 'op': 'save', 'id': rid, 't': t}
            m = rng.choice(METADATAS)
            if m is not None:
                sv['md'] = to_wire(m)['d']
            ops.append(sv)
            saves.append(sv)
        if rng.random() < 0.5:
            ops.append({'c': rng.randrange(len(cfgs)), 'op': rng.choice(['list', 'get']), 'cat': saves[0]['id'].split('/')[0],
                        'id': saves[0]['id']})
        ops.append({'c': closer, 'op': rng.choice(['close', 'exit'])})
        if rng.random() < 0.4:
            ops.append({'c': saver, 'op': 'list', 'cat': saves[0]['id'].split('/')[0]})
        for sv in rng.sample(saves, rng.randint(1, len(saves))):
            again = dict(sv)
            if rng.random() < 0.3:
                again['t'] = max(TIMES)
            ops.append(again)
            if rng.random() < 0.6:
                ops.append({'c': rng.choice([saver, closer]), 'op': 'get', 'id': sv['id']})
        ops.append({'c': saver, 'op': 'list', 'cat': saves[0]['id'].split('/')[0]})
        ops = [{k: v for k, v in o.items() if not (o['op'] == 'list' and k == 'id') and not (o['op'] == 'get' and k == 'cat')}
               for o in ops]
        return self.finish(foreign, cfgs, ops)

    def rand_seq(self, rng, first=None, k8=False):
        cfgs = self.rand_cfgs(rng, first, k8)
        foreign = rng.sample(FOREIGN, rng.randint(2, len(FOREIGN)))
        nops = rng.randint(1, 10)
        ops = []
        uid = [0]
        ti = [rng.randrange(len(TIMES))]
        pending = [[] for _ in cfgs]     # ids created (or made up) but not yet saved, per cassette
        saved = {}                       # prefix -> ids saved (completely or not) under it

        def now():
            if rng.random() < 0.4 and ti[0] + 1 < len(TIMES):
                ti[0] += 1
            return TIMES[ti[0]]

        def fresh_id(t):
            u = 'u%03d' % uid[0]
            uid[0] += 1
            return '%s/%s/%s' % (rng.choice(CATS[:2] if rng.random() < 0.8 else CATS), day_str(t), u), u

        def md():
            m = rng.choice(METADATAS)
            return None if m is None else to_wire(m)['d']

        last = {}     # (cassette index, id) -> the last save op of that recording through that cassette object

        def emit_save(c, rid):
            o = {'c': c, 'op': 'save', 'id': rid, 't': now()}
            if (c, rid) in last and rng.random() < 0.6:
                # the very same recording again (same data, same metadata) through the same cassette object
                if 'md' in last[(c, rid)]:
                    o['md'] = last[(c, rid)]['md']
            else:
                m = md()
                if m is not None:
                    o['md'] = m
            last[(c, rid)] = o
            ops.append(o)
            saved.setdefault(cfgs[c]['p'], []).append(rid)

        def some_id(c):
            pool = saved.get(cfgs[c]['p'], [])
            r = rng.random()
            if pool and r < 0.7:
                return rng.choice(pool)
            others = [i for v in saved.values() for i in v]
            if others and r < 0.85:
                return rng.choice(others)    # saved under another prefix (or this one)
            return '%s/%s/u9%02d' % (rng.choice(CATS), day_str(rng.choice(TIMES)), rng.randrange(100))   # unknown id

        closers = [i for i, c in enumerate(cfgs) if c['tr'] and not c['ro']]
        final_close = None
        if len(cfgs) > 1 and rng.random() < (0.7 if k8 else 0.35):
            # neighbours first: one recording under every cassette (refused on the read-only ones), so that a close has
            # something of the others to spare
            nops = min(10, max(nops, len(cfgs) + 2))
            for c in range(len(cfgs)):
                rid, _ = fresh_id(now())
                emit_save(c, rid)
            if closers:
                final_close = {'c': rng.choice(closers), 'op': rng.choice(['close', 'exit'])}
                nops -= 1
        while len(ops) < nops:
            c = rng.randrange(len(cfgs))
            cfg = cfgs[c]
            r = rng.random()
            if r < 0.34:        # create, then (mostly) save what was created
                t = now()
                rid, u = fresh_id(t)
                cat = rid.split('/')[0]
                ops.append({'c': c, 'op': 'create', 'cat': cat, 'uid': u, 't': t})
                if cfg['ro']:
                    # create is refused; a raw save of a well-formed id exercises the save path's own assertion
                    if rng.random() < 0.7 and len(ops) < nops:
                        emit_save(c, rid)
                    continue
                pending[c].append(rid)
                if rng.random() < 0.8 and len(ops) < nops:
                    emit_save(c, pending[c].pop())
            elif r < 0.46:      # raw save: a pending id, a made-up id, an id saved before (overwrite) or another cassette's
                q = rng.random()
                if pending[c] and q < 0.4:
                    rid = pending[c].pop(rng.randrange(len(pending[c])))
                elif q < 0.7 or not any(saved.values()):
                    rid, _ = fresh_id(now())
                else:
                    rid = rng.choice([i for v in saved.values() for i in v])
                emit_save(c, rid)
            elif r < 0.58:
                ops.append({'c': c, 'op': 'get', 'id': some_id(c)})
            elif r < 0.68:
                ops.append({'c': c, 'op': 'getmeta', 'id': some_id(c)})
            elif r < 0.80:
                ops.append({'c': c, 'op': 'list', 'cat': rng.choice(LIST_CATS if k8 else CATS)})
            elif r < 0.91:
                ops.append({'c': c, 'op': 'close'})
            else:
                ops.append({'c': c, 'op': 'exit'})
        if final_close is not None:
            ops.insert(rng.randint(len(cfgs), len(ops)), final_close)
        return self.finish(foreign, cfgs, ops)

    @staticmethod
    def crash_variants(case):
        """the same sequence with one save interrupted after its 1st / after its 2nd bucket mutation, for every save"""
        out = []
        for i, o in enumerate(case['ops']):
            if o['op'] != 'save':
                continue
            for k in (1, 2):
                ops = [dict(x) for x in case['ops']]
                ops[i] = dict(ops[i], op='savecrash', k=k)
                out.append(dict(case, ops=ops))
            ops = [dict(x) for x in case['ops']]
            ops[i] = dict(ops[i], op='savecrash', k=1, refused=True)
            out.append(dict(case, ops=ops))
            for reject in (1, 2):
                # the store refuses the put of the full object (once / also on a retry): nothing of this save may be visible
                ops = [dict(x) for x in case['ops']]
                ops[i] = dict(ops[i], op='savecrash', k=0, reject=reject)
                out.append(dict(case, ops=ops))
        return out

    @staticmethod
    def multi_crash(case, rng):
        ops = [dict(x) for x in case['ops']]
        for o in ops:
            if o['op'] == 'save' and rng.random() < 0.6:
                o['op'] = 'savecrash'
                o['k'] = rng.choice([0, 1, 2])
                if o['k'] == 0:
                    o['reject'] = rng.choice([1, 2])
                elif o['k'] == 1 and rng.random() < 0.5:
                    o['refused'] = True
        return dict(case, ops=ops)

    # ------------------------------------------------------------------------------------------------------
    # the real code
    # ------------------------------------------------------------------------------------------------------
    @staticmethod
    def _visible(cls, prefix):
        """what a fresh read-only cassette with this key prefix can discover, and whether each id is fetchable"""
        from playback.exceptions import NoSuchRecording
        reader = cls(BUCKET, key_prefix=prefix, read_only=True)
        out = []
        for cat in LIST_CATS:
            for rid in list(reader.iter_recording_ids(cat)):
                try:
                    reader.get_recording(rid)
                    ok = True
                except NoSuchRecording:
                    ok = False
                out.append([rid, ok])
        out.sort(key=lambda e: e[0])
        return out

    def run_rolist(self, case):
        from harness import fake_s3
        fake_s3.install()
        fake_s3.reset()
        import playback.tape_cassettes.s3.s3_tape_cassette as mod
        from playback.recordings.memory.memory_recording import MemoryRecording
        mod.datetime = FakeDT
        mod.uuid = FAKE_UUID
        FakeDT.NOW = EPOCH + datetime.timedelta(seconds=TIMES[1])
        st = fake_s3.store(BUCKET)
        st.clock = lambda: FakeDT.NOW
        writer = mod.S3TapeCassette(BUCKET, key_prefix=case['p'], read_only=False)
        for j in range(case['saved']):
            rec = MemoryRecording('%s/%s/s%03d' % (case['cat'], day_str(TIMES[1]), j))
            rec.set_data('k', 1)
            rec.add_metadata({'m': 1} if j % 2 == 0 else {'m': 'x', 'n': [1, 2]})
            writer.save_recording(rec)
        _, _, meta_root = roots(case['p'])
        for k, empty in zip(case['junk'], case['empty']):
            st.objects[meta_root + k] = (b'' if empty else b'foreign, not json', st.now(), 'STANDARD')
        before = dict(st.objects)
        log0 = len(st.log)
        reader = mod.S3TapeCassette(BUCKET, key_prefix=case['p'], read_only=True)
        try:
            if case['how'] == 'ids':
                res = ['ok', len(list(reader.iter_recording_ids(case['cat'], metadata=case['filter'])))]
            else:
                res = ['ok', len(list(reader.iter_recordings_metadata(case['cat'], metadata=case['filter'])))]
        except Exception as ex:
            res = ['raised', type(ex).__name__]
        return {'res': res, 'log': [list(map(str, e)) for e in st.log[log0:]],
                'deleted': sorted(k for k in before if k not in st.objects), 'changed': sorted(k for k in st.objects if before.get(k) != st.objects[k])}

    def run_impl(self, case):
        if case.get('kind') == 'rolist':
            return self.run_rolist(case)
        from harness import fake_s3
        fake_s3.install()
        fake_s3.reset()
        import playback.tape_cassettes.s3.s3_tape_cassette as mod
        from playback.exceptions import NoSuchRecording
        from playback.recordings.memory.memory_recording import MemoryRecording
        mod.datetime = FakeDT
        mod.uuid = FAKE_UUID
        FakeDT.NOW = EPOCH + datetime.timedelta(seconds=TIMES[0])
        st = fake_s3.store(BUCKET)
        st.clock = lambda: FakeDT.NOW
        for k in case['foreign']:
            st.objects[k] = (b'foreign', st.now(), 'STANDARD')
        cassettes = [mod.S3TapeCassette(BUCKET, key_prefix=c['p'], read_only=c['ro'], transient=c['tr'])
                     for c in case['cfgs']]
        steps = []
        fetched_objs, reused = {}, []
        for op in case['ops']:
            c = cassettes[op['c']]
            cfg = case['cfgs'][op['c']]
            _, full_root, meta_root = roots(cfg['p'])
            kind = op['op']
            if kind not in OPS:
                raise ValueError('unknown op %r' % (kind,))
            if 't' in op:
                FakeDT.NOW = EPOCH + datetime.timedelta(seconds=op['t'])
            before = dict(st.objects)
            log0 = len(st.log)
            vis_before = self._visible(mod.S3TapeCassette, cfg['p']) if kind in ('save', 'savecrash') else None
            others = sorted({x['p'] for x in case['cfgs']} - {cfg['p']}) if kind in ('save', 'savecrash') else []
            vis_others_before = {q: self._visible(mod.S3TapeCassette, q) for q in others}
            try:
                if kind == 'create':
                    FAKE_UUID.cur = op['uid']
                    res = {'id': c.create_new_recording(op['cat']).id}
                elif kind in ('save', 'savecrash'):
                    # a recording fetched earlier in the sequence and saved unchanged (promoting / restoring a recording) is the
                    # same request as saving a freshly built recording with that id, data and metadata
                    want_md = to_py({'d': op['md']}) if 'md' in op else {}
                    rec = fetched_objs.get(op['id'])
                    if rec is None or rec.get_metadata() != want_md or sorted(rec.get_all_keys()) != ['k']:
                        rec = MemoryRecording(op['id'])
                        rec.set_data('k', 1)
                        if 'md' in op:
                            rec.add_metadata(want_md)
                    else:
                        reused.append(op['id'])
                    if kind == 'savecrash':
                        if op['k'] == 0:
                            st.reject_full = op.get('reject', 1)      # the store refuses the put(s) of the full object
                        elif op.get('refused'):
                            # the store answers the (k+1)-th put of this save with an error: for the bucket the same thing as
                            # a crash right after mutation k - but the saving code's own error handling gets to run
                            st.reject_put_no = op['k'] + 1
                        else:
                            st.crash_after = op['k']
                    try:
                        c.save_recording(rec)
                        res = 'ok'
                    finally:
                        st.crash_after = None
                        st.reject_full = 0
                        st.reject_put_no = 0
                elif kind == 'get':
                    fetched_objs[op['id']] = c.get_recording(op['id'])
                    res = 'found'
                elif kind == 'getmeta':
                    c.get_recording_metadata(op['id'])
                    res = 'found'
                elif kind == 'list':
                    res = {'ids': list(c.iter_recording_ids(op['cat']))}
                elif kind == 'close':
                    c.close()
                    res = 'ok'
                elif kind == 'exit':
                    with c:
                        pass
                    res = 'ok'
            except fake_s3.Crash:
                res = 'crashed'
            except fake_s3.Rejected:
                res = 'crashed'           # for the bucket it is the same thing as a crash before the first mutation
            except AssertionError:
                res = 'AssertionError'
            except NoSuchRecording:
                res = 'NoSuchRecording'
            except Exception as ex:
                res = type(ex).__name__
            after = st.objects
            log = [[k, key] for k, key in st.log[log0:]]
            logged = {key for _, key in log}
            allkeys = sorted(set(before) | set(after))
            changed = [k for k in allkeys if before.get(k) is not after.get(k)]
            step = {'res': res, 'log': log, 'keys': sorted(after),
                    'visible': self._visible(mod.S3TapeCassette, cfg['p']),
                    # oracle-only observations (not part of the compared view)
                    'keys_before': sorted(before),
                    'changed': changed,
                    'touched_outside': [k for k in changed if not (k.startswith(full_root) or k.startswith(meta_root))],
                    'unlogged': [k for k in changed if k not in logged],
                    'visible_before': vis_before,
                    'visible_others_before': vis_others_before,
                    'visible_others': {q: self._visible(mod.S3TapeCassette, q) for q in others}}
            steps.append(step)
        return {'steps': steps, '_reused': len(reused)}

    def impl_view(self, case, impl):
        if case.get('kind') == 'rolist':
            return None
        return {'steps': [{k: s[k] for k in VIEW_KEYS} for s in impl['steps']]}

    # ------------------------------------------------------------------------------------------------------
    # the model
    # ------------------------------------------------------------------------------------------------------
    def model_requests(self, case):
        if case.get('kind') == 'rolist':
            return []
        req = {k: v for k, v in case.items() if not k.startswith('_')}
        req['m'] = 'c15.run'
        return [req]

    def model_transcript(self, case, answers):
        if case.get('kind') == 'rolist':
            return None
        return answers[0]

    # ------------------------------------------------------------------------------------------------------
    # the property, stated over the implementation transcript
    # ------------------------------------------------------------------------------------------------------
    def oracle(self, case, impl):
        if case.get('kind') == 'rolist':
            if impl['log'] or impl['deleted'] or impl['changed']:
                return ['a READ-ONLY cassette (prefix %r) looking up %s of category %r with filter %r in a key space that also holds %r '
                        '(%s) changed the bucket: mutations %r, deleted %r, changed %r'
                        % (case['p'], case['how'], case['cat'], case['filter'], case['junk'], impl['res'], impl['log'][:6],
                           impl['deleted'][:6], impl['changed'][:6])]
            return []
        fails = []
        owner = {}      # key -> key prefix of the cassette that wrote the object (recordings belong to a key prefix)
        for i, (op, s) in enumerate(zip(case['ops'], impl['steps'])):
            cfg = case['cfgs'][op['c']]
            p, ro, tr = cfg['p'], cfg['ro'], cfg['tr']
            root, full_root, meta_root = roots(p)
            kind = op['op']
            who = "step %d (%s on cassette %d: prefix %r, read_only=%s, transient=%s)" % (i, kind, op['c'], p, ro, tr)
            log, res = s['log'], s['res']
            before, after = s['keys_before'], s['keys']

            def say(msg):
                fails.append('%s: %s' % (who, msg))

            for k in s['unlogged']:
                say('object %r changed without a logged mutation' % k)
            # 1. read-only cassettes never write or delete, and refuse write operations
            if ro:
                for m, k in log:
                    say('read-only cassette issued %s %r' % (m, k))
                if after != before:
                    say('read-only cassette changed the key set: removed %r, added %r'
                        % (sorted(set(before) - set(after)), sorted(set(after) - set(before))))
                for k in s['changed']:
                    say('read-only cassette changed object %r' % k)
                # (that a refused write surfaces as AssertionError is documented behaviour, not part of C15: it is compared
                # with the model in the correspondence, a change there is reported as a divergence, not as a violation)
            # 2. every mutation stays under the cassette's own root
            for m, k in log:
                if not k.startswith(root):
                    say('%s %r is outside the own root %r' % (m, k, root))
            if not ro and kind in ('save', 'savecrash'):
                want = [['put', full_root + op['id']], ['put', meta_root + op['id']]]
                if kind == 'savecrash':
                    want = want[:op['k']]
                    if res != 'crashed':
                        say('the save was to be interrupted after mutation %d but ended with %r' % (op['k'], res))
                elif res != 'ok':
                    say('save on a writable cassette ended with %r' % (res,))
                if log != want:
                    say('mutations of the save are %r, expected %r' % (log, want))
            # 3. close / exit
            if kind in ('close', 'exit'):
                if tr and not ro:
                    want_keys = [k for k in before if not (k.startswith(full_root) or k.startswith(meta_root))]
                    if after != want_keys:
                        say('closing the transient cassette must leave exactly the keys outside %r and %r: wrongly removed %r, '
                            'wrongly kept/added %r' % (full_root, meta_root, sorted(set(want_keys) - set(after)),
                                                       sorted(set(after) - set(want_keys))))
                else:
                    if log:
                        say('closing a %s cassette issued %r' % ('read-only' if ro else 'non-transient', log))
                    if after != before:
                        say('closing a %s cassette changed the key set: removed %r, added %r'
                            % ('read-only' if ro else 'non-transient', sorted(set(before) - set(after)),
                               sorted(set(after) - set(before))))
                for m, k in log:
                    if m != 'delete':
                        say('close issued %s %r' % (m, k))
            else:
                for m, k in log:
                    if m == 'delete':
                        say('%s deleted %r' % (kind, k))
                gone = sorted(set(before) - set(after))
                if gone:
                    say('%s removed keys %r' % (kind, gone))
            # 4. everything outside the own full/ and metadata/ roots is untouched (foreign objects, other cassettes)
            for k in s['touched_outside']:
                say('object %r outside %r and %r was %s' % (k, full_root, meta_root,
                                                             'removed' if k not in after else
                                                             ('created' if k not in before else 'overwritten')))
            # 7. "its own recordings and nothing else": an object written through one key prefix is never deleted or
            #    overwritten through a different key prefix
            for m, k in log:
                if k in owner and owner[k] != p:
                    mark = K8_MARK if (m == 'delete' and p == '' and kind in ('close', 'exit') and tr and not ro
                                       and shadowed(owner[k])) else ''
                    say('%s%s %r, an object of the cassette with key prefix %r' % (mark, m, k, owner[k]))
                if m == 'put':
                    owner[k] = p
                else:
                    owner.pop(k, None)
            # 5. complete-before-visible at every (intermediate) point of a save, through every key prefix in the case
            if kind in ('save', 'savecrash'):
                views = [(p, s['visible_before'] or [], s['visible'])]
                for q in sorted(s.get('visible_others') or {}):
                    views.append((q, (s.get('visible_others_before') or {}).get(q) or [], s['visible_others'][q]))
                for q, vis_before, vis in views:
                    was = {rid: ok for rid, ok in vis_before}
                    for rid, ok in vis:
                        if not ok and was.get(rid, True):
                            mkey = roots(q)[2] + rid
                            mark = K8_MARK if (q == '' and shadowed(owner.get(mkey, '')) and
                                               (rid.startswith('full/') or rid.startswith('metadata/'))) else ''
                            say('%safter %s recording %r is discoverable through a fresh read-only cassette with prefix %r but '
                                'get_recording raises NoSuchRecording (keys: %r)'
                                % (mark, 'the complete save' if kind == 'save'
                                   else 'a crash following mutation %d of the save' % op['k'],
                                   rid, q, [k for k in after if k.endswith(rid)]))
            # 6. reads never mutate
            if kind in ('get', 'getmeta', 'list'):
                if log:
                    say('a read issued %r' % (log,))
                if after != before or s['changed']:
                    say('a read changed the bucket: %r' % (s['changed'] or sorted(set(before) ^ set(after)),))
        if len(impl['steps']) != len(case['ops']):
            fails.append('transcript has %d steps for %d operations' % (len(impl['steps']), len(case['ops'])))
        return fails

    # ------------------------------------------------------------------------------------------------------
    def nontrivial(self, case, impl):
        if case.get('kind') == 'rolist':
            return True
        return any(s['log'] or s['res'] == 'AssertionError' for s in impl['steps'])

    def features(self, case, impl):
        if case.get('kind') == 'rolist':
            return ['read-only-filtered-lookup-among-unreadable-objects:%s' % impl['res'][0]]
        out = set()
        out.add('cassettes:%d' % len(case['cfgs']))
        out.add('ops:%d' % len(case['ops']))
        if isinstance(impl, dict) and impl.get('_reused'):
            out.add('save:fetched-recording-object-saved-unchanged')
        ps = [c['p'] for c in case['cfgs']]
        if len(set(ps)) < len(ps):
            out.add('cfg:same-prefix-twice')
        for c in case['cfgs']:
            out.add('cfg:ro=%s,tr=%s,p=%s' % (int(c['ro']), int(c['tr']), c['p'] or "''"))
        for op, s in zip(case['ops'], impl['steps']):
            out.add('op:' + op['op'])
            r = s['res']
            out.add('res:' + (r if isinstance(r, str) else sorted(r)[0]))
            if op['op'] == 'savecrash':
                out.add('crash:k=%d' % op['k'])
            if any(m == 'delete' for m, _ in s['log']):
                out.add('log:delete')
            if any(m == 'put' for m, _ in s['log']):
                out.add('log:put')
            if any(not ok for _, ok in s['visible']):
                out.add('visible:unfetchable')
        return sorted(out)

    def known_finding(self, case, failures):
        """K8 only: a default-prefix cassette shares the bucket with a cassette whose prefix is full / metadata (or starts
        with full/ / metadata/) AND every failure is one of the two shapes the oracle marks under exactly those conditions
        (objects of such a neighbour deleted by the transient default-prefix close; a neighbour's object discoverable but
        not fetchable through the default prefix)"""
        if not failures or case.get('kind') == 'rolist':
            return None
        ps = [c['p'] for c in case['cfgs']]
        if '' not in ps or not any(shadowed(q) for q in ps):
            return None
        if all(K8_MARK in f for f in failures):
            return K8
        return None

    def shrink(self, case):
        if case.get('kind') == 'rolist':
            return
        ops, cfgs, foreign = case['ops'], case['cfgs'], case['foreign']
        for i in range(len(ops) - 1, -1, -1):
            if len(ops) > 1:
                yield dict(case, ops=ops[:i] + ops[i + 1:])
        for j in range(len(cfgs)):
            if len(cfgs) > 1:
                new_ops = [dict(o, c=o['c'] - (1 if o['c'] > j else 0)) for o in ops if o['c'] != j]
                if new_ops:
                    yield dict(case, cfgs=cfgs[:j] + cfgs[j + 1:], ops=new_ops)
        for i in range(len(foreign)):
            yield dict(case, foreign=foreign[:i] + foreign[i + 1:])
        for i, o in enumerate(ops):
            if 'md' in o:
                yield dict(case, ops=ops[:i] + [{k: v for k, v in o.items() if k != 'md'}] + ops[i + 1:])

    def targeted(self, case, rng):
        out = []
        combos = [{'p': p, 'ro': ro, 'tr': tr} for p in PREFIXES for ro in (False, True) for tr in (False, True)]
        k = 0
        while len(out) < 1500:
            base = self.rand_seq(rng, combos[k % len(combos)] if k < 2 * len(combos) else None)
            k += 1
            out.append(base)
            out.extend(self.crash_variants(base))
        return out


PROP = C15
