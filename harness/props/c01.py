"""C01 - Replay on unchanged code reproduces the recorded run (DESIGN.md section 6, C01)."""
import copy

from harness.props.recorder_common import RecorderProp, ALL_OPTS
from harness import recorder_gen as rg
from harness import threads_c04 as T


class C01(RecorderProp):
    ID = 'C01'
    RULE = ('random operations (0-14 intercepted calls, >= 10 calls on one alias in part of the cases, the same alias with '
            'different arguments, instance / static / property sites, class-level operations, alias resolvers, capture '
            'subsets, wrapping data handlers, bodies raising, nested interceptions, values incl. tuples / bytes / nested '
            'containers / objects / self-referencing lists) recorded on memory / file / S3 cassettes, each followed by a replay of the SAME program on '
            'the same recorder or on a fresh recorder over the same cassette; 30% of the cases declare what-to-do-when-missing policies '
            '(run the original, substitute value, default output result, fallback aliases) on their sites - none may ever be taken; non-trivial = the recording was saved complete and '
            'holds at least one interception; distinct = distinct canonical case')
    OPTS = dict(ALL_OPTS, faults=False, control=False, data=False, sampling=False, missing_play=False, body_effects=False,
                interrupts=True, play_ratio=0.0, runs=(1, 2), cassettes=['memory', 'memory', 'file', 's3', 'async'], fallbacks=True)
    N = {'quick': 2500, 'thorough': 30000}

    def gen_one(self, rng, tier):
        # one case in six carries values that contain themselves / one object twice (copied value by value: in-memory)
        opts = dict(self.OPTS, aliasing=True) if rng.random() < 0.17 else self.OPTS
        if rng.random() < 0.3:
            # sites declared with what-to-do-when-missing policies (run the original, substitute value, default output result):
            # on unchanged code nothing is missing, so none of them may ever be taken - whatever the recorded calls ended with
            opts = dict(opts, policies=True)
        case = rg.gen_history(rng, opts)
        runs, created = [], 0
        for run in case['runs']:
            run['enabled'] = True
            runs.append(run)
            if rg.created_by(run, case['classes']):
                runs.append({'run': 'play', 'cls': run['cls'], 'rec': created, 'enabled': rng.random() < 0.5,
                             'script': run['script'], 'clock': [100, 101, 102]})
                created += 1
        case['runs'] = runs
        if runs[-1]['run'] == 'play' and rng.random() < 0.4:
            case['fresh_before_last'] = True        # replay by another recorder
        return case

    THREADS = {'quick': 150, 'thorough': 2000}

    def generate(self, rng, tier):
        # worker threads inside the operation (no theorem: partial) - inputs are looked up by key, outputs use thread-disjoint
        # aliases; record and replay both run under scheduler-chosen interleavings
        return super(C01, self).generate(rng, tier) + [T.gen_record_replay(rng) for _ in range(self.THREADS[tier])]

    def run_impl(self, case):
        if case.get('kind') == 'threads':
            return T.run_record_replay_threads(case)
        return super(C01, self).run_impl(case)

    # -- threads: the model (PlaybackModel/ThreadsReplay.lean) runs the same thread programs under schedules of ITS OWN -----
    @staticmethod
    def thread_programs(case):
        """per worker: the calls on its aliases in happens-before order (what the operation's own thread sends on a
        worker's alias before starting / after joining it is placed before / after the worker's calls)"""
        progs = []
        for wi, calls in enumerate(case['workers']):
            pre = [{'site': 'out', 'arg': c['arg']} for c in case.get('pre', []) if c['w'] == wi]
            post = [{'site': 'out', 'arg': c['arg']} for c in case.get('post', []) if c['w'] == wi]
            progs.append(pre + list(calls) + post)
        return progs

    def model_requests(self, case):
        if case.get('kind') != 'threads':
            return super(C01, self).model_requests(case)
        import random
        rnd = random.Random(case['rand'] * 7 + 1)
        threads, world = [], {}
        for wi, calls in enumerate(self.thread_programs(case)):
            prog = []
            for c in calls:
                if c['site'] == 'in':
                    prog.append({'in': True, 'name': 'in:%d' % c['arg'], 'arg': '', 'res': ''})
                    world['in:%d' % c['arg']] = 'value:%d:%d' % (c['arg'], c['arg'] * 7)
                else:
                    prog.append({'in': False, 'name': 'out%d' % wi, 'arg': '%d' % c['arg'], 'res': 'ack:%d:%d' % (wi, c['arg'])})
            threads.append(prog)
        n = len(threads)
        total = sum(len(p) for p in threads)
        return [{'m': 'c01.threads', 'threads': threads, 'world': sorted(world.items()),
                 's1': [rnd.randrange(n + 1) for _ in range(2 * total)], 's2': [rnd.randrange(n + 1) for _ in range(2 * total)]}]

    def model_transcript(self, case, answers):
        if case.get('kind') != 'threads':
            return super(C01, self).model_transcript(case, answers)
        a = answers[0]
        op_out = ['output: _tape_recorder_operation #1.output', repr({'args': ['done'], 'kwargs': {}})]

        def outs(rows):
            return sorted([['output: %s #%d.output' % (al, k), repr({'args': [int(arg)], 'kwargs': {}})] for _, al, k, arg in rows] + [op_out])
        return {'record': a['record'], 'replay': a['replay'], 'recorded': outs(a['recorded']), 'playback': outs(a['playback']),
                'complete': a['complete']}

    def impl_view(self, case, impl):
        if case.get('kind') != 'threads':
            return super(C01, self).impl_view(case, impl)

        def txt(o):
            return 'exc:' + o[1] if o[0] == 'exc' else ':'.join(str(x) for x in o[1])

        def per_thread(results):
            workers, main = results[:-1], list(results[-1])
            pre, post = case.get('pre', []), case.get('post', [])
            main_pre, main_post = main[:len(pre)], main[len(pre):]
            out = []
            for wi, res in enumerate(workers):
                out.append([txt(o) for c, o in zip(pre, main_pre) if c['w'] == wi] + [txt(o) for o in res] +
                           [txt(o) for c, o in zip(post, main_post) if c['w'] == wi])
            return out
        return {'record': per_thread(impl['record']['results']), 'replay': per_thread(impl['replay']['results']),
                'recorded': impl['outputs'].get('recorded'), 'playback': impl['outputs'].get('playback'), 'complete': True}

    def sample_repr(self, case):
        return case if case.get('kind') == 'threads' else super(C01, self).sample_repr(case)

    def features(self, case, impl):
        if case.get('kind') == 'threads':
            return ['threads:record+replay', 'threads:workers=%d' % len(case['workers'])]
        return super(C01, self).features(case, impl)

    def oracle(self, case, impl):
        if case.get('kind') == 'threads':
            fails = []
            want = [[['ret', ['value', c['arg'], c['arg'] * 7]] if c['site'] == 'in' else ['ret', ['ack', wi, c['arg']]] for c in calls]
                    for wi, calls in enumerate(case['workers'])]
            want.append([['ret', ['ack', c['w'], c['arg']]] for c in case.get('pre', []) + case.get('post', [])])
            for phase in ('record', 'replay'):
                r = impl[phase]
                if r['outcome'] != 'finished' or r['main'] not in ([['ret', 'done']], [['ret', 'played']]):
                    fails.append('threads %s: run ended %s / %r (schedules %r)' % (phase, r['outcome'], r['main'], impl['_choices']))
                if r['results'] != want:
                    fails.append('threads %s: worker calls were handed %r, recorded run produced %r (schedules %r)'
                                 % (phase, r['results'], want, impl['_choices']))
            if impl['outputs'].get('playback') != impl['outputs'].get('recorded'):
                fails.append('threads: outputs captured during replay %r differ from the recorded outputs %r'
                             % (impl['outputs'].get('playback'), impl['outputs'].get('recorded')))
            return fails
        fails = []
        for i, (run, r) in enumerate(zip(case['runs'], impl)):
            if run['run'] != 'play' or i == 0:
                continue
            prev, pr = case['runs'][i - 1], impl[i - 1]
            saved = pr.get('saved')
            if prev['run'] != 'op' or prev['script'] != run['script'] or not saved or 'meta' not in saved:
                continue
            if saved['meta']['incomplete'] is not False:
                continue
            if r['result'][0] != 'played':
                fails.append('run %d: replay of saved complete recording #%d on the same code ended %r' % (i, run['rec'], r['result']))
                continue
            if r['_outcomes'] != pr['_outcomes']:
                k = next((j for j, (a, b) in enumerate(zip(r['_outcomes'], pr['_outcomes'])) if a != b),
                         min(len(r['_outcomes']), len(pr['_outcomes'])))
                fails.append('run %d: intercepted call %d got %r during replay but %r while recording'
                             % (i, k, (r['_outcomes'] + [None])[k], (pr['_outcomes'] + [None])[k]))
            if r['result'][1] != r['result'][2]:
                fails.append('run %d: outputs captured during replay %r differ from the recorded outputs %r'
                             % (i, r['result'][1], r['result'][2]))
            if r['journal']:
                fails.append('run %d: wrapped bodies executed during replay: %r' % (i, r['journal']))
            want = ['sent', [pr['end'][1] if pr['end'][0] == 'ret' else 'exc:' + pr['end'][1]], []]
            got = [v for k, v in r['result'][1] if k == 'output: _tape_recorder_operation #1.output']
            if got != [want]:
                fails.append('run %d: replay captured operation output %r, the recorded run ended %r' % (i, got, pr['end']))
        return fails

    def known_finding(self, case, failures):
        if case.get('share'):
            return 'shared-subobject-after-object-state'
        return None

    def nontrivial(self, case, impl):
        if case.get('kind') == 'threads':
            return True
        return any(r.get('saved') and 'meta' in r['saved'] and r['saved']['meta']['incomplete'] is False
                   and (r['saved']['data']['inputs'] or len(r['saved']['data']['named']) > 1) for r in impl)

    def shrink(self, case):
        if case.get('kind') == 'threads':
            return
        # keep (op, play) pairs in step: statements are dropped from both
        for c in super(C01, self).shrink(case):
            runs = c['runs']
            ok = True
            for i, run in enumerate(runs):
                if run['run'] == 'play' and (i == 0 or runs[i - 1]['run'] != 'op'):
                    ok = False
            if ok:
                for i, run in enumerate(runs):
                    if run['run'] == 'play':
                        run['script'] = copy.deepcopy(runs[i - 1]['script'])
                yield c


PROP = C01
