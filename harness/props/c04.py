"""C04 - Recording is transparent to the recorded service (DESIGN.md section 6, C04)."""
import random

from harness.props.recorder_common import RecorderProp, op_runs, records, ALL_OPTS
from harness import threads_c04 as T
from harness import sched as S


class Bag(object):
    """attribute bag: unknown attributes raise KeyError, not AttributeError"""
    def __init__(self, n):
        self.__dict__['_data'] = {'a': n, 'b': [n]}

    def __getattr__(self, name):
        if name == '_data':
            raise AttributeError(name)
        return self._data[name]


class Proxy(object):
    """remote proxy: unknown public attributes raise RuntimeError"""
    def __init__(self, n):
        self.v = n

    def __getattr__(self, name):
        if name.startswith('__') or name == 'v':
            raise AttributeError(name)
        raise RuntimeError('remote attribute %s' % name)


class NoBool(object):
    def __init__(self, n):
        self.v = n

    def __bool__(self):
        raise ValueError('the truth value is ambiguous')


class NoEq(object):
    def __init__(self, n):
        self.v = n

    def __eq__(self, other):
        raise TypeError('not comparable')
    __hash__ = object.__hash__


class NoLen(object):
    def __init__(self, n):
        self.v = n

    def __len__(self):
        raise TypeError('no length')


class NoRepr(object):
    def __init__(self, n):
        self.v = n

    def __repr__(self):
        raise RuntimeError('no repr')
    __str__ = __repr__


class NoHash(object):
    def __init__(self, n):
        self.v = n

    def __eq__(self, other):
        return isinstance(other, NoHash) and other.v == self.v


class NoGetState(object):
    def __init__(self, n):
        self.v = n

    def __getstate__(self):
        raise RuntimeError('state is not available')


class OddError(Exception):
    pass


ODD = {'bag': Bag, 'proxy': Proxy, 'nobool': NoBool, 'noeq': NoEq, 'nolen': NoLen, 'norepr': NoRepr, 'nohash': NoHash,
       'nogetstate': NoGetState}


class C04(RecorderProp):
    ID = 'C04'
    RULE = ('random histories of operations on one recorder with every tolerated fault kind (key cannot be built, input/output '
            'data handler raises, unserialisable value, extractor raises / returns junk, save raises), discard / force from '
            'the operation and from intercepted bodies, nested interceptions, interrupts, all sampling parameters, recording '
            'enabled / disabled / class skipped (disabled operations also called with keyword arguments only, `Service.execute(self=obj, script=...)`), the kill switch flipped mid-operation (also by the main thread while worker interceptions '
            'are in flight), on memory / file / S3 cassettes and through the asynchronous wrapper; each run is executed decorated and as an '
            'undecorated twin; plus worker-thread scenarios (1-2 workers making intercepted calls while the main thread returns / '
            'discards / joins) under the controlled scheduler, one-shot values (iterators, streams) and values whose special methods misbehave '
            '(attribute bags raising KeyError, remote proxies, ambiguous truth values, failing __eq__/__len__/__repr__/__getstate__, unhashable) as '
            'results, arguments, operation results and exception payloads with and without copy-on-interception: every schedule with <= 2 pre-emptions at line granularity inside '
            'tape_recorder.py (bounded by a run budget) and random schedules; non-trivial = at least one run with an intercepted '
            'call; distinct = distinct canonical case')
    OPTS = dict(ALL_OPTS, play_ratio=0.1, cassettes=['memory', 'memory', 'file', 's3', 'async'], enabled_ratio=0.8)
    N = {'quick': 3000, 'thorough': 30000}
    # (only a tree on which thread schedules block comes near it: each blocked schedule costs a scheduler watchdog period)
    TIME_BUDGET = {'quick': 900, 'thorough': 6000}

    THREAD_SCENARIOS = {'quick': 6, 'thorough': 40}
    THREAD_PREEMPTIONS = {'quick': 2, 'thorough': 2}
    THREAD_MAX_RUNS = {'quick': 700, 'thorough': 6000}
    THREAD_RANDOM = {'quick': 60, 'thorough': 600}

    # -- interceptions in flight on worker threads (controlled scheduler, line granularity) ---------------------------
    def generate(self, rng, tier):
        cases = super(C04, self).generate(rng, tier)
        for kind in self.ITER_KINDS:
            for copy in (False, True):
                for site in ('in', 'out'):
                    cases.append({'kind': 'iter', 'model': False, 'iter': kind, 'copy': copy, 'site': site,
                                  'data': [rng.randint(0, 9) for _ in range(rng.randint(1, 4))], 'partly': rng.random() < 0.5})
        for kind in self.ODD_KINDS:
            for copy in (False, True):
                for site in self.ODD_SITES:
                    cases.append({'kind': 'odd', 'model': False, 'odd': kind, 'copy': copy, 'site': site, 'n': rng.randint(0, 9)})
        for i in range(self.THREAD_SCENARIOS[tier]):
            base = T.gen_base(rng)
            # every schedule with at most k pre-emptions (bounded by max_runs), explored inside run_impl
            cases.append(dict(base, explore=self.THREAD_PREEMPTIONS[tier], max_runs=self.THREAD_MAX_RUNS[tier] // self.THREAD_SCENARIOS[tier] + 50))
            for _ in range(self.THREAD_RANDOM[tier] // self.THREAD_SCENARIOS[tier]):
                cases.append(dict(base, rand=rng.randrange(10 ** 9)))
        return cases

    # -- values whose special methods misbehave (attribute bags, remote proxies, array-like truth values ...) -----------------
    ODD_KINDS = ['bag', 'proxy', 'nobool', 'noeq', 'nolen', 'norepr', 'nohash', 'nogetstate']
    ODD_SITES = ['in', 'out', 'inarg', 'outarg', 'ret', 'raise']

    @staticmethod
    def make_odd(kind, n):
        return ODD[kind](n)

    def run_odd_case(self, case):
        from playback.tape_recorder import TapeRecorder, RecordingParameters
        from playback.tape_cassettes.in_memory.in_memory_tape_cassette import InMemoryTapeCassette
        tr = TapeRecorder(InMemoryTapeCassette())
        tr.enable_recording()
        kind, site, n = case['odd'], case['site'], case['n']

        def body(self_):
            seen = [self_.plain(n)]
            if site in ('inarg', 'outarg'):
                seen.append(self_.fetch(ODD[kind](n)))
            elif site in ('in', 'out'):
                seen.append(type(self_.fetch()).__name__)
            seen.append(self_.plain(n + 1))
            if site == 'ret':
                return ODD[kind](n)
            if site == 'raise':
                raise OddError(ODD[kind](n))
            return seen

        def fetch(self_, *a):
            return ODD[kind](n) if not a else n

        def plain(self_, x):
            return x * 2
        deco = tr.intercept_input('fetch') if site in ('in', 'inarg') else tr.intercept_output('fetch')
        Op = type('OddOp', (object,), {'execute': tr.operation()(body), 'fetch': deco(fetch), 'plain': tr.intercept_input('plain')(plain)})
        tr.recording_params(RecordingParameters(copy_data_on_intercepion=case['copy']))(Op)
        Twin = type('OddTwin', (object,), {'execute': body, 'fetch': fetch, 'plain': plain})

        def end_of(thunk):
            try:
                r = thunk()
                return ['ret', type(r).__name__ if site == 'ret' else r]
            except Exception as ex:
                return ['exc', type(ex).__name__]
        return {'end': end_of(lambda: Op().execute()), 'twinEnd': end_of(lambda: Twin().execute())}

    # -- one-shot values: an intercepted function hands its caller an iterator / generator / stream -------------------------
    ITER_KINDS = ['generator', 'list_iterator', 'reversed', 'map', 'zip', 'stringio', 'dict_items_iter']

    @staticmethod
    def make_iter(kind, data):
        import io
        if kind == 'generator':
            return (x for x in data)
        if kind == 'list_iterator':
            return iter(list(data))
        if kind == 'reversed':
            return reversed(list(data))
        if kind == 'map':
            return map(lambda x: x * 2, data)
        if kind == 'zip':
            return zip(data, data)
        if kind == 'stringio':
            return io.StringIO('\n'.join(str(x) for x in data) + '\n')
        return iter({str(x): x for x in data}.items())

    def run_iter_case(self, case):
        from playback.tape_recorder import TapeRecorder, RecordingParameters
        from playback.tape_cassettes.in_memory.in_memory_tape_cassette import InMemoryTapeCassette
        tr = TapeRecorder(InMemoryTapeCassette())
        tr.enable_recording()
        make, kind, data = self.make_iter, case['iter'], case['data']

        def body(self_, consume_partly=case['partly']):
            it = self_.fetch()
            head = []
            if consume_partly:
                head = [next(it, None)] if not hasattr(it, 'readline') else [it.readline()]
            rest = [x for x in it]
            return [repr(x) for x in head + rest]

        def fetch(self_):
            return make(kind, data)
        deco = tr.intercept_input('fetch') if case['site'] == 'in' else tr.intercept_output('fetch')
        Op = type('IterOp', (object,), {'execute': tr.operation()(body), 'fetch': deco(fetch)})
        tr.recording_params(RecordingParameters(copy_data_on_intercepion=case['copy']))(Op)
        Twin = type('IterTwin', (object,), {'execute': body, 'fetch': fetch})

        def end_of(thunk):
            try:
                return ['ret', thunk()]
            except Exception as ex:
                return ['exc', type(ex).__name__]
        return {'end': end_of(lambda: Op().execute()), 'twinEnd': end_of(lambda: Twin().execute())}

    def thread_bad(self, case, res):
        """is this run of a thread scenario a violation of the property? (C05 / C18 reuse the exploration with their own test)"""
        want = T.expected(case)
        return res['results'] != want or res['main'] != [['ret', 'done']] or res['outcome'] != 'finished'

    def run_impl(self, case):
        return C04.run_threads_or_other(self, case)

    def run_threads_or_other(self, case):
        if case.get('kind') == 'iter':
            return self.run_iter_case(case)
        if case.get('kind') == 'odd':
            return self.run_odd_case(case)
        if case.get('kind') != 'threads':
            return super(C04, self).run_impl(case)
        want = T.expected(case)
        if case.get('explore') is None:
            r = T.run_threads_case(case)
            r['_explored'] = 1
            r['_bad_schedule'] = None if r['outcome'] == 'skipped' or not self.thread_bad(case, r) else r['_choices']
            return r

        stuck = [0]

        def batch(prefixes):
            out = []
            for p in prefixes:
                if stuck[0] >= 3:
                    # (a tree whose locks get in the way of the controlled schedule: each such schedule costs a watchdog period)
                    out.append(dict(out[-1]))
                    continue
                out.append(T.run_threads_case(dict(case, schedule=p, explore=None)))
                stuck[0] += out[-1]['outcome'] in ('skipped', 'blocked')
            return out
        explored, first_bad, last, skipped = 0, None, None, 0
        for prefix, cost, res in S.explore(lambda ps: [dict(x, decisions=x['_decisions']) for x in batch(ps)], case['explore'],
                                           max_runs=case.get('max_runs')):
            if res is None:
                break
            explored += 1
            last = res
            skipped += res['outcome'] == 'skipped'
            if skipped >= 3:
                break       # (a tree whose locks get in the way of the controlled schedule: each such schedule costs a watchdog period)
            if res['outcome'] != 'skipped' and self.thread_bad(case, res):
                first_bad = res
                first_bad['_bad_schedule'] = res['_choices']
                break
        out = first_bad or last
        out = {k: v for k, v in out.items() if k != 'decisions'}
        out['_explored'] = explored
        out.setdefault('_bad_schedule', None)
        return out

    def model_requests(self, case):
        if case.get('kind') in ('iter', 'odd'):
            return []
        if case.get('kind') != 'threads':
            return super(C04, self).model_requests(case)
        rnd = random.Random(repr(sorted(case.items(), key=lambda kv: kv[0])))
        n = len(case['workers'])
        # (`disable` is switch off + discard: the model's main thread discards)
        return [{'m': 'c04.threads', 'main': case['main'].replace('disable', 'discard'), 'workers': case['workers'],
                 'schedule': [rnd.randrange(n + 1) for _ in range(40)]}]

    def model_transcript(self, case, answers):
        if case.get('kind') in ('iter', 'odd'):
            return None
        if case.get('kind') != 'threads':
            return super(C04, self).model_transcript(case, answers)
        a = answers[0]
        if 'error' in a:
            return {'results': 'model raised ' + a['error']}
        return {'results': a['results'], 'main': [['ret', 'done']], 'outcome': 'finished'}

    def impl_view(self, case, impl):
        if case.get('kind') in ('iter', 'odd'):
            return None
        if case.get('kind') != 'threads':
            return super(C04, self).impl_view(case, impl)
        return {'results': [[[k, v[1] if k == 'ret' else v] for k, v in w] for w in impl['results']], 'main': impl['main'],
                'outcome': impl['outcome']}

    def sample_repr(self, case):
        if case.get('kind') in ('threads', 'iter', 'odd'):
            return case
        return super(C04, self).sample_repr(case)

    def features(self, case, impl):
        if case.get('kind') == 'iter':
            return ['one-shot-value:' + case['iter']]
        if case.get('kind') == 'odd':
            return ['odd-value:' + case['odd'], 'odd-value-site:' + case['site']]
        if case.get('kind') != 'threads':
            return super(C04, self).features(case, impl)
        return ['threads', 'threads:main=' + case['main']] + (['threads:schedule-skipped(lock held by a pre-empted thread)'] if impl.get('outcome') == 'skipped' else []) + [ 'threads:schedules-explored=%d' % impl.get('_explored', 1)] + \
               (['threads:exhaustive<=%d-preemptions' % case['explore']] if case.get('explore') is not None else ['threads:random-schedule'])

    def shrink(self, case):
        if case.get('kind') in ('iter', 'odd'):
            return []
        if case.get('kind') != 'threads':
            return super(C04, self).shrink(case)
        return []

    def oracle(self, case, impl):
        if case.get('kind') == 'iter':
            if impl['end'] != impl['twinEnd']:
                return ['one-shot value (%s from an intercepted %s, copy_data_on_intercepion=%s): the decorated operation saw %r, '
                        'the undecorated twin %r' % (case['iter'], 'input' if case['site'] == 'in' else 'output', case['copy'],
                                                     impl['end'], impl['twinEnd'])]
            return []
        if case.get('kind') == 'odd':
            if impl['end'] != impl['twinEnd']:
                return ['a value whose special methods misbehave (%s, as %s, copy_data_on_intercepion=%s): the decorated operation ended '
                        '%r, the undecorated twin %r' % (case['odd'], case['site'], case['copy'], impl['end'], impl['twinEnd'])]
            return []
        if case.get('kind') == 'threads':
            want = T.expected(case)
            fails = []
            if impl['outcome'] == 'skipped':
                return []
            if impl['outcome'] != 'finished':
                fails.append('threads: the run ended in %s under schedule %r%s'
                             % (impl['outcome'], impl['_choices'], (': ' + impl['_blocked_at'] + ' - the operation / interception does not '
                                                                    'return to its caller while another thread is held') if impl.get('_blocked_at') else ''))
            if impl['results'] != want:
                fails.append('threads (main: %s): worker calls were handed %r, their bodies produce %r; schedule (choices at the '
                             'decision points) %r' % (case['main'], impl['results'], want, impl.get('_bad_schedule') or impl['_choices']))
            if impl['main'] != [['ret', 'done']]:
                fails.append('threads: the operation ended %r instead of returning' % (impl['main'],))
            return fails
        fails = []
        for i, run, r in op_runs(case, impl):
            if r['end'] != r['twinEnd']:
                fails.append('run %d: decorated operation ended %r, undecorated twin ended %r' % (i, r['end'], r['twinEnd']))
            if r['journal'] != r['twinJournal']:
                fails.append('run %d: wrapped bodies executed %r, twin executed %r' % (i, r['journal'], r['twinJournal']))
            if not r['_identity_ok']:
                fails.append('run %d: an intercepted call returned an object other than the one its body returned' % i)
            if not records(case, run) and r['log']:
                fails.append('run %d: recording disabled / class skipped but the cassette was called: %r' % (i, r['log']))
        return fails

    def known_finding(self, case, failures):
        if case.get('nested_operation'):
            return 'nested-operation-same-recorder'
        return None

    def nontrivial(self, case, impl):
        if case.get('kind') in ('threads', 'iter', 'odd'):
            return True
        return any(r['journal'] for r in impl if 'journal' in r)


PROP = C04
