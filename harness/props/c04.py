"""C04 - Recording is transparent to the recorded service (DESIGN.md section 6, C04)."""
from harness.props.recorder_common import RecorderProp, op_runs, records, ALL_OPTS


class C04(RecorderProp):
    ID = 'C04'
    RULE = ('random histories of operations on one recorder with every tolerated fault kind (key cannot be built, input/output '
            'data handler raises, unserialisable value, extractor raises / returns junk, save raises), discard / force from '
            'the operation and from intercepted bodies, nested interceptions, interrupts, all sampling parameters, recording '
            'enabled / disabled / class skipped, on memory / file / S3 cassettes; each run is executed decorated and as an '
            'undecorated twin; non-trivial = at least one run with an intercepted call; distinct = distinct canonical case')
    OPTS = dict(ALL_OPTS, play_ratio=0.1, cassettes=['memory', 'memory', 'file', 's3'], enabled_ratio=0.8)
    N = {'quick': 500, 'thorough': 10000}

    def oracle(self, case, impl):
        fails = []
        for i, run, r in op_runs(case, impl):
            if r['end'] != r['twinEnd']:
                fails.append('run %d: decorated operation ended %r, undecorated twin ended %r' % (i, r['end'], r['twinEnd']))
            if r['journal'] != r['twinJournal']:
                fails.append('run %d: wrapped bodies executed %r, twin executed %r' % (i, r['journal'], r['twinJournal']))
            if not r['_identity_ok']:
                fails.append('run %d: an intercepted call returned an object other than the one its body returned' % i)
            if not records(case, run) and r['log']:
                fails.append('run %d: recording disabled / class skipped but the cassette was called: %r' % (i, r['log']))
        return fails

    def known_finding(self, case, failures):
        if case.get('nested_operation'):
            return 'nested-operation-same-recorder'
        return None

    def nontrivial(self, case, impl):
        return any(r['journal'] for r in impl if 'journal' in r)


PROP = C04
