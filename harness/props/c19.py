"""C19 - The studio plays each recording once under its own category's tuning (DESIGN.md section 6, C19).

The REAL `PlaybackStudio` with a real `TapeRecorder` over in-memory, file-based and (fake-bucket) S3 cassettes: small
operations of classes named like the categories are really recorded, then the studio plays them - explicit id lists in
shuffled order or lookup-driven - with a tuner that fails for a chosen subset of categories and whose tunings stamp their
category into the verdict message; the result generators are consumed in a chosen interleaving.  The Lean model
(`PlaybackModel/Studio.lean`, handler `c19.play`) runs the same case; the oracle restates the property directly.
"""
import datetime
import json
import os
import shutil
import sys
import tempfile
import types

from harness.engine import Prop

CATS = ['Op', 'OpB', 'Op_x', 'O', 'Batch[Order]', 'svc:op.v2']          # prefix-related on purpose; shell / path metacharacters
PLAYER_ERROR = '<player error>'


def tuner_error(cat, case=None):
    # (a failing tuner may raise an exception that carries no message at all: `raise ValueError()`)
    return '' if case and case.get('bare_errors') else 'no tuning for ' + cat


def replay_delta(value):
    """the played-back operation differs from the recorded one for these values (so that some verdicts are Different)"""
    return 1 if value % 4 == 3 else 0


def own_verdict(cat, value, incomplete):
    """status and message category `cat`'s tuning gives the recording (value recorded by an operation of class `cat`)"""
    if incomplete:
        return 'Different', '%s:None' % cat     # the interrupted run recorded no operation output
    return ('Different' if replay_delta(value) else 'Equal'), '%s:%s' % (cat, value)


def selected_entries(case):
    """[(token, category)] for an explicit id list; token = recording index or '?j' for an id the cassette never stored"""
    out = []
    for e in case['explicit']:
        if isinstance(e, int):
            out.append((e, case['recs'][e][0]))
        else:
            out.append(('?%d' % e[2], e[1]))
    return out


def all_categories(case):
    names = set(c for c, _, _ in case['recs']) | set(case['categories']) | set(case['failing'])
    if case['explicit']:
        names |= set(c for _, c in selected_entries(case))
    return sorted(names)


class C19(Prop):
    ID = 'C19'
    CORRESPONDENCE = 'PlaybackModel.Studio.play / consume vs PlaybackStudio.play over really recorded operations'
    RULE = ('one case = 0-10 really recorded operations in 1-4 prefix-related categories (Op, OpB, Op_x, O) on an in-memory, '
            'file-based or fake-bucket S3 cassette, played by the real PlaybackStudio with explicit ids in shuffled order '
            '(sometimes with unknown ids / duplicates) or lookup-driven (skip_incomplete on/off, interrupted recordings), tuners '
            'failing for a subset of categories, generators consumed in a given interleaving, a quarter of the cases with play() called a second time on the same studio, failing tuners whose exception carries no message, explicit ids next to lookup properties with limit 0-2 (ignored); non-trivial = at least two '
            'categories involved or a failing tuner; distinct = distinct canonical case')
    TRUSTED = ['correspondence harness harness/props/c19.py + Lean driver (Drive/Studio.lean)',
               'category names are renamed to their rank in Python string order for the model (sorted() on str = rank order)',
               'the in-memory fake bucket harness/fake_s3.py stands in for S3 behind the real facade; the filesystem',
               'TapeRecorder.play leaves the recorder idle and the cassette untouched (C09 / C02); the harness also observes it']
    ASSUMPTIONS = ['the comparisons of one category are C08\'s in-process run; dedicated-process studio runs are covered by C08 + '
                   'the theorems (ModeIndependent), not by this tie',
                   'lookup-driven runs are compared per category as sets (listing order is the cassette\'s business, C10); '
                   'no limit is set in lookup-driven cases']
    PARALLEL = 14

    # ------------------------------------------------------------------------------------------------------
    def generate(self, rng, tier):
        cases = []
        n = 300 if tier == 'quick' else 6000
        for it in range(n):
            cassette = ['mem', 'file', 's3'][it % 3]
            ncats = rng.randint(1, 4)
            cats = rng.sample(CATS, ncats)
            nrec = rng.choice([0, 1, 2, 3, 4, 5, 6, 8, 10])
            recs = [[rng.choice(cats), rng.randrange(100), rng.random() < .12] for _ in range(nrec)]
            failing = [c for c in CATS if rng.random() < .25]
            explicit = None
            categories = []
            if nrec and rng.random() < .55:
                explicit = list(range(nrec))
                if rng.random() < .3:
                    explicit = rng.sample(explicit, rng.randint(1, nrec))
                if rng.random() < .15:
                    explicit.append(rng.choice(explicit))          # the same id twice
                for j in range(rng.choice([0, 0, 0, 1, 2])):
                    explicit.append(['?', rng.choice(CATS), j])    # an id the cassette never stored
                rng.shuffle(explicit)
                categories = ['ignored']
            else:
                categories = [rng.choice(CATS) for _ in range(rng.randint(1, 5))] if rng.random() < .3 \
                    else rng.sample(CATS, rng.randint(1, 4))
            case = {'cassette': cassette, 'recs': recs, 'explicit': explicit, 'categories': categories,
                    'skip_incomplete': rng.random() < .7, 'failing': failing, 'keep': rng.random() < .3,
                    'resave': sorted(rng.sample(range(nrec), rng.randint(1, min(3, nrec)))) if nrec and rng.random() < .25 else []}
            if case['skip_incomplete'] and not explicit and rng.random() < 0.35:
                # the studio's own default lookup properties (a week back, at most 20 per category, incomplete ones skipped) -
                # with at most 10 recordings a category they select what the explicit properties select
                case['default_props'] = True
            case['order'] = self.make_order(case, rng)
            if rng.random() < 0.25:
                case['again'] = True      # play() is called a second time on the same studio object
            if failing and rng.random() < 0.3:
                case['bare_errors'] = True     # the failing tuners raise an exception without a message
            if explicit and rng.random() < 0.3:
                case['explicit_limit'] = rng.choice([0, 1, 2])    # lookup properties with a limit next to explicit ids: ignored
            cases.append(case)
        # the same kind of run with every category's comparisons in a dedicated worker process, the categories' generators
        # consumed interleaved (each category has its own worker; one category's run must not disturb another's)
        base = [c for c in cases if len(self.expected_groups(c)) >= 2 and not c['keep'] and len(c['recs']) >= 3]
        for c in base[:20 if tier == "quick" else 80]:
            d = dict(c, dedicated=True)
            groups = self.expected_groups(d)
            live = sorted(k for k in groups if k not in d['failing'])
            order, left = [], {k: len(groups[k]) + 1 for k in live}
            while any(left.values()):
                for k in live:
                    if left[k]:
                        order.append(k)
                        left[k] -= 1
            d['order'] = order
            cases.append(d)
        # fixed: categories of unequal size, so one category's run ends (and lets go of its worker) while the others still have
        # recordings to replay
        for sizes in ([1, 3], [3, 1], [1, 2, 4]):
            cats = ['Op', 'OpB', 'O'][:len(sizes)]
            recs = [[c, 10 * i + j, False] for i, (c, n) in enumerate(zip(cats, sizes)) for j in range(n)]
            d = {'cassette': 'memory', 'recs': recs, 'explicit': None, 'categories': list(cats), 'skip_incomplete': True,
                 'failing': [], 'keep': False, 'resave': [], 'dedicated': True}
            order, left = [], {c: n + 1 for c, n in zip(cats, sizes)}
            while any(left.values()):
                for c in cats:
                    if left[c]:
                        order.append(c)
                        left[c] -= 1
            d['order'] = order
            cases.append(d)
        return cases

    def run_all_impl(self, cases):
        # a dedicated-process studio run forks workers: it cannot run inside a (daemonic) pool worker
        plain = [c for c in cases if not c.get('dedicated')]
        res = dict(zip([id(c) for c in plain], super(C19, self).run_all_impl(plain)))
        from harness.engine import _impl_worker
        for c in cases:
            if c.get('dedicated'):
                res[id(c)] = _impl_worker((self, c))
        return [res[id(c)] for c in cases]

    @staticmethod
    def expected_groups(case):
        """category -> tokens expected to be played (explicit: in order; lookup: as a set) - from the case alone"""
        if case['explicit']:
            groups = {}
            for tok, cat in selected_entries(case):
                groups.setdefault(cat, []).append(tok)
            return groups
        out = {}
        for cat in case['categories']:
            out[cat] = [i for i, (c, v, inc) in enumerate(case['recs'])
                        if c == cat and not (case['skip_incomplete'] and inc)]
        return out

    def make_order(self, case, rng):
        groups = self.expected_groups(case)
        live = [k for k in groups if k not in case['failing']]
        tokens = []
        for k in live:
            tokens += [k] * (len(groups[k]) + rng.choice([0, 1]))
        style = rng.choice(['seq', 'rr', 'rev', 'rand', 'partial'])
        if style == 'seq':
            tokens.sort()
        elif style == 'rev':
            tokens.sort(reverse=True)
        elif style == 'rr':
            by = {k: tokens.count(k) for k in live}
            tokens = []
            while any(by.values()):
                for k in sorted(by):
                    if by[k]:
                        tokens.append(k)
                        by[k] -= 1
        else:
            rng.shuffle(tokens)
            if style == 'partial':
                tokens = tokens[:rng.randint(0, len(tokens))]
        return tokens

    # ------------------------------------------------------------------------------------------------------
    def run_impl(self, case):
        from harness import fake_s3
        fake_s3.install()
        from playback.tape_recorder import TapeRecorder
        from playback.tape_cassettes.s3.s3_tape_cassette import S3TapeCassette
        from playback.tape_cassettes.in_memory.in_memory_tape_cassette import InMemoryTapeCassette
        from playback.tape_cassettes.file_based.file_based_tape_cassette import FileBasedTapeCassette
        from playback.studio.studio import PlaybackStudio
        from playback.studio.equalizer import ComparatorResult, EqualityStatus, CompareExecutionConfig
        from playback.studio.equalizer_tuning import EqualizerTuner, EqualizerTuning
        from playback.studio.recordings_lookup import RecordingLookupProperties

        class Interrupt(BaseException):
            pass
        opmod = sys.modules.get('c19ops')
        if opmod is None:
            opmod = types.ModuleType('c19ops')
            sys.modules['c19ops'] = opmod
        tmp = tempfile.mkdtemp(prefix='c19-')
        try:
            fake_s3.reset()
            kind = case['cassette']
            if kind == 'mem':
                cassette = InMemoryTapeCassette()
            elif kind == 'file':
                cassette = FileBasedTapeCassette(tmp)
            else:
                cassette = S3TapeCassette('bucket', key_prefix='pre/fix', read_only=False)
            tr = TapeRecorder(cassette)
            tr.enable_recording()
            names = [c for c in all_categories(case) if c != 'ignored']
            classes = {}
            for cat in names:
                def execute(self):
                    v = self.inp()
                    if self.interrupt:
                        raise Interrupt()
                    return v + self.delta

                def inp(self):
                    return self.v
                cls = type(str(cat), (object,), {'execute': tr.operation()(execute), 'inp': tr.intercept_input('i')(inp),
                                                 'v': None, 'delta': 0, 'interrupt': False})
                cls.__module__ = 'c19ops'
                setattr(opmod, cat, cls)
                classes[cat] = cls

            def listing():
                out = set()
                for k in names:
                    out |= set(cassette.iter_recording_ids(k))
                return out
            # (the ids are taken from the cassette's create_new_recording itself, not from a lookup: lookups are under test)
            created = []
            real_create = cassette.create_new_recording

            def create_and_note(category):
                r = real_create(category)
                created.append(r.id)
                return r
            cassette.create_new_recording = create_and_note
            ids = []
            for cat, value, inc in case['recs']:
                o = classes[cat]()
                o.v, o.interrupt = value, inc
                n0 = len(created)
                try:
                    o.execute()
                except Interrupt:
                    pass
                if len(created) - n0 != 1:
                    raise RuntimeError('recording an operation of %s created %d recordings' % (cat, len(created) - n0))
                ids.append(created[-1])
            del cassette.create_new_recording
            # some recordings are fetched, annotated and saved again under their id before the studio runs
            for i in case.get('resave', []):
                if i < len(ids):
                    again = cassette.get_recording(ids[i])
                    again.add_metadata({'reviewed': True})
                    cassette.save_recording(again)
            index = {rid: i for i, rid in enumerate(ids)}

            def token(rid):
                if rid in index:
                    return index[rid]
                return unknown.get(rid, 'unexpected:%s' % rid)
            unknown = {}
            class _Log(list):
                """the replays that were executed; with dedicated worker processes the entries are made in the workers, so they
                go through a file (one line per replay, appended atomically)"""
                path = None

                def append(self, item):
                    if self.path:
                        with open(self.path, 'a') as f:
                            f.write(json.dumps(item) + '\n')
                    else:
                        list.append(self, item)

                def collect(self):
                    if self.path and os.path.exists(self.path):
                        with open(self.path) as f:
                            rows = [json.loads(l) for l in f if l.strip()]
                        os.unlink(self.path)
                        self.path = None
                        list.extend(self, rows)
                    return list(self)
            log = _Log()
            if case.get('dedicated'):
                fd, log.path = tempfile.mkstemp(prefix='verif-c19-log-')
                os.close(fd)
            failing = set(case['failing'])

            class Tuner(EqualizerTuner):
                def create_category_tuning(self, category):
                    if category in failing:
                        if case.get('bare_errors'):
                            raise ValueError()
                        raise ValueError(tuner_error(category))

                    def playback_function(recording):
                        log.append([category, token(recording.id)])
                        o = classes[category]()
                        o.delta = _Delta()      # the replayed operation computes input + replay_delta(input)
                        return o.execute()

                    def extractor(outputs):
                        return next((o.value['args'][0] for o in outputs if TapeRecorder.OPERATION_OUTPUT_ALIAS in o.key), None)

                    def comparator(a, b):
                        return ComparatorResult(EqualityStatus.Equal if a == b else EqualityStatus.Different,
                                                '%s:%s' % (category, a))
                    return EqualizerTuning(playback_function, extractor, comparator)

            class _Delta(object):
                """added to the replayed input: v + delta = v + replay_delta(v)"""
                def __radd__(self, v):
                    return v + replay_delta(v)

            if case['explicit']:
                sel = []
                for e in case['explicit']:
                    if isinstance(e, int):
                        sel.append(ids[e])
                    else:
                        rid = ('%s/20260101/%032x' if kind == 's3' else '%s/%032x') % (e[1], e[2] + 1)
                        unknown[rid] = '?%d' % e[2]
                        sel.append(rid)
                studio = PlaybackStudio(case['categories'], Tuner(), tr, recording_ids=sel,
                                        lookup_properties=RecordingLookupProperties(start_date=datetime.datetime.utcnow() - datetime.timedelta(days=1),
                                                                                  limit=case['explicit_limit'])
                                        if case.get('explicit_limit') is not None else None,
                                        compare_execution_config=CompareExecutionConfig(
                                            keep_results_in_comparison=case['keep'],
                                            compare_in_dedicated_process=bool(case.get('dedicated')),
                                            compare_process_recycle_rate=5, compare_process_timeout=120))
            else:
                props = RecordingLookupProperties(start_date=datetime.datetime.utcnow() - datetime.timedelta(days=1),
                                                  skip_incomplete=case['skip_incomplete'])
                studio = PlaybackStudio(case['categories'], Tuner(), tr, lookup_properties=None if case.get('default_props') else props,
                                        compare_execution_config=CompareExecutionConfig(
                                            keep_results_in_comparison=case['keep'],
                                            compare_in_dedicated_process=bool(case.get('dedicated')),
                                            compare_process_recycle_rate=5, compare_process_timeout=120))
            before = listing()
            try:
                result = studio.play()
            except Exception as ex:      # the property says a failing tuner is reported per category, play() itself works
                return {'cats': [], 'errors': {}, 'final': {}, 'after_order': {}, 'log': log.collect(), 'idle': True,
                        'cassette_unchanged': True, 'play_raised': [type(ex).__name__, str(ex)]}
            cats = list(result.keys())
            got = {k: [] for k in cats}
            errors = {}
            for k in cats:
                if isinstance(result[k], Exception):
                    errors[k] = [type(result[k]).__name__, str(result[k])]
            idle = True

            def obs(c):
                pb = c.playback
                msg = c.comparator_status.message
                tok = token(c.recording_id)
                if isinstance(tok, str) and tok.startswith('?') and c.comparator_status.equality_status.name == 'EqualizerFailure':
                    msg = PLAYER_ERROR        # text carries the made-up id / a temporary path
                return [tok, c.comparator_status.equality_status.name, msg,
                        None if pb is None else token(pb.original_recording.id),
                        None if c.expected is None and c.actual is None else [c.expected, c.actual]]

            def recorder_idle():
                return tr._playback_recording is None and tr._playback_outputs == [] and not tr._invoke_counter

            done = set()
            for k in case['order']:
                if k in errors or k not in result or k in done:
                    continue
                try:
                    got[k].append(obs(next(result[k])))
                except StopIteration:
                    done.add(k)
                except Exception as ex:
                    got[k].append(['raised', type(ex).__name__, str(ex), None, None])
                    done.add(k)
                idle = idle and recorder_idle()
            after_order = {k: list(v) for k, v in got.items() if k not in errors}
            for k in cats:
                if k in errors or k in done:
                    continue
                try:
                    for c in result[k]:
                        got[k].append(obs(c))
                        idle = idle and recorder_idle()
                except Exception as ex:
                    got[k].append(['raised', type(ex).__name__, str(ex), None, None])
            out = {'cats': cats, 'errors': errors, 'final': {k: v for k, v in got.items() if k not in errors},
                   'after_order': after_order, 'log': sorted(log.collect()) if case.get('dedicated') else log.collect(),
                   'idle': idle, 'cassette_unchanged': listing() == before}
            if case.get('again'):
                # the comparison is run once more on the same studio object: the same recordings, the same verdicts
                try:
                    second = studio.play()
                    again = {}
                    for k in list(second.keys()):
                        if isinstance(second[k], Exception):
                            again[k] = ['error', type(second[k]).__name__]
                            continue
                        again[k] = []
                        try:
                            for c in second[k]:
                                again[k].append(obs(c)[:3])
                        except Exception as ex:
                            again[k].append(['raised', type(ex).__name__, str(ex)])
                    out['again'] = again
                except Exception as ex:
                    out['again'] = {'play_raised': [type(ex).__name__, str(ex)]}
                log.collect()
            return out
        finally:
            shutil.rmtree(tmp, ignore_errors=True)

    # ------------------------------------------------------------------------------------------------------
    def model_requests(self, case):
        names = all_categories(case)
        rank = {c: i for i, c in enumerate(names)}
        nrec = len(case['recs'])
        cats = [[i, rank[c]] for i, (c, v, inc) in enumerate(case['recs'])]
        beh = []
        for i, (c, v, inc) in enumerate(case['recs']):
            st, msg = own_verdict(c, v, inc)
            beh.append([rank[c], i, {'k': 'verdict', 's': st, 'm': msg}])
        ids = []
        if case['explicit']:
            for e in case['explicit']:
                if isinstance(e, int):
                    ids.append(e)
                else:
                    num = nrec + e[2]
                    ids.append(num)
                    if [num, rank[e[1]]] not in cats:
                        cats.append([num, rank[e[1]]])
                        beh.append([rank[e[1]], num, {'k': 'playerRaises', 'm': PLAYER_ERROR}])
        req = {'m': 'c19.play', 'cats': cats,
               'stored': [[i, rank[c], bool(inc), True] for i, (c, v, inc) in enumerate(case['recs'])],
               'failing': [[rank[c], tuner_error(c, case)] for c in case['failing']],
               'beh': beh, 'keep': case['keep'], 'rate': 5, 'timeoutMs': 600000, 'dedicated': bool(case.get('dedicated')),
               'skipIncomplete': case['skip_incomplete'], 'limit': None,
               'categories': [rank[c] for c in case['categories']] if not case['explicit'] else [],
               'ids': ids, 'order': [rank[k] for k in case['order']]}
        return [req]

    def model_transcript(self, case, answers):
        a = answers[0]
        names = all_categories(case)
        nrec = len(case['recs'])

        def tok(n):
            return n if n < nrec else '?%d' % (n - nrec)

        def extracted(c):
            # the kept results are the recorded and the replayed operation result
            if c['expected'] is None and c['actual'] is None:
                return None
            i = c['expected'][1]
            cat, v, inc = case['recs'][i]
            return [None if inc else v, v + replay_delta(v)]

        def comp(c):
            return [tok(c['id']), c['status'], c['message'], None if c['playback'] is None else tok(c['playback']), extracted(c)]
        lookup = not case['explicit']
        cats, errors, final = [], {}, {}
        for rk, res in a['result']:
            k = names[rk]
            cats.append(k)
            if 'err' in res:
                errors[k] = ['ValueError', res['err']]
            else:
                final[k] = [comp(c) for c in res['ok']]
        after = {}
        if a['interleaved'] is not None:
            for rk, cs in a['interleaved']:
                k = names[rk]
                if k not in errors:
                    after[k] = [comp(c) for c in cs]
        return self.canon_view(case, {'cats': cats, 'errors': errors, 'final': final, 'after_order': after,
                                      'idle': a['clean'] if a['clean'] is not None else True}, lookup)

    @staticmethod
    def canon_view(case, t, lookup):
        final = {k: (sorted(v, key=repr) if lookup else v) for k, v in t['final'].items()}
        after = {k: (len(v) if lookup else v) for k, v in t['after_order'].items()}
        return {'cats': t['cats'], 'errors': t['errors'], 'final': final, 'after_order': after, 'idle': t['idle']}

    def impl_view(self, case, impl):
        return self.canon_view(case, impl, not case['explicit'])

    # ------------------------------------------------------------------------------------------------------
    def oracle(self, case, impl):
        fails = []
        if impl.get('play_raised'):
            return ['PlaybackStudio.play() raised %s: %s' % tuple(impl['play_raised'])]
        groups = self.expected_groups(case)
        explicit = bool(case['explicit'])
        if explicit:
            want_cats = sorted(groups)
        else:
            want_cats = []
            for c in case['categories']:
                if c not in want_cats:
                    want_cats.append(c)
        if impl['cats'] != want_cats:
            fails.append('categories reported: %r, expected %r' % (impl['cats'], want_cats))
        for k in impl['cats']:
            if k in case['failing']:
                if impl['errors'].get(k) != ['ValueError', tuner_error(k, case)]:
                    fails.append('category %s: its tuner fails, reported %r' % (k, impl['errors'].get(k, impl['final'].get(k))))
                continue
            if k in impl['errors']:
                fails.append('category %s: reported error %r although its tuner works' % (k, impl['errors'][k]))
                continue
            got = impl['final'].get(k, [])
            want = groups.get(k, [])
            got_toks = [c[0] for c in got]
            if explicit and got_toks != want:
                fails.append('category %s: played %r, selected for it (in order) %r' % (k, got_toks, want))
            if not explicit and sorted(got_toks, key=repr) != sorted(want, key=repr):
                fails.append('category %s: played %r, the category holds %r' % (k, sorted(got_toks, key=repr), want))
            for tok, status, msg, pb, kept in got:
                if isinstance(tok, int):
                    cat, v, inc = case['recs'][tok]
                    if cat != k:
                        fails.append('category %s: recording #%s belongs to category %s' % (k, tok, cat))
                    st, m = own_verdict(k, v, inc)
                    if (status, msg) != (st, m):
                        fails.append('category %s: recording #%s got %s %r, its own tuning gives %s %r' % (k, tok, status, msg, st, m))
                    if pb != tok:
                        fails.append('category %s: recording #%s carries the replay of %r' % (k, tok, pb))
                else:
                    if status != 'EqualizerFailure':
                        fails.append('category %s: unknown id %s got %s' % (k, tok, status))
        # each selected recording replayed exactly once, by the playback function of its own category
        played = {}
        for cat, tok in impl['log']:
            played[(cat, tok)] = played.get((cat, tok), 0) + 1
            if isinstance(tok, int) and case['recs'][tok][0] != cat:
                fails.append('recording #%s (category %s) was replayed by the playback function of %s' % (tok, case['recs'][tok][0], cat))
        for k, toks in groups.items():
            if k in case['failing']:
                continue
            for tok in set(t for t in toks if isinstance(t, int)):
                n = played.get((k, tok), 0)
                if n != toks.count(tok):
                    fails.append('recording #%s of category %s was replayed %d time(s), selected %d time(s)' % (tok, k, n, toks.count(tok)))
        for (cat, tok), n in played.items():
            if cat in case['failing'] or tok not in groups.get(cat, []):
                fails.append('recording %r was replayed under category %s although it was not selected for it' % (tok, cat))
        if 'again' in impl:
            if 'play_raised' in impl['again']:
                fails.append('a second play() on the same studio raised %r' % (impl['again']['play_raised'],))
            else:
                first = {k: sorted([c[:3] for c in v], key=repr) for k, v in impl['final'].items()}
                first.update({k: ['error', v[0]] for k, v in impl['errors'].items()})
                second = {k: (v if v[:1] == ['error'] else sorted(v, key=repr)) for k, v in impl['again'].items()}
                if first != second:
                    fails.append('a second play() on the same studio gave %r, the first one %r' % (second, first))
        if not impl['idle']:
            fails.append('the tape recorder was not idle between two next() calls')
        if not impl['cassette_unchanged']:
            fails.append('playing changed the set of stored recordings')
        return fails

    def nontrivial(self, case, impl):
        return len(self.expected_groups(case)) >= 2 or bool(case['failing'])

    def features(self, case, impl):
        out = ['cassette:' + case['cassette'], 'explicit' if case['explicit'] else 'lookup', 'recs:%d' % len(case['recs']),
               'failing:%d' % len([c for c in case['failing'] if c in impl['cats']]), 'cats:%d' % len(impl['cats'])]
        names = set(impl['cats'])
        if any(a != b and (a.startswith(b) or b.startswith(a)) for a in names for b in names):
            out.append('prefix-related-categories')
        if case['explicit'] and any(not isinstance(e, int) for e in case['explicit']):
            out.append('unknown-id')
        if any(inc for _, _, inc in case['recs']):
            out.append('incomplete-recording')
        if case.get('again'):
            out.append('played-twice-on-one-studio')
        if case.get('bare_errors'):
            out.append('tuner-error-without-message')
        if case.get('explicit_limit') is not None:
            out.append('explicit-ids+lookup-limit')
        return out

    def shrink(self, case):
        n = len(case['recs'])
        for i in range(n):
            c = dict(case, recs=case['recs'][:i] + case['recs'][i + 1:])
            if case['explicit']:
                ex = []
                for e in case['explicit']:
                    if isinstance(e, int):
                        if e == i:
                            continue
                        ex.append(e - 1 if e > i else e)
                    else:
                        ex.append(e)
                if not ex:
                    continue
                c['explicit'] = ex
            c['order'] = [k for k in case['order']]
            yield c
        for f in case['failing']:
            yield dict(case, failing=[x for x in case['failing'] if x != f])
        if not case['explicit']:
            for i in range(len(case['categories'])):
                rest = case['categories'][:i] + case['categories'][i + 1:]
                if rest:
                    yield dict(case, categories=rest, order=[k for k in case['order'] if k in rest])
        if case['order']:
            yield dict(case, order=[])
        if case['keep']:
            yield dict(case, keep=False)

    def targeted(self, case, rng):
        return self.generate(rng, 'quick')[:200]


PROP = C19
