"""Shared base of the recorder-level properties (C01-C05, C09, C17, C18): cases are *histories* of operations and replays
on one TapeRecorder (harness/recorder_sim.py runs the real code, Drive/Recorder.lean runs the model)."""
import copy

from harness.engine import Prop
from harness import recorder_sim as rs
from harness import recorder_gen as rg

ALL_OPTS = {'faults': True, 'body_effects': True, 'interrupts': True, 'control': True, 'data': True, 'sampling': True,
            'extractors': True, 'nested': True, 'missing_play': True, 'long': True}


class RecorderProp(Prop):
    CORRESPONDENCE = 'PlaybackModel.Recorder (exec / runOperation / runPlay / runPlain) vs playback.tape_recorder.TapeRecorder'
    PARALLEL = 14
    CASE_WATCHDOG = 10      # seconds per period; a case normally takes milliseconds. A run found blocked at two alarms in a row
                            # (same instruction, no CPU time used) is interrupted (engine.Hang) and observed
    TRUSTED = ['correspondence harness: harness/recorder_sim.py (real TapeRecorder behind a spy cassette, scripted PRNG and '
               'clock), harness/recorder_gen.py, Lean driver Drive/Recorder.lean (script -> Prog embedding)',
               'values are opaque atoms in the recorder model: serialisation faithfulness is C06/C07; structured keys, '
               'their text rendering is C06/C03',
               'Python argument binding, property unwrapping, decorator.contextmanager running finally-blocks on BaseException']
    ASSUMPTIONS = ['single-threaded operations (thread interleavings are explored by the C04/C12 scheduler checks only)',
                   'no operation nested in another operation of the same recorder (known finding K6)',
                   'values of the serializer\'s faithful domain; no object shared between two keys of one recording (K7)']
    OPTS = dict(ALL_OPTS)
    N = {'quick': 2000, 'thorough': 20000}

    def case_watchdog(self, case):
        # plain histories only (the families with their own schedulers / child processes keep their own time limits)
        return self.CASE_WATCHDOG if isinstance(case, dict) and 'kind' not in case and 'runs' in case else None

    def gen_one(self, rng, tier):
        return rg.gen_history(rng, self.OPTS)

    def generate(self, rng, tier):
        return [self.gen_one(rng, tier) for _ in range(self.N[tier])]

    def run_impl(self, case):
        return rs.run_case(case)

    def impl_view(self, case, impl):
        if case.get('model') is False:
            return None
        return rs.impl_public(impl)

    def model_requests(self, case):
        if case.get('model') is False:
            return []
        return [rs.model_request(case)]

    def model_transcript(self, case, answers):
        if case.get('model') is False:
            return None
        return rs.normalise_model(answers[0])

    def sample_repr(self, case):
        return {'cassette': case.get('cassette'), 'classes': case['classes'],
                'sites': {k: {kk: vv for kk, vv in v.items() if kk != 'body'} for k, v in case['sites'].items()},
                'runs': [{k: v for k, v in r.items()} for r in case['runs'][:3]]}

    def features(self, case, impl):
        out = ['cassette:' + case.get('cassette', 'memory')]
        for run, r in zip(case['runs'], impl):
            if run['run'] == 'foreign':
                out.append('foreign-recording:%s-duration' % ('with' if run.get('duration', True) else 'without'))
            elif run['run'] == 'op':
                out.append('op:' + r['end'][0])
                out.append('log:' + '/'.join(k for k, _ in r['log']))
                if r.get('saved') and 'meta' in r['saved']:
                    out.append('saved:incomplete=%s' % r['saved']['meta']['incomplete'])
            else:
                out.append('play:' + r['result'][0] + (':' + r['result'][1] if r['result'][0] != 'played' else ''))
        for sp in case['sites'].values():
            out.append('site:%s:%s' % (sp['kind'], sp.get('flavor', 'instance')))
            if sp.get('handler'):
                out.append('handler:' + sp['handler'])
        return out

    def nontrivial(self, case, impl):
        return any(len(r['script']) > 1 for r in case['runs'])

    # -- shrinking: drop trailing runs, drop statements, drop sites that are no longer referenced ---------------
    def shrink(self, case):
        runs = case['runs']
        if len(runs) > 1:
            yield dict(case, runs=runs[:-1])
            if runs[0]['run'] != 'op' or not rg.created_by(runs[0], case['classes']):
                yield dict(case, runs=runs[1:])
        for ri, run in enumerate(runs):
            sc = run['script']
            for i in range(len(sc) - 1):
                new = copy.deepcopy(case)
                new['runs'][ri]['script'] = sc[:i] + sc[i + 1:]
                # keep replays of the same program in step
                for rj, other in enumerate(runs):
                    if rj != ri and other['script'] == sc:
                        new['runs'][rj]['script'] = new['runs'][ri]['script']
                yield new
        for sname, sp in case['sites'].items():
            body = sp['body']
            for i in range(len(body) - 1):
                new = copy.deepcopy(case)
                new['sites'][sname]['body'] = body[:i] + body[i + 1:]
                yield new
            for key, val in (('handler', ''), ('resolver', None), ('capture', 'all'), ('flavor', 'instance')):
                if sp.get(key) != val and not (key == 'flavor' and sp.get('flavor') == 'property'):
                    new = copy.deepcopy(case)
                    new['sites'][sname][key] = val
                    yield new

    def targeted(self, case, rng):
        return [self.gen_one(rng, 'quick') for _ in range(400)]


def op_runs(case, impl):
    for i, (run, r) in enumerate(zip(case['runs'], impl)):
        if run['run'] == 'op':
            yield i, run, r


def records(case, run):
    """does this operation run open a recording scope?"""
    return rg.created_by(run, case['classes'])


IDLE = {'recording': False, 'playback': False, 'forced': False, 'counter': 0, 'inInt': False, 'active': False, 'pbOutputs': 0}
