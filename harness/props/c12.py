"""C12 - Asynchronous recording stores exactly what synchronous recording would (DESIGN.md section 6, C12).

The REAL `AsyncRecordOnlyTapeCassette` runs around a spy in-memory cassette under the controlled scheduler
(harness/sched.py): `_lock`, `_stop_event` and the flusher thread object are replaced from outside by cooperative
stand-ins, every line (or byte-code instruction) of async_record_only_tape_cassette.py is a scheduling point.

A case = workload (1-3 producer programs, where close() is called, which wrapped calls raise, whether one wrapped call
blocks) + a schedule (explicit list of choices, or the seed of a random chooser).  From the run the harness extracts the
sequence of ATOMIC EVENTS (append = a producer releasing the lock, flusher: stop check / lock / swap / wrapped call /
wait returning, close = the stop event being set).  The Lean model (`c12.run`) is driven with exactly this sequence and
must predict the calls that reached the wrapped cassette (order + outcome), the flusher's end state, what is left in the
buffer and the stored recordings.  The oracle states the property directly on the real run.

Known finding K9 (`async-values-captured-by-reference`): a `set` request with `"list": true` writes the list `[val]`, and a
program entry `{"k": "mutate", "r": r, "key": k}` is the CALLER appending to that list object later (not a request to the
cassette).  The Lean model keeps immutable values, so such a case must say `"model": false` and skips the correspondence;
the oracle still compares the stored recordings with the synchronous twin's (which serialised the value at save time).
"""
import os
import zlib
import random

from harness.engine import Prop, InfraError, _impl_worker

MAX_KEYS = 3
K9 = 'async-values-captured-by-reference'
K9_PREFIX = 'a value mutated by the caller after the write was requested is stored in its mutated form'


# ------------------------------------------------------------------------------------------------------------------
# workload helpers
# ------------------------------------------------------------------------------------------------------------------
def rec_id(p, r):
    """global number of producer p's r-th recording"""
    return 10 * p + r


def wire_op(p, q, op):
    d = {'p': p, 'q': q, 'r': rec_id(p, op['r']), 'k': op['k'], 'x': bool(op.get('x'))}
    if op['k'] != 'save':
        d['key'] = op['key']
        d['val'] = op['val']
    return d


def is_request(op):
    """False for the caller-side action `mutate` (no request reaches the cassette)"""
    return op['k'] != 'mutate'


def has_mutation(case):
    return any(not is_request(op) for prog in case['programs'] for op in prog)


def request_positions(case):
    """per producer: program positions of its requests (program position = request number unless it mutates values)"""
    return [[q for q, op in enumerate(prog) if is_request(op)] for prog in case['programs']]


def op_value(op, lists, p):
    """the value handed to set_data: the number, or (K9 cases) a fresh list object remembered for later mutation"""
    if op.get('list'):
        v = [op['val']]
        lists[(p, op['r'], op['key'])] = v
        return v
    return op['val']


def scalar(v):
    return v[0] if isinstance(v, list) and v else v


def unmutated(store):
    """the store with every list value reduced to the element it was written with"""
    out = []
    for n, r in store:
        saved = r['saved']
        out.append([n, dict(r, data=[[k, scalar(v)] for k, v in r['data']],
                            saved=None if saved is None else [[[k, scalar(v)] for k, v in saved[0]], saved[1]])])
    return out


def op_desc(p, op):
    """what the spy sees of the wrapped call made for `op`"""
    if op['k'] == 'save':
        return ('save', rec_id(p, op['r']))
    return (op['k'], rec_id(p, op['r']), op['key'], op['val'])


def all_recs(case):
    return sorted({rec_id(p, op['r']) for p, prog in enumerate(case['programs']) for op in prog})


# ------------------------------------------------------------------------------------------------------------------
# values that compare equal without being the same value (1 / True / 1.0, 0 / False / 0.0, 2 / 2.0, 'a' twice), written under
# the same key / metadata name one after the other by ONE caller: the wrapper forwards every request, so the stored recordings
# are those of the synchronous twin down to the TYPE of every value.  Sequential (no schedule to explore); not modelled
# (the model's values are opaque numbers) - the oracle is the statement itself.
# ------------------------------------------------------------------------------------------------------------------
EQ_POOL = [1, True, 1.0, 0, False, 0.0, 2, 2.0, 'a', 'a', None, '', []]


def gen_seqeq(rng):
    ops = []
    for r in range(rng.choice([1, 1, 2])):
        pool = rng.sample(range(len(EQ_POOL)), rng.randint(2, 5))
        for _ in range(rng.randint(2, 7)):
            ops.append([r, rng.choice(['set', 'set', 'meta', 'item']), rng.randint(1, 2), rng.choice(pool)])
        ops.append([r, 'save'])
        if rng.random() < 0.35:
            # the recording is aborted somewhere on the way (a discard racing the end of the recording scope), perhaps twice, and
            # handed to save all the same; writes may follow the save
            mine = [i for i, o in enumerate(ops) if o[0] == r]
            for _ in range(rng.choice([1, 1, 2])):
                ops.insert(rng.choice(mine + [len(ops)]), [r, 'abort'])
            if rng.random() < 0.3:
                ops.append([r, 'set', 1, pool[0]])
    case = {'kind': 'seqeq', 'model': False, 'ops': ops, 'failing': rng.random() < 0.25}
    if seqeq_modelled(case):
        del case['model']       # one caller, text keys: tied to PlaybackModel/AsyncCaller.lean (what is seen, what is stored)
    return case


def gen_burst(rng, n):
    """a burst: one caller requests n writes (far more than any reasonable batch size) while the flusher sleeps, then saves
    and closes - every one of them is applied"""
    ops = [[0, 'set', i, rng.choice([0, 3, 6])] for i in range(n)]
    for _ in range(rng.randint(0, 3)):
        ops.insert(rng.randint(0, len(ops)), [0, 'meta', rng.randint(1, 2), 3])
    return {'kind': 'seqeq', 'model': False, 'ops': ops + [[0, 'save']], 'flush_interval': rng.choice([3600, 3600, 0.001]), 'burst': n}


def run_seqeq(case):
    from playback.tape_cassettes.in_memory.in_memory_tape_cassette import InMemoryTapeCassette
    from playback.tape_cassettes.asynchronous.async_record_only_tape_cassette import AsyncRecordOnlyTapeCassette

    def typed(v):
        return [type(v).__name__, repr(v)]

    def dump(inner):
        out = []
        for rid in inner._recordings:
            rec = inner.get_recording(rid)
            out.append({'data': sorted(([repr(k), typed(rec.get_data(k))] for k in rec.get_all_keys()), key=repr),
                        'meta': sorted([k, typed(v)] for k, v in rec.get_metadata().items())})
        return out

    def canon_idx(v):
        for i, x in enumerate(EQ_POOL):
            if type(x) is type(v) and repr(x) == repr(v):
                return i
        return -1

    def norm(inner, recs):
        """per recording number: what the cassette stored for it (None: nothing), keys and values as the model's numbers"""
        out = []
        for r in sorted(recs):
            try:
                rec = inner.get_recording(recs[r].id)
            except Exception:
                out.append([r, None])
                continue
            try:
                data = sorted([int(k[1:]), canon_idx(rec.get_data(k))] for k in rec.get_all_keys())
                meta = sorted([int(k[1:]), canon_idx(v)] for k, v in rec.get_metadata().items())
            except Exception:
                data, meta = 'unreadable', 'unreadable'
            out.append([r, [data, meta]])
        return out

    def play(cassette, close):
        recs = {}
        seen = []
        for op in case['ops']:
            r = op[0]
            if r not in recs:
                recs[r] = cassette.create_new_recording('Cat')
            try:
                if op[1] == 'item':
                    # item assignment (what the recorder itself uses), under keys that need not be text
                    recs[r][[5, (1, 2), b'kb', 'plain'][(op[2] + op[3]) % 4]] = EQ_POOL[op[3]]
                elif op[1] == 'set':
                    recs[r].set_data('k%d' % op[2], EQ_POOL[op[3]])
                elif op[1] == 'meta':
                    recs[r].add_metadata({'m%d' % op[2]: EQ_POOL[op[3]]})
                elif op[1] == 'abort':
                    cassette.abort_recording(recs[r])
                else:
                    cassette.save_recording(recs[r])
                seen.append('ok')
            except Exception as ex:       # (a write to a finalised recording is rejected: the caller sees the same either way)
                seen.append(type(ex).__name__)
        close()
        return seen, recs
    sync = InMemoryTapeCassette()
    sync_seen, sync_recs = play(sync, lambda: None)
    inner = InMemoryTapeCassette()
    wrapper = AsyncRecordOnlyTapeCassette(inner, flush_interval=case.get('flush_interval', 0.001), timeout_on_close=60)
    wrapper.start()
    async_seen, async_recs = play(wrapper, wrapper.close)
    out = {'async': dump(inner), 'sync': dump(sync), 'async_seen': async_seen, 'sync_seen': sync_seen}
    if seqeq_modelled(case):
        out['norm'] = {'sync_seen': [x == 'ok' for x in sync_seen], 'async_seen': [x == 'ok' for x in async_seen],
                       'sync_stored': norm(sync, sync_recs), 'async_stored': norm(inner, {r: a.wrapped_recording for r, a in async_recs.items()})}
    return out


def seqeq_modelled(case):
    """one caller, text keys: the caller-side model (PlaybackModel/AsyncCaller.lean) says what is seen and stored"""
    return case.get('kind') == 'seqeq' and not case.get('burst') and not any(op[1] == 'item' for op in case['ops'])


def seqeq_requests(case):
    reqs = []
    for op in case['ops']:
        if op[1] in ('set', 'meta'):
            canon = next(i for i, x in enumerate(EQ_POOL) if type(x) is type(EQ_POOL[op[3]]) and repr(x) == repr(EQ_POOL[op[3]]))
            reqs.append({'r': op[0], 'k': op[1], 'key': op[2], 'val': canon})
        else:
            reqs.append({'r': op[0], 'k': op[1]})
    return [{'m': 'c12.caller', 'reqs': reqs, 'recs': sorted({op[0] for op in case['ops']})}]


class Injected(Exception):
    """the failure injected into a wrapped call"""


_CLASSES = {}
_REG = {}       # wrapped recording id -> (spy, number); lets the spy classes stay free of extra (pickled) attributes


def _classes():
    """spy classes, created once playback is importable; registered as module globals so jsonpickle can name them"""
    if _CLASSES:
        return _CLASSES
    from playback.tape_cassettes.in_memory.in_memory_tape_cassette import InMemoryTapeCassette
    from playback.recordings.memory.memory_recording import MemoryRecording

    def kv(d):
        return sorted([int(k[1:]), v] for k, v in d.items())

    class SpyRecording(MemoryRecording):
        def set_data(self, key, value):
            spy, num = _REG[self.id]
            return spy.call(('set', num, int(key[1:]), scalar(value)), lambda: MemoryRecording.set_data(self, key, value))

        def add_metadata(self, metadata):
            spy, num = _REG[self.id]
            (k, v), = metadata.items()
            return spy.call(('meta', num, int(k[1:]), v), lambda: MemoryRecording.add_metadata(self, metadata))

    class Spy(InMemoryTapeCassette):
        """spy in-memory cassette: logs every call reaching the wrapped recording / cassette, raises for poisoned
        calls, optionally blocks inside one call until every producer has made all its requests"""

        def __init__(self, sched, descs, poisoned, block_at, all_requested):
            super(Spy, self).__init__()
            self.sched, self.descs, self.poisoned = sched, descs, poisoned
            self.block_at, self.all_requested = block_at, all_requested
            self.log = []               # [desc, ok]
            self.inside_thread = None   # who is inside a wrapped call right now
            self.recs = {}
            self.closed_calls = 0

        def create_new_recording(self, category):
            r = super(Spy, self).create_new_recording(category)
            r.__class__ = SpyRecording
            return r

        def adopt(self, recording, num):
            _REG[recording.id] = (self, num)
            self.recs[num] = recording

        def forget(self):
            for r in self.recs.values():
                _REG.pop(r.id, None)

        def save_recording(self, recording):
            spy, num = _REG[recording.id]
            return self.call(('save', num), lambda: InMemoryTapeCassette.save_recording(self, recording))

        def close(self):
            self.closed_calls += 1

        def call(self, desc, thunk):
            sched = self.sched
            idx = len(self.log)
            entry = [desc, None]
            self.log.append(entry)
            if sched is not None:
                sched.emit('exec', self.descs.get(desc))
                self.inside_thread = sched.current_name()
            try:
                if sched is not None:
                    if self.block_at is not None and idx == self.block_at:
                        sched.block_until(self.all_requested, 'wrapped storage call (returns once all requests are made)')
                    else:
                        sched.yield_point('line')
                if desc in self.poisoned:
                    entry[1] = False
                    # the shape of the failure varies with the request: with a message, without arguments (like a bare
                    # `assert`), a built-in exception without arguments
                    shape = zlib.crc32(repr(desc).encode()) % 3
                    if shape == 0:
                        raise Injected('injected failure of %r' % (desc,))
                    if shape == 1:
                        raise Injected()
                    raise AssertionError()
                try:
                    res = thunk()
                except Exception:
                    entry[1] = False
                    raise
                entry[1] = True
                return res
            finally:
                self.inside_thread = None

        def dump(self, recs):
            """JSON-able, canonical"""
            out = []
            for n in recs:
                r = self.recs.get(n)
                if r is None:
                    out.append([n, None])
                    continue
                saved = None
                if r.id in self._recordings:
                    s = self.get_recording(r.id)
                    saved = [kv(s.recording_data), kv(s.get_metadata())]
                out.append([n, {'data': kv(r.recording_data), 'meta': kv(r.recording_metadata), 'closed': bool(r._closed),
                                'saved': saved}])
            return out

    for cls in (SpyRecording, Spy):
        cls.__module__ = __name__
        cls.__qualname__ = cls.__name__
        globals()[cls.__name__] = cls
    _CLASSES.update(Spy=Spy, SpyRecording=SpyRecording)
    return _CLASSES


def make_spy(sched, descs, poisoned, block_at, all_requested):
    return _classes()['Spy'](sched, descs, poisoned, block_at, all_requested)


def sync_twin(case, counts):
    """synchronous recording: producer after producer, the first counts[p] requests of each made directly against an
    identical spy cassette (a raising call is reported to the caller, who goes on)"""
    descs, poisoned = index_ops(case)
    spy = make_spy(None, descs, poisoned, None, None)
    trace = []
    lists = {}
    for p, prog in enumerate(case['programs']):
        recs = {}
        for q, op in enumerate(prog):
            if not is_request(op):
                # the caller mutates the value it wrote earlier (also right after the last applied request)
                if (p, op['r'], op['key']) in lists:
                    lists[(p, op['r'], op['key'])].append(0)
                continue
            if q >= counts[p]:
                break
            if op['r'] not in recs:
                recs[op['r']] = spy.create_new_recording('Cat')
                spy.adopt(recs[op['r']], rec_id(p, op['r']))
            r = recs[op['r']]
            try:
                if op['k'] == 'set':
                    r.set_data('k%d' % op['key'], op_value(op, lists, p))
                elif op['k'] == 'meta':
                    r.add_metadata({'m%d' % op['key']: op['val']})
                else:
                    spy.save_recording(r)
                trace.append([p, q, True])
            except Exception:
                trace.append([p, q, False])
    spy.forget()
    return {'store': spy.dump(all_recs(case)), 'trace': trace}


def index_ops(case):
    descs, poisoned = {}, set()
    for p, prog in enumerate(case['programs']):
        for q, op in enumerate(prog):
            if not is_request(op):
                continue
            d = op_desc(p, op)
            if d in descs:
                raise InfraError('workload is ambiguous: two requests look the same to the spy: %r' % (d,))
            descs[d] = [p, q]
            if op.get('x'):
                poisoned.add(d)
    return descs, poisoned


# ------------------------------------------------------------------------------------------------------------------
# one run of the real code under the scheduler
# ------------------------------------------------------------------------------------------------------------------
CRITICAL_FUNCS = ('_add_async_operation', '_flush_recording')
_WARM = {'opcode': False}


def _warm_up_opcode_tracing():
    """CPython 3.12 instruments a code object for per-instruction events lazily: the first traced execution of a
    function in a process delivers fewer 'opcode' events than later ones.  Run a throw-away workload until the number
    of scheduling points is stable, so that a schedule means the same run in every process."""
    if _WARM['opcode']:
        return
    _WARM['opcode'] = True
    w = {'programs': [[{'r': 0, 'k': 'set', 'key': 1, 'val': 1}, {'r': 0, 'k': 'save'}]], 'closer': {'p': 0, 'at': 2},
         'block': None, 'gran': 'opcode', 'sched': {'kind': 'choices', 'choices': []}}
    seen = []
    for _ in range(6):
        seen.append(run_real(w)['sched_steps'])
        if len(seen) >= 3 and seen[-1] == seen[-2] == seen[-3]:
            return
    raise InfraError('byte-code tracing does not stabilise: %r' % seen)


def run_real(case):
    from harness import sched as S
    from playback.tape_cassettes.asynchronous import async_record_only_tape_cassette as mod
    from playback.tape_cassettes.asynchronous.async_record_only_tape_cassette import AsyncRecordOnlyTapeCassette

    programs = case['programs']
    sc = case['sched']
    if sc['kind'] == 'choices':
        chooser = S.Scripted(sc['choices'])
    else:
        chooser = S.RandomChooser(random.Random(sc['seed']), sc.get('p'))
    target = mod.__file__
    if target.endswith('.pyc'):
        target = target[:-1]
    gran = case.get('gran', 'line')
    if gran == 'opcode':
        _warm_up_opcode_tracing()
    sched = S.Scheduler([target], chooser, opcode_funcs=(CRITICAL_FUNCS if gran == 'opcode' else ()),
                        max_steps=case.get('max_steps', 8000), watchdog_s=20.0)
    descs, poisoned = index_ops(case)
    progress = [0] * len(programs)

    def all_requested():
        return all(progress[p] >= len(programs[p]) for p in range(len(programs)))
    lists = {}

    spy = make_spy(sched, descs, poisoned, case.get('block'), all_requested)
    c = AsyncRecordOnlyTapeCassette(spy, flush_interval=0.05, timeout_on_close=5)
    c._lock = S.CoopLock(sched, 'lock', probe=lambda: spy.inside_thread)
    c._stop_event = S.CoopEvent(sched, 'stop')
    c._update_recording_thread = S.CoopThread(sched, 'flusher', c._recording_loop)
    # whatever the wrapper creates LATER (a thread made in start(), a second event, ...) must live under the scheduler too:
    # the module's own names are stand-ins for the duration of the run
    made = {'n': 0}

    def later(kind):
        def factory(*a, **k):
            made['n'] += 1
            name = '%s-made-later-%d' % (kind, made['n'])
            if kind == 'thread':
                return S.CoopThread(sched, 'flusher' if c._update_recording_thread.t is None and made['n'] == 1 else name,
                                    k.get('target') or (a[0] if a else None))
            if kind == 'event':
                return S.CoopEvent(sched, name)
            return S.CoopLock(sched, name, probe=lambda: spy.inside_thread)
        return factory
    def _body():
        def all_requested():
            return all(progress[p] >= len(programs[p]) for p in range(len(programs)))
        c.start()
        closer = case.get('closer', 'join')
        caller_errors = []
        handles = []
        precreated = {}
        if closer != 'join':
            # close() may come before another producer starts: recordings are created up front (create_new_recording after
            # close() raises the documented AssertionError)
            for p, prog in enumerate(programs):
                for op in prog:
                    if (p, op['r']) not in precreated:
                        rec = c.create_new_recording('Cat')
                        spy.adopt(rec.wrapped_recording, rec_id(p, op['r']))
                        precreated[(p, op['r'])] = rec

        def do_close(who):
            sched.emit('close_call')
            try:
                c.close()
            except Exception as ex:
                caller_errors.append([who, 'close', type(ex).__name__])
            sched.emit('close_return')

        def producer(p):
            def body():
                recs = {}
                for q, op in enumerate(programs[p]):
                    if closer != 'join' and closer['p'] == p and closer['at'] == q:
                        do_close('p%d' % p)
                    if not is_request(op):
                        if (p, op['r'], op['key']) in lists:
                            sched.emit('mutate', p, q)
                            lists[(p, op['r'], op['key'])].append(0)
                        progress[p] += 1
                        continue
                    try:
                        if op['r'] not in recs:
                            if (p, op['r']) in precreated:
                                recs[op['r']] = precreated[(p, op['r'])]
                            else:
                                recs[op['r']] = c.create_new_recording('Cat')
                                spy.adopt(recs[op['r']].wrapped_recording, rec_id(p, op['r']))
                        r = recs[op['r']]
                        sched.emit('req_start', p, q)
                        if op['k'] == 'set':
                            r.set_data('k%d' % op['key'], op_value(op, lists, p))
                        elif op['k'] == 'meta':
                            r.add_metadata({'m%d' % op['key']: op['val']})
                        else:
                            c.save_recording(r)
                        sched.emit('req_end', p, q)
                    except Exception as ex:
                        caller_errors.append(['p%d' % p, q, type(ex).__name__])
                    progress[p] += 1
                if closer != 'join' and closer['p'] == p and closer['at'] >= len(programs[p]):
                    do_close('p%d' % p)
            return body

        for p in range(len(programs)):
            handles.append(S.CoopThread(sched, 'p%d' % p, producer(p)))
            handles[-1].start()
        if closer == 'join':
            def closer_body():
                for h in handles:
                    h.join()
                do_close('closer')
            S.CoopThread(sched, 'closer', closer_body).start()

        try:
            outcome = sched.run()
        except S.SchedTimeout as ex:
            raise InfraError(str(ex))
        finally:
            spy.forget()

        # ---- transcript -----------------------------------------------------------------------------------------------
        steps = []          # the atomic events, as model steps
        appends = []        # lock-acquisition order of the producers: [p, k] = k-th critical section of producer p (below
                            # mapped to the program position of its k-th request)
        n_acq = [0] * len(programs)
        close_at = None     # number of appends before the stop event was set
        contention = []     # somebody found the lock held: [who, holder, holder inside a wrapped call]
        req = {}
        clock_close_call = None
        for i, ev in enumerate(sched.events):
            who, kind = ev[0], ev[1]
            if kind == 'exec':
                steps.append('exec')
            elif kind == 'release' and ev[2] == 'lock':
                if who == 'flusher':
                    steps.append('swap')
                elif who.startswith('p'):
                    p = int(who[1:])
                    steps.append('p%d' % p)
                    appends.append([p, n_acq[p]])
                    n_acq[p] += 1
            elif kind == 'acquire' and ev[2] == 'lock':
                if who == 'flusher':
                    steps.append('lock')
            elif kind == 'is_set' and who == 'flusher':
                steps.append('check')
            elif kind == 'wake' and who == 'flusher':
                steps.append('timer')
            elif kind == 'set':
                if close_at is None:
                    close_at = len(appends)
                steps.append('close')
            elif kind == 'contend':
                contention.append([who, ev[3], ev[4] if len(ev) > 4 else None])
            elif kind == 'req_start':
                req.setdefault((ev[2], ev[3]), [None, None])[0] = i
            elif kind == 'req_end':
                req.setdefault((ev[2], ev[3]), [None, None])[1] = i
            elif kind == 'close_call' and clock_close_call is None:
                clock_close_call = i
        blocked_during_exec = [[who, holder] for who, holder, inside in contention if inside is not None and inside == holder]
        applied = []
        for desc, ok in spy.log:
            pq = descs.get(desc)
            applied.append((pq + [bool(ok)]) if pq is not None else ['?', list(desc), bool(ok)])
        fl = sched.by_name.get('flusher')
        errors = [[t.name, type(t.exc).__name__, str(t.exc)[:200]] for t in sched.threads if t.exc is not None]
        positions = request_positions(case)
        appends = [[p, positions[p][k] if k < len(positions[p]) else len(programs[p]) + k] for p, k in appends]
        impl = {
            'outcome': outcome,
            'abort': sched.abort_info if outcome != 'finished' else None,
            'applied': applied,
            'flusher_stopped': bool(fl is not None and fl.state == 'done' and outcome == 'finished'),
            'buffered': len(c._recording_operation_buffer),
            'store': spy.dump(all_recs(case)),
            'steps': steps,
            'appends': appends,
            'close_at': close_at,
            'requests': sorted([p, q, a, b] for (p, q), (a, b) in req.items()),
            'close_call': clock_close_call,
            'blocked_during_exec': blocked_during_exec,
            'contention': len(contention),
            'caller_errors': caller_errors,
            'thread_errors': errors,
            'wrapped_closed': spy.closed_calls,
            'choices': list(sched.choices),
            'decisions': [{'names': d['names'], 'cur': d['cur'], 'kind': d['kind'], 'default': d['default'],
                           'chosen': d['chosen']} for d in sched.decisions],
            'diverged': bool(getattr(chooser, 'diverged', False)),
            'sched_steps': sched.steps,
        }
        return impl
    originals = {n: getattr(mod, n) for n in ('Thread', 'Event', 'Lock')}
    mod.Thread, mod.Event, mod.Lock = later('thread'), later('event'), later('lock')
    try:
        return _body()
    finally:
        for n, v in originals.items():
            setattr(mod, n, v)


# ------------------------------------------------------------------------------------------------------------------
# the property
# ------------------------------------------------------------------------------------------------------------------
def _chunk(args):
    fn, items = args
    out = [fn(x) for x in items]
    from harness import covprobe
    covprobe.flush()
    return out


def pmap(fn, items, workers):
    """parallel map over forked worker processes that cannot hang: a worker that dies (interpreter fault) is an
    infrastructure error, not a silent wait"""
    import multiprocessing as mp
    from concurrent.futures import ProcessPoolExecutor
    from concurrent.futures.process import BrokenProcessPool
    items = list(items)
    if len(items) < 48 or workers <= 1:
        return [fn(x) for x in items]
    size = max(1, len(items) // (workers * 8))
    chunks = [(fn, items[i:i + size]) for i in range(0, len(items), size)]
    try:
        with ProcessPoolExecutor(workers, mp_context=mp.get_context('fork')) as ex:
            out = []
            for part in ex.map(_chunk, chunks):
                out.extend(part)
            return out
    except BrokenProcessPool:
        raise InfraError('a worker process running the real code under the scheduler died (interpreter fault)')


def _explore_worker(args):
    base, prefix = args
    case = dict(base, sched={'kind': 'choices', 'choices': prefix})
    impl = run_real(case)
    # a run that did not finish (deadlock / livelock) is reported by the oracle; its schedule is not refined further
    return {'decisions': impl['decisions'] if impl['outcome'] == 'finished' else [], 'outcome': impl['outcome']}


def norm_store(store):
    out = []
    for n, r in store:
        if r is None:
            r = {'data': [], 'meta': [], 'closed': False, 'saved': None}
        saved = r['saved']
        out.append([n, {'data': sorted(r['data']), 'meta': sorted(r['meta']), 'closed': bool(r['closed']),
                        'saved': None if saved is None else [sorted(saved[0]), sorted(saved[1])]}])
    return out


def mk_program(rng, p, nrec, max_writes, interleave=True):
    """1-3 recordings x (0-4 set_data + add_metadata + save); the recordings of one producer may be interleaved"""
    per_rec = []
    for r in range(nrec):
        ops = [{'r': r, 'k': 'set', 'key': rng.randint(1, MAX_KEYS)} for _ in range(rng.randint(0, max_writes))]
        ops.insert(rng.randint(0, len(ops)), {'r': r, 'k': 'meta', 'key': rng.randint(1, 2)})
        if rng.random() < 0.25:
            ops.insert(rng.randint(0, len(ops)), {'r': r, 'k': 'meta', 'key': rng.randint(1, 2)})
        ops.append({'r': r, 'k': 'save'})
        per_rec.append(ops)
    prog = []
    if interleave and rng.random() < 0.5:
        while any(per_rec):
            r = rng.choice([i for i, o in enumerate(per_rec) if o])
            prog.append(per_rec[r].pop(0))
    else:
        for ops in per_rec:
            prog.extend(ops)
    for q, op in enumerate(prog):
        if op['k'] != 'save':
            op['val'] = 100 * p + q + 1     # unique: identifies the request in the spy's log
    return prog


def fixed_workloads():
    """the workloads whose schedules are enumerated exhaustively up to the pre-emption bound"""
    w1 = {'programs': [[{'r': 0, 'k': 'set', 'key': 1, 'val': 1}, {'r': 0, 'k': 'meta', 'key': 1, 'val': 2, 'x': True},
                        {'r': 0, 'k': 'set', 'key': 1, 'val': 3}, {'r': 0, 'k': 'save'}]],
          'closer': {'p': 0, 'at': 4}, 'block': None, 'gran': 'line'}
    w2 = {'programs': [[{'r': 0, 'k': 'save'}], [{'r': 0, 'k': 'meta', 'key': 1, 'val': 101, 'x': True}]],
          'closer': 'join', 'block': None, 'gran': 'line'}
    w3 = {'programs': [[{'r': 0, 'k': 'set', 'key': 2, 'val': 1}, {'r': 0, 'k': 'set', 'key': 2, 'val': 2},
                        {'r': 0, 'k': 'meta', 'key': 1, 'val': 3}, {'r': 0, 'k': 'save'}]],
          'closer': 'join', 'block': 0, 'gran': 'line'}
    w4 = {'programs': [[{'r': 0, 'k': 'set', 'key': 1, 'val': 1}, {'r': 0, 'k': 'save'},
                        {'r': 1, 'k': 'meta', 'key': 1, 'val': 3}, {'r': 1, 'k': 'save'}],
                       [{'r': 0, 'k': 'set', 'key': 1, 'val': 101}, {'r': 0, 'k': 'save'}]],
          'closer': {'p': 0, 'at': 2}, 'block': None, 'gran': 'line'}
    w5 = {'programs': [[{'r': 0, 'k': 'set', 'key': 1, 'val': 1}, {'r': 0, 'k': 'save'}]],
          'closer': {'p': 0, 'at': 2}, 'block': None, 'gran': 'opcode'}
    return [w1, w2, w3, w4, w5]


class C12(Prop):
    ID = 'C12'
    CORRESPONDENCE = ('PlaybackModel.Async.run (driven by the atomic events of the real run) vs AsyncRecordOnlyTapeCassette '
                      'around a spy in-memory cassette under the controlled scheduler; PlaybackModel.AsyncCaller.direct / forward vs one caller\'s requests '
                      '(writes, saves, aborts) made on an in-memory cassette and through the wrapper')
    RULE = ('real AsyncRecordOnlyTapeCassette around a spy cassette under the deterministic scheduler. Exhaustive part: every '
            'schedule with <= k pre-emptions of five fixed workloads (1 producer + failing call, k=2 quick / 3 thorough; '
            '2 producers + joiner, k=0 / 1; blocking wrapped call, k=1 / 2; 2 producers with close() in mid-program, k=1 / 2; '
            '1 producer at byte-code granularity of the two critical sections, k=2 / 2). Random part: a failing wrapped call at '
            'every position of one workload, and random workloads (1-3 producers x 1-3 recordings x 0-4 writes + metadata + '
            'save, failing wrapped calls, close by a joiner or by a producer at any point, optionally one blocking wrapped '
            'call) under random schedules at line and byte-code granularity. Sequential part (one caller, no schedule, not modelled): '
            'writes of equal-but-different values (1 / True / 1.0, 0 / False, 2 / 2.0, equal strings) under one key / metadata name - a third of them with the recording aborted once or twice on the way and handed to save all the same, writes after the save; those with text keys are compared with the caller-side model (what the caller sees, what is stored) -, and '
            'bursts of 1001 - 12289 writes while the flusher sleeps, compared with recording directly down to the type of every value. '
            'A case is non-trivial when at least one call '
            'reached the wrapped cassette and the scheduler had at least one real choice; distinct = distinct canonical case')
    TRUSTED = ['correspondence harness harness/props/c12.py + harness/sched.py (sys.settrace baton scheduler, cooperative '
               'Lock/Event/Thread stand-ins installed from outside) + Lean driver (Drive/Async.lean)',
               'CPython: thread switches happen between the traced lines / byte-code instructions that the scheduler '
               'explores (bounded pre-emptions exhaustively, then random); list.append and attribute assignment are atomic',
               "close()'s join(timeout) is modelled as waiting long enough: expiry under a slow store is wall-clock "
               'behaviour outside the model',
               'the spy in-memory cassette stands for the wrapped storage (a call either raises before any effect or '
               'behaves like MemoryRecording / InMemoryTapeCassette)']
    ASSUMPTIONS = ['every recording is written by one producer thread', 'requests made after close() are not covered '
                   '(they may or may not be stored; those that are stored keep the order)']
    PARALLEL = 14

    # ---------------------------------------------------------------------------------------------------- generation
    def enumerate_schedules(self, base, k, max_runs):
        from harness import sched as S
        workers = min(self.PARALLEL, os.cpu_count() or 1)

        def run_batch(prefixes):
            return pmap(_explore_worker, [(base, p) for p in prefixes], workers)
        out = []
        truncated = False
        for prefix, cost, res in S.explore(run_batch, k, max_runs):
            if prefix is None:
                truncated = True
                break
            out.append((prefix, cost))
        return out, truncated

    def generate(self, rng, tier):
        cases = []
        workloads = fixed_workloads()
        if tier == 'quick':
            plan = [(workloads[0], 2), (workloads[1], 0), (workloads[2], 1), (workloads[3], 1), (workloads[4], 2)]
        else:
            plan = [(workloads[0], 3), (workloads[1], 1), (workloads[2], 2), (workloads[3], 2), (workloads[4], 2)]
        for wi, (base, kk) in enumerate(plan):
            scheds, truncated = self.enumerate_schedules(base, kk, 60000)
            if truncated:
                raise InfraError('enumeration of workload %d with <= %d pre-emptions exceeds the run limit' % (wi, kk))
            for prefix, cost in scheds:
                cases.append(dict(base, sched={'kind': 'choices', 'choices': prefix}, enum={'w': wi, 'k': kk, 'cost': cost}))
        # a failing wrapped operation at every position of one workload, under random schedules
        n_random = 2500 if tier == 'quick' else 20000
        base = self.rand_workload(random.Random(12), 2)
        total = sum(len(p) for p in base['programs'])
        for pos in range(total):
            for _ in range(8 if tier == 'quick' else 40):
                c = self.poison_at(base, pos)
                c['sched'] = self.rand_sched(rng)
                c['gran'] = rng.choice(['line', 'line', 'opcode'])
                cases.append(c)
        for _ in range(n_random):
            c = self.rand_workload(rng, rng.choice([1, 2, 2, 3]))
            c['sched'] = self.rand_sched(rng)
            cases.append(c)
        for _ in range(150 if tier == 'quick' else 2000):
            cases.append(gen_seqeq(rng))
        for n in ([1001, 2300] if tier == 'quick' else [1001, 1024, 2000, 2049, 4097, 5000, 10001, 3 * 4096 + 1]):
            cases.append(gen_burst(rng, n))
        return cases

    @staticmethod
    def poison_at(base, pos):
        c = dict(base, programs=[[dict(op) for op in prog] for prog in base['programs']])
        i = 0
        for prog in c['programs']:
            for op in prog:
                op['x'] = (i == pos)
                i += 1
        return c

    def rand_sched(self, rng):
        return {'kind': 'random', 'seed': rng.randrange(1 << 30), 'p': rng.choice([None, None, 0.03, 0.1, 0.25, 0.5])}

    def rand_workload(self, rng, nprod):
        small = rng.random() < 0.5
        programs = [mk_program(rng, p, rng.randint(1, 2 if small else 3), 2 if small else 4) for p in range(nprod)]
        for prog in programs:
            for op in prog:
                if rng.random() < 0.12:
                    op['x'] = True
        c = {'programs': programs, 'block': None, 'gran': rng.choice(['line', 'line', 'opcode'])}
        if rng.random() < 0.6:
            c['closer'] = 'join'
        else:
            p = rng.randrange(nprod)
            at = len(programs[p]) if rng.random() < 0.6 else rng.randint(0, len(programs[p]))
            c['closer'] = {'p': p, 'at': at}
        if (c['closer'] == 'join' or c['closer']['at'] >= len(programs[c['closer']['p']])) and rng.random() < 0.3:
            c['block'] = rng.randrange(sum(len(p) for p in programs))
        return c

    # ---------------------------------------------------------------------------------------------------- running
    def run_impl(self, case):
        if case.get('kind') == 'seqeq':
            return run_seqeq(case)
        impl = run_real(case)
        impl.pop('decisions', None)
        counts = [0] * len(case['programs'])
        for a in impl['applied']:
            if a[0] != '?':
                counts[a[0]] = max(counts[a[0]], a[1] + 1)
        impl['twin'] = sync_twin(case, counts)
        impl['twin_counts'] = counts
        return impl

    def run_all_impl(self, cases):
        impls = pmap(_impl_worker, [(self, c) for c in cases], min(self.PARALLEL, os.cpu_count() or 1))
        for c, i in zip(cases, impls):
            c['_impl'] = i      # the model is driven by the atomic events observed in the real run
        return impls

    def model_requests(self, case):
        impl = case.get('_impl') or {}
        if seqeq_modelled(case):
            return seqeq_requests(case)
        if case.get('kind') == 'seqeq':
            return []
        if case.get('model') is False:
            return []       # caller-side mutation of written values: the model keeps immutable values (K9)
        if has_mutation(case) or any(op.get('list') for prog in case['programs'] for op in prog):
            raise InfraError('a case with list values / caller-side mutation must say "model": false')
        programs = [[wire_op(p, q, op) for q, op in enumerate(prog)] for p, prog in enumerate(case['programs'])]
        counts = impl.get('twin_counts') or [0] * len(programs)
        return [{'m': 'c12.run', 'programs': programs, 'sched': impl.get('steps', []), 'recs': all_recs(case)},
                {'m': 'c12.sync', 'programs': [prog[:counts[p]] for p, prog in enumerate(programs)], 'recs': all_recs(case)}]

    def model_transcript(self, case, answers):
        if seqeq_modelled(case):
            a = answers[0]
            if 'error' in a:
                return {'error': a['error']}

            def stored(v):
                return [[n, None if x is None else [sorted(x[0]), sorted(x[1])]] for n, x in v]
            return {'sync_seen': a['directSeen'], 'async_seen': a['asyncSeen'], 'sync_stored': stored(a['directStored']),
                    'async_stored': stored(a['asyncStored'])}
        if case.get('kind') == 'seqeq':
            return None
        if case.get('model') is False:
            return self.impl_view(case, case['_impl'])      # correspondence skipped, the oracle decides
        a, s = answers
        return {'applied': a['applied'], 'stopped': a['fl'] == 'stopped', 'buffered': len(a['buf']),
                'store': norm_store(a['store']), 'twin': norm_store(s['store']),
                'appended': a['appended'], 'before_close': len(a['beforeClose']) if a['stop'] else None}

    def impl_view(self, case, impl):
        if seqeq_modelled(case):
            return impl.get('norm')
        if case.get('kind') == 'seqeq':
            return None
        appended = [[p, k] for p, k in impl['appends']]
        return {'applied': impl['applied'], 'stopped': impl['flusher_stopped'], 'buffered': impl['buffered'],
                'store': norm_store(impl['store']), 'twin': norm_store(impl['twin']['store']),
                'appended': appended, 'before_close': impl['close_at']}

    # ---------------------------------------------------------------------------------------------------- oracle
    def oracle(self, case, impl):
        if case.get('kind') == 'seqeq':
            if impl['async'] != impl['sync']:
                if case.get('burst'):
                    na = sum(len(r['data']) for r in impl['async'])
                    return ['a burst of %d writes by one caller, then save and close: the wrapper left %d recordings holding %d '
                            'data keys, recording directly leaves %d holding %d'
                            % (case['burst'], len(impl['async']), na, len(impl['sync']), sum(len(r['data']) for r in impl['sync']))]
                return ['one caller, requests %r: recording through the wrapper stored %r, recording '
                        'directly stores %r' % ([o[1] for o in case['ops']], impl['async'], impl['sync'])]
            if impl.get('async_seen') != impl.get('sync_seen'):
                return ['one caller, requests %r: through the wrapper the caller saw %r, recording directly %r'
                        % ([o[1] for o in case['ops']], impl.get('async_seen'), impl.get('sync_seen'))]
            return []
        f = []
        progs = case['programs']
        sched_txt = 'schedule %r (granularity %s)' % (impl.get('choices'), case.get('gran', 'line'))
        if impl['outcome'] != 'finished':
            blocked = (impl.get('abort') or {}).get('blocked') or []
            waiting = [b for b in blocked if b['thread'].startswith('p') and str(b.get('waits_for', '')).startswith('lock')]
            if impl['outcome'] == 'deadlock' and waiting:
                f.append('callers wait for the wrapped storage: %s while the flusher is inside a wrapped call that does not '
                         'return before all requests are made (deadlock)' % (waiting,))
            else:
                f.append('the run did not finish (%s): %r' % (impl['outcome'], blocked))
            return f + [sched_txt]
        if impl['thread_errors']:
            f.append('a thread died: %r' % impl['thread_errors'])
        if impl['caller_errors']:
            f.append('a caller got an exception from the asynchronous cassette: %r' % impl['caller_errors'])
        if not impl['flusher_stopped']:
            f.append('close() returned but the flusher thread has not stopped')
        if impl['wrapped_closed'] != 1:
            f.append('the wrapped cassette was closed %d times' % impl['wrapped_closed'])
        W = [(a[0], a[1]) for a in impl['applied']]
        unknown = [a for a in impl['applied'] if a[0] == '?']
        if unknown:
            f.append('calls reached the wrapped cassette that nobody requested: %r' % unknown)
        dups = sorted({w for w in W if W.count(w) > 1})
        if dups:
            f.append('requests applied more than once: %r' % dups)
        # lock-acquisition order: the k-th critical section of producer p appends its k-th request
        A = [(p, k) for p, k in impl['appends']]
        cut = impl['close_at'] if impl['close_at'] is not None else len(A)
        before = A[:cut]
        if W[:len(before)] != before:
            lost = [a for a in before if a not in W]
            f.append('requests appended before close() %s: appended before close %r, reached the wrapped cassette %r'
                     % ('were lost: %r' % lost if lost else 'were not applied in request order', before, W))
        elif W != A[:len(W)]:
            f.append('calls reached the wrapped cassette in an order other than the append order: %r vs %r' % (W, A))
        # the same, without the lock instrumentation: per producer program order, completed requests, real-time order
        positions = request_positions(case)
        req = {(p, q): (a, b) for p, q, a, b in impl['requests']}
        for p, prog in enumerate(progs):
            wp = [w for w in W if w[0] == p]
            if wp != [(p, q) for q in positions[p][:len(wp)]]:
                f.append('producer %d: applied %r is not a prefix of its program' % (p, wp))
        cc = impl['close_call']
        for (p, q), (a, b) in sorted(req.items()):
            if b is not None and cc is not None and b < cc and (p, q) not in W:
                f.append('request %r returned before close() was called but never reached the wrapped cassette' % ((p, q),))
        pos = {}
        for i, w in enumerate(W):
            pos.setdefault(w, i)
        for x, (ax, bx) in req.items():
            for y, (ay, by) in req.items():
                if bx is not None and ay is not None and bx < ay and x in pos and y in pos and pos[x] > pos[y]:
                    f.append('request %r returned before request %r was made, but was applied after it' % (x, y))
        # outcomes and stored recordings equal those of synchronous recording
        twin_ok = {(p, q): ok for p, q, ok in impl['twin']['trace']}
        for a in impl['applied']:
            if a[0] != '?' and (a[0], a[1]) in twin_ok and twin_ok[(a[0], a[1])] != a[2]:
                f.append('request %r %s asynchronously but %s synchronously' % ((a[0], a[1]), 'succeeded' if a[2] else 'failed',
                                                                                 'succeeded' if twin_ok[(a[0], a[1])] else 'failed'))
        st_a, st_s = norm_store(impl['store']), norm_store(impl['twin']['store'])
        if st_a != st_s:
            if has_mutation(case) and unmutated(st_a) == unmutated(st_s):
                f.append('%s: stored %r, synchronous recording stores %r' % (K9_PREFIX, st_a, st_s))
            else:
                f.append('stored recordings differ from synchronous recording of the same requests: %r vs %r' % (st_a, st_s))
        for p, prog in enumerate(progs):
            done_before_close = all(req.get((p, q), (None, None))[1] is not None and cc is not None
                                    and req[(p, q)][1] < cc for q in positions[p])
            n_applied = len({w for w in W if w[0] == p})
            if done_before_close and n_applied != len(positions[p]):
                f.append('producer %d finished before close() but only %d of its %d requests were applied'
                         % (p, n_applied, len(positions[p])))
        if impl['blocked_during_exec']:
            f.append('callers wait for the wrapped storage: %r found the lock held by a thread that was inside a wrapped '
                     'call' % (impl['blocked_during_exec'],))
        f = f[:12]
        if f:
            f.append(sched_txt)
        return f

    # ---------------------------------------------------------------------------------------------------- evidence
    def nontrivial(self, case, impl):
        if case.get('kind') == 'seqeq':
            return True
        return len(impl['applied']) > 0 and len(impl['choices']) > 0

    def features(self, case, impl):
        if case.get('kind') == 'seqeq':
            return ['sequential:burst'] if case.get('burst') else ['sequential:equal-but-different-values'] + (['sequential:abort-then-save'] if any(o[1] == 'abort' for o in case['ops']) else [])
        out = ['producers:%d' % len(case['programs']), 'granularity:' + case.get('gran', 'line'),
               'closer:' + ('join' if case.get('closer', 'join') == 'join' else 'producer'),
               'schedule:' + ('enumerated<=%d' % case['enum']['k'] if 'enum' in case else case['sched']['kind']),
               'outcome:' + impl['outcome'], 'flusher-rounds:%d' % min(impl['steps'].count('swap'), 6)]
        if case.get('block') is not None:
            out.append('blocking-wrapped-call')
        if any(op.get('x') for prog in case['programs'] for op in prog):
            out.append('failing-wrapped-call')
        if any(not a[2] for a in impl['applied']):
            out.append('failure-observed')
        if impl['close_at'] is not None and impl['close_at'] < len(impl['appends']):
            out.append('appends-after-close')
        if impl['buffered']:
            out.append('left-in-buffer-after-close')
        if impl['contention']:
            out.append('lock-contention')
        if impl['diverged']:
            out.append('scripted-schedule-did-not-fit')
        if has_mutation(case):
            out.append('caller-mutates-written-value')
        if case.get('model') is False:
            out.append('correspondence-skipped(model:false)')
        if 'enum' in case:
            out.append('preemptions:%d' % case['enum']['cost'])
            out.append('enumerated-workload:%d' % case['enum']['w'])
        return out

    def known_finding(self, case, failures):
        if case.get('kind') == 'seqeq':
            return None
        """K9 only: every failure is a stored value that differs from the synchronous twin's solely by what the caller
        appended to the list object after the write was requested"""
        body = [x for x in failures if not x.startswith('schedule ')]
        if has_mutation(case) and body and all(x.startswith(K9_PREFIX) for x in body):
            return K9
        return None

    def sample_repr(self, case):
        if case.get('burst'):
            return dict({k: v for k, v in case.items() if k != 'ops'}, ops='%d writes, then save' % (len(case['ops']) - 1))
        return {k: v for k, v in case.items() if not k.startswith('_')}

    # ---------------------------------------------------------------------------------------------------- search
    def shrink(self, case):
        if case.get('kind') == 'seqeq' and case.get('burst'):
            return
        if case.get('kind') == 'seqeq':
            for i in range(len(case['ops'])):
                if case['ops'][i][1] != 'save':
                    yield dict(case, ops=case['ops'][:i] + case['ops'][i + 1:])
            return
        impl = case.get('_impl') or {}
        base = {k: v for k, v in case.items() if not k.startswith('_') and k != 'enum'}
        choices = impl.get('choices')
        if case['sched']['kind'] != 'choices' and choices is not None:
            yield dict(base, sched={'kind': 'choices', 'choices': list(choices)})
            return
        ch = list(case['sched'].get('choices', []))
        if case['sched']['kind'] == 'choices':
            while ch and ch[-1] == 0:
                ch.pop()
            for n in sorted({len(ch) // 2, len(ch) - 1, len(ch) - 4}):
                if 0 <= n < len(ch):
                    yield dict(base, sched={'kind': 'choices', 'choices': ch[:n]})
        if base.get('gran') == 'opcode':
            yield dict(base, gran='line')
        if base.get('block') is not None:
            yield dict(base, block=None)
        progs = base['programs']
        if len(progs) > 1 and base.get('closer', 'join') == 'join':
            for p in range(len(progs)):
                yield dict(base, programs=progs[:p] + progs[p + 1:], sched={'kind': 'choices', 'choices': []})
        for p, prog in enumerate(progs):
            for q, op in enumerate(prog):
                if op['k'] != 'save' and base.get('closer', 'join') == 'join':
                    np = prog[:q] + prog[q + 1:]
                    yield dict(base, programs=progs[:p] + [np] + progs[p + 1:], block=None)
                if op.get('x'):
                    nop = dict(op, x=False)
                    yield dict(base, programs=progs[:p] + [prog[:q] + [nop] + prog[q + 1:]] + progs[p + 1:])

    def targeted(self, case, rng):
        base = {k: v for k, v in case.items() if not k.startswith('_') and k != 'enum'}
        out = []
        total = sum(len(p) for p in base['programs'])
        for i in range(1500):
            c = dict(base)
            if i % 3 == 0:
                c = self.poison_at(base, rng.randrange(max(1, total)))
            if i % 5 == 0 and (c.get('closer', 'join') == 'join'):
                c['block'] = rng.randrange(max(1, total))
            c['gran'] = rng.choice(['line', 'opcode'])
            c['sched'] = self.rand_sched(rng)
            out.append(c)
        for _ in range(500):
            c = self.rand_workload(rng, rng.choice([1, 2]))
            c['sched'] = self.rand_sched(rng)
            out.append(c)
        return out


PROP = C12
