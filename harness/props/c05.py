"""C05 - A recording is persisted whole or not at all, and finalised exactly once (DESIGN.md section 6, C05)."""
from harness.props.recorder_common import RecorderProp, op_runs, records, ALL_OPTS
from harness import recorder_gen as rg


class C05(RecorderProp):
    ID = 'C05'
    RULE = ('random histories with capture faults, explicit discards, sampling outcomes, ordinary exceptions and interrupts at '
            'every step incl. inside intercepted bodies; every operation is followed by a replay of the recording it created '
            'with the same program; 30% of the cases declare what-to-do-when-missing policies on inputs; the kill switch (enable_recording / disable_recording) flipped by the running code at any step; spy '
            'cassette log create/save/abort; + operations recorded through the asynchronous wrapper that another thread / the operation '
            'itself closes at every point (before, between and after its interceptions, explicit flushes in between): what the '
            'wrapped cassette then holds replays without a missing key or is flagged incomplete; + operations that replay a known / unknown reference '
            'recording while they are recorded (not modelled: their recording is still finalised exactly once); non-trivial = a run that opened a '
            'recording scope')
    OPTS = dict(ALL_OPTS, play_ratio=0.0, missing_play=False, cassettes=['memory', 'memory', 'file', 's3', 'async'], runs=(1, 3),
                data=False)   # play_data answers differently while recording and replaying: not 'the same deterministic code'
    N = {'quick': 2500, 'thorough': 25000}

    def gen_one(self, rng, tier):
        opts = self.OPTS
        if rng.random() < 0.3:
            # inputs declared with what-to-do-when-missing policies: a capture fault on such an input still discards
            opts = dict(opts, policies=True)
        case = rg.gen_history(rng, opts)
        runs, created = [], 0
        for run in case['runs']:
            runs.append(run)
            if rg.created_by(run, case['classes']):
                # replay what was (perhaps) just saved, with the same program, on the same code
                runs.append({'run': 'play', 'cls': run['cls'], 'rec': created, 'enabled': run['enabled'],
                             'script': run['script'], 'clock': [100, 101, 102]})
                created += 1
        case['runs'] = runs
        return case

    # -- recording through the asynchronous wrapper while the service shuts it down ---------------------------------------
    # (the wrapper applies what was requested before close and nothing after it: a recording cut in two by the close must
    # not surface as a saved, complete recording)
    ASYNC = {'quick': 120, 'thorough': 1500}

    def generate(self, rng, tier):
        cases = super(C05, self).generate(rng, tier)
        for _ in range(self.ASYNC[tier]):
            steps = [[rng.choice(['in', 'in', 'out']), rng.randint(0, 3)] for _ in range(rng.randint(1, 5))]
            for _ in range(rng.choice([0, 1, 1, 2])):
                steps.insert(rng.randint(0, len(steps)), ['flush'])
            pos = rng.randint(0, len(steps) + 1)
            if pos <= len(steps):
                steps.insert(pos, ['close', rng.choice(['thread', 'direct'])])      # else: closed after the operation
            cases.append({'kind': 'asyncclose', 'model': False, 'steps': steps, 'end': rng.choice(['ret', 'ret', 'raise'])})
        for _ in range(self.ASYNC[tier] // 6):
            steps = [[rng.choice(['in', 'in', 'out']), rng.randint(0, 3)] for _ in range(rng.randint(0, 4))]
            for _ in range(rng.choice([1, 1, 2])):
                steps.insert(rng.randint(0, len(steps)), ['play', rng.choice(['known', 'known', 'unknown', 'known-discard'])])
            cases.append({'kind': 'playinside', 'model': False, 'steps': steps, 'end': rng.choice(['ret', 'ret', 'raise'])})
        return cases

    def run_async_case(self, case):
        import threading
        from playback.tape_recorder import TapeRecorder
        from playback.exceptions import RecordingKeyError
        from playback.tape_cassettes.in_memory.in_memory_tape_cassette import InMemoryTapeCassette
        from playback.tape_cassettes.asynchronous.async_record_only_tape_cassette import AsyncRecordOnlyTapeCassette
        wrapped = InMemoryTapeCassette()
        cassette = AsyncRecordOnlyTapeCassette(wrapped, flush_interval=3600, timeout_on_close=20)
        cassette.start()
        state = {'closed': False}

        def close():
            if not state['closed']:
                state['closed'] = True
                cassette.close()

        def make(tr, live):
            def read(self_, a):
                return ['value', a, a * 3]

            def send(self_, a):
                return ['ack', a]

            def execute(self_):
                got = []
                for st in case['steps']:
                    if st[0] == 'in':
                        got.append(self_.read(st[1]))
                    elif st[0] == 'out':
                        got.append(self_.send(st[1]))
                    elif live and st[0] == 'flush':
                        cassette._flush_recording()     # what the flusher thread does when its interval elapses
                    elif live and st[0] == 'close':
                        if st[1] == 'thread':
                            t = threading.Thread(target=close)
                            t.start()
                            t.join()
                        else:
                            close()
                if case['end'] == 'raise':
                    raise ValueError('op')
                return got
            return type('AsyncOp', (object,), {'read': tr.intercept_input('read')(read), 'send': tr.intercept_output('send')(send),
                                               'execute': tr.operation()(execute)})

        def end_of(thunk):
            try:
                return ['ret', thunk()]
            except Exception as ex:
                return ['exc', type(ex).__name__]
        tr = TapeRecorder(cassette)
        tr.enable_recording()
        Op = make(tr, True)
        out = {'end': end_of(lambda: Op().execute()), 'stored': []}
        close()
        tr2 = TapeRecorder(wrapped)
        Op2 = make(tr2, False)
        for rid in list(wrapped._recordings):
            rec = wrapped.get_recording(rid)
            meta = rec.get_metadata()
            try:
                pb = tr2.play(rid, lambda recording: Op2().execute())
                replay = ['played', sorted(o.key for o in pb.playback_outputs)]
            except RecordingKeyError:
                replay = ['raised', 'RecordingKeyError']
            except Exception as ex:
                replay = ['raised', type(ex).__name__]
            out['stored'].append({'keys': sorted(rec.get_all_keys()), 'incomplete': meta.get(TapeRecorder.INCOMPLETE_RECORDING), 'replay': replay})
        return out

    # -- an operation that replays a reference recording while it is being recorded (a recorded "regression check") ----------
    # (replaying inside a recorded operation is outside the model; whatever it does to the numbering of the outputs, the
    # recording scope around it still finalises its recording exactly once)
    def run_playinside_case(self, case):
        from playback.tape_recorder import TapeRecorder
        from playback.tape_cassettes.in_memory.in_memory_tape_cassette import InMemoryTapeCassette
        cassette = InMemoryTapeCassette()
        tr = TapeRecorder(cassette)
        tr.enable_recording()
        log = []
        for name in ('create_new_recording', 'save_recording', 'abort_recording'):
            def spy(*a, _real=getattr(cassette, name), _name=name.split('_')[0], **kw):
                log.append(_name)
                return _real(*a, **kw)
            setattr(cassette, name, spy)

        def q(self_, a):
            return a * 2

        def snd(self_, a):
            return 'ack'

        def ref_run(self_):
            self_.snd(1)
            return self_.q(3)
        Ref = type('Ref', (object,), {'q': tr.intercept_input('q')(q), 'snd': tr.intercept_output('snd')(snd),
                                      'run': tr.operation()(ref_run)})
        Ref().run()
        ref_id = cassette.get_last_recording_id()
        del log[:]

        def outer_run(self_):
            got = []
            for st in case['steps']:
                if st[0] == 'in':
                    got.append(self_.q(st[1]))
                elif st[0] == 'out':
                    got.append(self_.snd(st[1]))
                else:
                    try:
                        def inner(recording, how=st[1]):
                            if how == 'known-discard':
                                tr.discard_recording()       # the replayed code drops the recording that is in flight around it
                            return Ref().run()
                        tr.play('Ref/unknown' if st[1] == 'unknown' else ref_id, inner)
                        got.append('played')
                    except Exception as ex:
                        got.append(type(ex).__name__)
            if case['end'] == 'raise':
                raise ValueError('op')
            return got
        Outer = type('Outer', (object,), {'q': tr.intercept_input('q')(q), 'snd': tr.intercept_output('snd')(snd),
                                          'run': tr.operation()(outer_run)})
        try:
            end = ['ret', Outer().run()]
        except Exception as ex:
            end = ['exc', type(ex).__name__]
        # a probe: the reference operation recorded once more afterwards holds what its first recording holds
        ref_keys = sorted(cassette.get_recording(ref_id).get_all_keys())
        before = cassette.get_last_recording_id()
        n_log = len(log)
        try:
            Ref().run()
        except Exception:
            pass
        probe_id = cassette.get_last_recording_id()
        probe_keys = sorted(cassette.get_recording(probe_id).get_all_keys()) if probe_id != before else None
        del log[n_log:]
        recorded = None
        rid = before
        if rid != ref_id and log[-1:] == ['save']:
            rec = cassette.get_recording(rid)
            recorded = sorted([k, rec.get_data(k)['args'][-1]] for k in rec.get_all_keys() if k.startswith('output: snd #') and k.endswith('.output'))
        return {'end': end, 'log': list(log), 'idle': [bool(tr.in_recording_mode), bool(tr.in_playback_mode)], 'recorded_snd': recorded,
                'ref_keys': ref_keys, 'probe_keys': probe_keys}

    def run_impl(self, case):
        if case.get('kind') == 'playinside':
            return self.run_playinside_case(case)
        if case.get('kind') == 'asyncclose':
            return self.run_async_case(case)
        return super(C05, self).run_impl(case)

    def sample_repr(self, case):
        return case if case.get('kind') in ('asyncclose', 'playinside') else super(C05, self).sample_repr(case)

    def features(self, case, impl):
        if case.get('kind') == 'playinside':
            return ['replay-inside-a-recorded-operation', 'replay-inside:log=' + '+'.join(impl['log'])]
        if case.get('kind') == 'asyncclose':
            return ['async-wrapper:closed-' + ('mid-operation' if any(s[0] == 'close' for s in case['steps']) else 'after-operation'),
                    'async-wrapper:stored=%d' % len(impl['stored'])]
        return super(C05, self).features(case, impl)

    def shrink(self, case):
        return [] if case.get('kind') in ('asyncclose', 'playinside') else super(C05, self).shrink(case)

    def oracle(self, case, impl):
        if case.get('kind') == 'playinside':
            fails = []
            if impl['log'] not in (['create', 'save'], ['create', 'abort']):
                fails.append('an operation that replays a recording while it is recorded (steps %r): its recording was not finalised '
                             'exactly once, the cassette saw %r' % (case['steps'], impl['log']))
            if impl['idle'] != [False, False]:
                fails.append('an operation that replays a recording while it is recorded: the recorder is not idle afterwards %r' % (impl['idle'],))
            return fails
        if case.get('kind') == 'asyncclose':
            fails = []
            if len(impl['stored']) > 1:
                fails.append('async wrapper: one operation left %d stored recordings' % len(impl['stored']))
            for st in impl['stored']:
                if st['incomplete'] is not True and st['replay'] == ['raised', 'RecordingKeyError']:
                    fails.append('async wrapper closed at %r: a recording holding %r was stored, not flagged incomplete (%r), and its '
                                 'replay on unchanged code raised a missing-key error'
                                 % ([i for i, s in enumerate(case['steps']) if s[0] == 'close'], st['keys'], st['incomplete']))
            return fails
        fails = []
        created = 0
        for i, (run, r) in enumerate(zip(case['runs'], impl)):
            if run['run'] == 'op':
                if records(case, run):
                    want_a, want_b = [['create', created], ['save', created]], [['create', created], ['abort', created]]
                    if r['log'] != want_a and r['log'] != want_b:
                        fails.append('run %d: recording #%d not finalised exactly once: cassette saw %r' % (i, created, r['log']))
                    created += 1
                    # "saved only if every interception that occurred was captured": a wrapped body that ran during the
                    # operation ran inside a top-level interception of this recording (a nested one is its parent's business)
                    saved = r.get('saved')
                    if saved and 'meta' in saved and saved['meta']['incomplete'] is False and r.get('journal'):
                        held = len(saved['data']['inputs']) + sum(
                            1 for k, _ in saved['data']['named']
                            if k.startswith('output: ') and not k.startswith('output: _tape_recorder_operation'))
                        if held == 0:
                            fails.append('run %d: recording #%d was saved, not flagged incomplete, and holds none of the interceptions '
                                         'that occurred during the operation (wrapped bodies ran: %r)'
                                         % (i, created - 1, [j[0] for j in r['journal']][:6]))
                elif r['log']:
                    fails.append('run %d: no recording scope expected, cassette saw %r' % (i, r['log']))
            else:
                prev, prev_r = case['runs'][i - 1], impl[i - 1]
                saved = prev_r.get('saved')
                if prev['run'] == 'op' and saved and 'meta' in saved and saved['meta']['incomplete'] is False \
                        and prev['script'] == run['script'] and r['result'] == ['raised', 'RecordingKeyError']:
                    fails.append('run %d: saved, complete recording #%d replayed on unchanged code raised a missing-key error'
                                 % (i, run['rec']))
                if prev['run'] == 'op' and saved and 'meta' in saved and saved['meta']['incomplete'] is False \
                        and prev['script'] == run['script'] and r['result'] == ['raised', 'InputInterceptionKeyCreationError']:
                    fails.append('run %d: complete recording #%d was saved although the key of one of its inputs cannot be built (a capture '
                                 'failed during the operation): the same program replayed on unchanged code fails to build it' % (i, run['rec']))
        return fails

    def nontrivial(self, case, impl):
        if case.get('kind') in ('asyncclose', 'playinside'):
            return True
        return any(r.get('log') for r in impl)


PROP = C05
