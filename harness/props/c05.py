"""C05 - A recording is persisted whole or not at all, and finalised exactly once (DESIGN.md section 6, C05)."""
from harness.props.recorder_common import RecorderProp, op_runs, records, ALL_OPTS
from harness import recorder_gen as rg


class C05(RecorderProp):
    ID = 'C05'
    RULE = ('random histories with capture faults, explicit discards, sampling outcomes, ordinary exceptions and interrupts at '
            'every step incl. inside intercepted bodies; every operation is followed by a replay of the recording it created '
            'with the same program; spy cassette log create/save/abort; non-trivial = a run that opened a recording scope')
    OPTS = dict(ALL_OPTS, play_ratio=0.0, missing_play=False, cassettes=['memory', 'memory', 'file', 's3'], runs=(1, 3),
                data=False)   # play_data answers differently while recording and replaying: not 'the same deterministic code'
    N = {'quick': 2500, 'thorough': 25000}

    def gen_one(self, rng, tier):
        case = rg.gen_history(rng, self.OPTS)
        runs, created = [], 0
        for run in case['runs']:
            runs.append(run)
            if rg.created_by(run, case['classes']):
                # replay what was (perhaps) just saved, with the same program, on the same code
                runs.append({'run': 'play', 'cls': run['cls'], 'rec': created, 'enabled': run['enabled'],
                             'script': run['script'], 'clock': [100, 101, 102]})
                created += 1
        case['runs'] = runs
        return case

    def oracle(self, case, impl):
        fails = []
        created = 0
        for i, (run, r) in enumerate(zip(case['runs'], impl)):
            if run['run'] == 'op':
                if records(case, run):
                    want_a, want_b = [['create', created], ['save', created]], [['create', created], ['abort', created]]
                    if r['log'] != want_a and r['log'] != want_b:
                        fails.append('run %d: recording #%d not finalised exactly once: cassette saw %r' % (i, created, r['log']))
                    created += 1
                elif r['log']:
                    fails.append('run %d: no recording scope expected, cassette saw %r' % (i, r['log']))
            else:
                prev, prev_r = case['runs'][i - 1], impl[i - 1]
                saved = prev_r.get('saved')
                if prev['run'] == 'op' and saved and 'meta' in saved and saved['meta']['incomplete'] is False \
                        and prev['script'] == run['script'] and r['result'] == ['raised', 'RecordingKeyError']:
                    fails.append('run %d: saved, complete recording #%d replayed on unchanged code raised a missing-key error'
                                 % (i, run['rec']))
        return fails

    def nontrivial(self, case, impl):
        return any(r.get('log') for r in impl)


PROP = C05
