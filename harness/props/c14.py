"""C14 - Metadata filter matching is total and means what is documented (DESIGN.md section 6, C14)."""
import fnmatch
import itertools

from harness.engine import Prop
from harness.wire import to_wire, to_py, to_py_shared

# look-alikes of different types ("1" / 1 / True, "None" / None, "2.5" / 2.5, "a|b") keep apart answers that a text-keyed
# memo or a str()-based comparison would merge
ATOMS = [None, True, False, 0, 1, 2, 1.5, 2.5, 'a', 'ab', 'a*', '?b', '[a', '[ab]*', '[!a]b', '[ab]', 'a[bc]', {'x': 1}, (1, 2), dict,
         '1', '2.5', 'None', 'True', 'a|b']
OPS = ['=', '<', '<=', '>', '>=', '??', 5, ['<', '='], {'name': '<'}]        # (an operator field may hold anything)
OP_VALUES = [None, False, 1, 2.5, 'ab', [1], [1, 'a'], (1, 2), {'x': 1}]
MD_VALUES = ['<absent>', None, False, True, 1, 2, 2.5, 'a', 'ab', 'b', 'bb', 'ac', [1], [1, 'a'], [2], {'x': 1}, (1, 2), (1, 3), dict, str,
             '1', '2.5', 'None', 'True', 'b|a', "{'x': 1}", '(1, 2)', '[1]']


def simple_pattern(p):
    """True when every bracket expression of `p`, as fnmatch delimits it, is of the plain form the driver's glob models:
    optional '!', then letters/digits or ranges lo-hi with lo <= hi (no ']' first, no '[', '\\', '^', set operators,
    no reversed ranges - CPython rewrites those in ways the model does not transcribe)."""
    i, n = 0, len(p)
    while i < n:
        c = p[i]
        i += 1
        if c != '[':
            continue
        j = i
        if j < n and p[j] == '!':
            j += 1
        if j < n and p[j] == ']':
            j += 1
        while j < n and p[j] != ']':
            j += 1
        if j >= n:
            continue
        body = p[i:j]
        if body.startswith('!'):
            body = body[1:]
        k = 0
        if not body:
            return False
        while k < len(body):
            if not (body[k].isalnum()):
                return False
            if k + 2 < len(body) and body[k + 1] == '-':
                if not body[k + 2].isalnum() or body[k] > body[k + 2]:
                    return False
                k += 3
            else:
                k += 1
        i = j + 1
    return True


def json_native(v):
    if v is None or isinstance(v, (bool, int, float, str)):
        return True
    if isinstance(v, list):
        return all(json_native(x) for x in v)
    if isinstance(v, dict):
        return all(isinstance(k, str) and json_native(x) for k, x in v.items())
    return False


def spec_value(f, r):
    """Independent statement of the documented meaning (oracle).  `r` is None when the key is absent."""
    if isinstance(f, list):
        return any(spec_value(a, r) for a in f)
    if isinstance(f, dict) and 'operator' in f and 'value' in f:
        op, v = f['operator'], f['value']
        try:
            if op == '=':
                return bool(r == v)
            if op == '<':
                return bool(r < v)
            if op == '<=':
                return bool(r <= v)
            if op == '>':
                return bool(r > v)
            if op == '>=':
                return bool(r >= v)
        except TypeError:
            return False
        return False
    if r is None:
        return f is None
    if f is None:
        return False
    if isinstance(f, str):
        return isinstance(r, str) and fnmatch.fnmatchcase(r, f)
    return bool(r == f)


def spec_meta(f, md):
    return all(spec_value(v, md.get(k)) for k, v in f.items())


class C14(Prop):
    ID = 'C14'
    CORRESPONDENCE = 'PlaybackModel.MetaFilter.matchMeta vs TapeCassette.match_against_recorded_metadata'
    RULE = ('filters (atoms incl. bracket-only patterns, <=2 alternatives, operator objects whose operator field is a known / unknown string, a number, a list, a dict) x metadata values enumerated exhaustively over a small '
            'universe, then random nested filters/metadata of several keys, plus listings through the in-memory cassette; '
            'a case is non-trivial when its filter is non-empty; distinct = distinct canonical case')
    TRUSTED = ['correspondence harness harness/props/c14.py + Lean driver (Drive/C14.lean)',
               "Python's fnmatch is a parameter of the theorems; the driver's concrete glob (*, ?, [seq], [!seq]) is "
               'validated by differential execution only',
               'Python == and < on builtin values as transcribed in pyEq / pyCmp']
    ASSUMPTIONS = ['metadata values and filters range over None, bools, ints, finite floats, strings, lists, tuples, '
                   'string-keyed dicts and classes; NaN excluded']
    PARALLEL = 8

    # ------------------------------------------------------------------------------------------------------
    def generate(self, rng, tier):
        cases = []
        filters = list(ATOMS)
        filters += [[a, b] for a, b in itertools.product([None, 1, 'a*', False, {'operator': '<', 'value': 2}, [2]], repeat=2)]
        filters += [{'operator': o, 'value': v} for o in OPS for v in OP_VALUES]
        filters += [{'operator': '='}, {'value': 1}, {'operator': '<', 'value': 1, 'extra': 2}, [], [[None]], [[1], 'a']]
        for f in filters:
            for r in MD_VALUES:
                md = {} if r == '<absent>' else {'k': r}
                cases.append(self.mk({'k': f}, md))
        n = 2000 if tier == 'quick' else 50000
        for _ in range(n):
            nk = rng.choice([0, 1, 1, 2, 3])
            keys = rng.sample(['a', 'b', 'c', 'dd'], nk)
            f = {k: self.rand_filter(rng, 2) for k in keys}
            md = {k: self.rand_value(rng, 2) for k in rng.sample(['a', 'b', 'c', 'dd', 'e'], rng.randint(0, 4))}
            cases.append(self.mk(f, md))
        for _ in range(60 if tier == 'quick' else 1500):
            recs = [{k: self.rand_value(rng, 1) for k in rng.sample(['a', 'b', 'c'], rng.randint(0, 3))}
                    for _ in range(rng.randint(1, 5))]
            f = {k: self.rand_filter(rng, 1) for k in rng.sample(['a', 'b', 'c'], rng.randint(1, 2))}
            case = {'kind': 'listing', 'f': to_wire(f)['d'], 'recs': [to_wire(r)['d'] for r in recs]}
            # the same listing through the file cassette, and through S3 when everything is JSON-native (known finding K3
            # otherwise: S3 filters the JSON text of the metadata)
            if json_native(f) and all(json_native(r) for r in recs):
                case['cassette'] = rng.choice(['memory', 'file', 's3', 's3'])
            else:
                case['cassette'] = rng.choice(['memory', 'file'])
            cases.append(case)
        # one alternatives list / operator object used under two keys of the filter
        for shared in ([False, None], [1, 'x*', None], {'operator': '>=', 'value': 1}):
            for kind in ('memory', 'file', 's3'):
                f = {'a': shared, 'b': shared}
                cases.append({'kind': 'listing', 'cassette': kind, 'f': to_wire(f)['d'],
                              'recs': [to_wire(r)['d'] for r in ({}, {'a': 1, 'b': 2}, {'a': None}, {'a': 'xy', 'b': False}, {'b': 1})]})
        # a missing value matches only a None alternative - through every cassette's listing, keys that JSON escapes included
        for key in ['a', 'é', 'q"uote']:
            for f in ({key: None}, {key: [1, None]}, {key: {'operator': '=', 'value': None}}, {key: [2]}, {key: 'x*'}):
                for kind in ('memory', 'file', 's3'):
                    cases.append({'kind': 'listing', 'cassette': kind, 'f': to_wire(f)['d'],
                                  'recs': [to_wire(r)['d'] for r in ({}, {key: 1}, {key: None}, {'other': 2}, {key: 'xy'})]})
        return cases

    @staticmethod
    def mk(f, md):
        return {'kind': 'match', 'f': to_wire(f)['d'], 'md': to_wire(md)['d']}

    def rand_value(self, rng, depth):
        c = rng.random()
        if c < 0.12:
            return None
        if c < 0.2:
            return rng.choice([True, False])
        if c < 0.4:
            return rng.choice([0, 1, 2, -1, 3, 10 ** 20])
        if c < 0.5:
            return rng.choice([0.5, 1.0, 1.5, -2.25, 1e300])
        if c < 0.72:
            return rng.choice(['', 'a', 'ab', 'abc', 'b', 'B', 'a*', '[', 'a]b', '-', 'é', 'x\ny', '0', '1', '2', '-1', '0.5',
                               'None', 'True', 'False'])
        if c < 0.76:
            return rng.choice([dict, str, ValueError])
        if depth <= 0:
            return rng.choice([[], {}, ()])
        if c < 0.86:
            return [self.rand_value(rng, depth - 1) for _ in range(rng.randint(0, 3))]
        if c < 0.93:
            return tuple(self.rand_value(rng, depth - 1) for _ in range(rng.randint(0, 3)))
        return {k: self.rand_value(rng, depth - 1) for k in rng.sample(['x', 'y', 'operator', 'value'], rng.randint(0, 3))}

    def rand_pattern(self, rng):
        parts = []
        for _ in range(rng.randint(0, 4)):
            c = rng.random()
            if c < 0.3:
                parts.append(rng.choice(['a', 'b', 'ab', 'B', 'c', 'é', '-', ']']))
            elif c < 0.5:
                parts.append('*')
            elif c < 0.65:
                parts.append('?')
            elif c < 0.9:
                body = ''.join(rng.choice(['a', 'b', 'c', 'a-c', 'b-b', 'A-Z', 'é', '0-9']) for _ in range(rng.randint(1, 3)))
                parts.append('[' + rng.choice(['', '!']) + body + ']')
            else:
                parts.append('[')   # unclosed bracket (literal) unless a later ']' closes it
        p = ''.join(parts)
        return p if simple_pattern(p) else self.rand_pattern(rng)

    def rand_filter(self, rng, depth):
        c = rng.random()
        if c < 0.25:
            return self.rand_pattern(rng)
        if c < 0.5:
            return {'operator': rng.choice(OPS + ['=', '<', '>=']), 'value': self.rand_value(rng, 1)}
        if c < 0.7 and depth > 0:
            return [self.rand_filter(rng, depth - 1) for _ in range(rng.randint(0, 3))]
        return self.rand_value(rng, 1)

    # ------------------------------------------------------------------------------------------------------
    def run_impl(self, case):
        from playback.tape_cassette import TapeCassette
        # (equal lists / dicts inside the filter are ONE object, as when a caller reuses `not_set = [False, None]`)
        f = to_py_shared({'d': case['f']})
        if case['kind'] == 'match':
            md = to_py({'d': case['md']})
            try:
                r = TapeCassette.match_against_recorded_metadata(f, md)
            except Exception as ex:  # the property says this never happens
                return type(ex).__name__
            return r if isinstance(r, bool) else 'non-bool:%s' % type(r).__name__
        kind = case.get('cassette', 'memory')
        tmp = None
        if kind == 'file':
            import tempfile
            from playback.tape_cassettes.file_based.file_based_tape_cassette import FileBasedTapeCassette
            tmp = tempfile.mkdtemp(prefix='verif-c14-')
            cassette = FileBasedTapeCassette(tmp)
        elif kind == 's3':
            from harness import fake_s3
            fake_s3.reset()
            fake_s3.install()
            from playback.tape_cassettes.s3.s3_tape_cassette import S3TapeCassette
            cassette = S3TapeCassette('b14', key_prefix='', read_only=False)
        else:
            from playback.tape_cassettes.in_memory.in_memory_tape_cassette import InMemoryTapeCassette
            cassette = InMemoryTapeCassette()
        ids = []
        for rec in case['recs']:
            r = cassette.create_new_recording('Op')
            r.add_metadata(to_py({'d': rec}))
            cassette.save_recording(r)
            ids.append(r.id)
        try:
            got = list(cassette.iter_recording_ids('Op', metadata=f))
        except Exception as ex:
            return type(ex).__name__
        finally:
            if tmp:
                import shutil
                shutil.rmtree(tmp, ignore_errors=True)
        return sorted(ids.index(g) for g in got)

    def model_requests(self, case):
        if case['kind'] == 'match':
            return [{'m': 'c14.match', 'f': case['f'], 'md': case['md']}]
        return [{'m': 'c14.match', 'f': case['f'], 'md': rec} for rec in case['recs']]

    def model_transcript(self, case, answers):
        if case['kind'] == 'match':
            return answers[0]
        if not case['f']:
            return list(range(len(case['recs'])))   # `if metadata:` - an empty filter is not applied at all
        for a in answers:
            if a not in (True, False):
                return a
        return [i for i, a in enumerate(answers) if a]

    def oracle(self, case, impl):
        f = to_py({'d': case['f']})
        if case['kind'] == 'match':
            want = spec_meta(f, to_py({'d': case['md']}))
        else:
            want = [i for i, rec in enumerate(case['recs']) if spec_meta(f, to_py({'d': rec}))]
        if isinstance(impl, str):
            return ['matching raised %s (documented answer: %r)' % (impl, want)]
        if impl != want:
            return ['matcher answered %r, documented meaning gives %r' % (impl, want)]
        return []

    def nontrivial(self, case, impl):
        return len(case['f']) > 0

    def features(self, case, impl):
        out = ['kind:' + case['kind'], 'result:%s' % (impl if not isinstance(impl, list) else 'list')]
        for k, v in case['f']:
            if isinstance(v, dict) and 'l' in v:
                out.append('filter:list')
            elif isinstance(v, dict) and 'd' in v and {'operator', 'value'} <= {kk for kk, _ in v['d']}:
                out.append('filter:operator')
            elif isinstance(v, dict) and 's' in v:
                out.append('filter:pattern')
            elif v is None:
                out.append('filter:none')
            else:
                out.append('filter:atom')
        return out

    def shrink(self, case):
        if case['kind'] == 'listing':
            for i in range(len(case['recs'])):
                yield dict(case, recs=case['recs'][:i] + case['recs'][i + 1:])
            for rec in case['recs']:
                yield {'kind': 'match', 'f': case['f'], 'md': rec}
            return
        for i in range(len(case['f'])):
            yield dict(case, f=case['f'][:i] + case['f'][i + 1:])
        for i in range(len(case['md'])):
            yield dict(case, md=case['md'][:i] + case['md'][i + 1:])
        for i, (k, v) in enumerate(case['f']):
            if isinstance(v, dict) and 'l' in v:
                for j in range(len(v['l'])):
                    yield dict(case, f=case['f'][:i] + [[k, {'l': v['l'][:j] + v['l'][j + 1:]}]] + case['f'][i + 1:])
                for alt in v['l']:
                    yield dict(case, f=case['f'][:i] + [[k, alt]] + case['f'][i + 1:])

    def targeted(self, case, rng):
        return [self.mk({'k': self.rand_filter(rng, 2)}, {'k': self.rand_value(rng, 2)}) for _ in range(3000)]


PROP = C14
