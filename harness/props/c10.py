"""C10 - Lookup returns exactly the matching recordings, identically on all cassettes (DESIGN.md section 6, C10).

One case = one set of saved recordings (saved, in the same order, on an in-memory, a file based and an S3 cassette - the
S3 one on the in-memory bucket of harness/fake_s3.py) plus a handful of lookups.  Every lookup is run on the three REAL
cassettes, either through `iter_recording_ids` or through `find_matching_recording_ids`, and through the Lean model
(driver request `c10.list`, one per lookup and cassette).  Ids are made deterministic (uuid / date / shuffle / choice are
rebound in the cassette modules) and are reported as indices into the list of saved recordings.
"""
import datetime as _dt
import re
import shutil
import tempfile

from harness.engine import Prop
from harness.wire import to_wire, to_py, to_py_shared
from harness.props.c14 import C14, spec_meta, simple_pattern

INC = '_tape_recorder_incomplete_recording'
K3 = 's3-filter-non-json-native-metadata'
CATS = ['Op', 'OpB', 'Op_x', 'O', 'Q', 'Op.v2', 'svc.ops.Invoice', 'Batch[Order]', 'svc:op', 'q*x?']
PREFIXES = ['', 'p', 'xmetadata', 'a/b']
MD_KEYS = ['a', 'b', 'c', 'dd']
STORES = ('mem', 'file', 's3')
DAY = '20210301'
UID_CHARS = '0123456789abcdefghijklmnopqrstuvwxyz'
FOREIGN = ['foreign/x',
           'tape_recorder_recordingsX/metadata/Op/20210301/zz',
           'tape_recorder_recordingsX/full/Op/20210301/zz',
           'tape_recorder_recordings/metadataX/Op/20210301/zz',
           'tape_recorder_recordings/metadata/Op/20210301/zz',
           'tape_recorder_recordings/full/Op/20210301/zz',
           'tape_recorder_recordings/p/metadata/Op/20210301/zz',
           'tape_recorder_recordings/pp/metadata/Op/20210301/zz',
           'tape_recorder_recordings/a/metadata/Op/20210301/zz',
           'tape_recorder_recordings/a/b/metadata/OpB/20210301/zz',
           'tape_recorder_recordings/a/bmetadata/Op/20210301/zz',
           'tape_recorder_recordings/xmetadata/metadata/O/20210301/zz',
           'tape_recorder_recordings/xmetadata/full/O/20210301/zz',
           'tape_recorder_recordings/metadata/Op',
           'metadata/Op/20210301/zz',
           'Op/20210301/zz']

# ----------------------------------------------------------------------------------------------------------------
# determinism: what the rebound module attributes read (one listing at a time, one process per worker)
# ----------------------------------------------------------------------------------------------------------------
_STATE = {'uid': 'u', 'rot': 0, 'draws': [], 'step': 0}


class _Hex(object):
    def __init__(self, h):
        self.hex = h


class _Uuid(object):
    @staticmethod
    def uuid1(*a, **k):
        return _Hex(_STATE['uid'])


class _FixedDatetime(_dt.datetime):
    @classmethod
    def today(cls):
        return cls(2021, 3, 1, 12, 0)

    @classmethod
    def utcnow(cls):
        return cls(2021, 3, 1, 12, 0)

    @classmethod
    def now(cls, tz=None):
        return cls(2021, 3, 1, 12, 0)


def _rotate(x):
    """stand-in for random.shuffle: in-place rotate-left by rot % len (Drive/S3.lean `rotate`)"""
    if len(x):
        k = _STATE['rot'] % len(x)
        x[:] = x[k:] + x[:k]


class _Choice(object):
    """stand-in for the `random` module of s3_tape_cassette (Drive/S3.lean `chOf`)"""
    @staticmethod
    def choice(seq):
        draws, step = _STATE['draws'], _STATE['step']
        _STATE['step'] = step + 1
        d = draws[step % len(draws)] if draws else 0
        return seq[d % len(seq)]


def _patch():
    """idempotent; (re)binds the sources of nondeterminism in the modules under test and installs the fake S3"""
    from harness import fake_s3
    fake_s3.install()
    from playback.tape_cassettes.in_memory import in_memory_tape_cassette as m
    from playback.tape_cassettes.file_based import file_based_tape_cassette as f
    from playback.tape_cassettes.s3 import s3_tape_cassette as s
    from playback.tape_cassettes.s3 import s3_basic_facade as b
    m.uuid = f.uuid = s.uuid = _Uuid
    s.datetime = _FixedDatetime
    m.shuffle = _rotate
    b.shuffle = _rotate
    s.random = _Choice
    return fake_s3


# ----------------------------------------------------------------------------------------------------------------
# helpers on the wire form
# ----------------------------------------------------------------------------------------------------------------
def non_native(w):
    """the wire value contains a tuple or a class"""
    if isinstance(w, dict):
        if 't' in w or 'c' in w:
            return True
        if 'l' in w:
            return any(non_native(x) for x in w['l'])
        if 'd' in w:
            return any(non_native(v) for _, v in w['d'])
    return False


def native_py(v):
    if isinstance(v, (tuple, type)):
        return False
    if isinstance(v, list):
        return all(native_py(x) for x in v)
    if isinstance(v, dict):
        return all(native_py(x) for x in v.values())
    return True


def fdict(f):
    """filter of a query as a FRESH Python dict (None when the query has none)"""
    return None if f is None else to_py_shared({'d': f})


def effective_filter(q):
    """the filter the lookup is documented to apply: the given one, plus 'not incomplete' for skip_incomplete"""
    f = dict(fdict(q['f']) or {})
    if q['skip'] is True:
        f[INC] = [False, None]
    return f


def store_id(store, cat, uid):
    return '%s/%s/%s' % (cat, DAY, uid) if store == 's3' else '%s/%s' % (cat, uid)


def index_map(case, store):
    return {store_id(store, r['cat'], r['uid']): i for i, r in enumerate(case['recs'])}


def meta_root(p):
    return 'tape_recorder_recordings/' + (p + '/' if p else '') + 'metadata/'


def full_root(p):
    return 'tape_recorder_recordings/' + (p + '/' if p else '') + 'full/'


def foreign_ok(p, key):
    return not key.startswith(meta_root(p)) and not key.startswith(full_root(p))


def sort_mixed(l):
    return sorted(l, key=lambda x: (isinstance(x, str), x))


def expected(recs, q):
    f = effective_filter(q)
    return [i for i, r in enumerate(recs) if r['cat'] == q['cat'] and spec_meta(f, to_py({'d': r['md']}))]


def recs_after_resaves(case):
    """the saved recordings after the optional second phase: `resaves` = [[index, new metadata], ...] saves those
    recordings AGAIN under their ids (same cassette objects, after the first round of lookups); the latest save wins"""
    recs = [dict(r) for r in case['recs']]
    for pos, md in case.get('resaves') or []:
        recs[pos] = dict(recs[pos], md=md)
    return recs


def all_queries(case):
    """[(query, the recordings saved at that point)]: `queries` before, `queries2` after the re-saves"""
    out = [(q, case['recs']) for q in case['queries']]
    if case.get('resaves') or case.get('queries2'):
        r2 = recs_after_resaves(case)
        out += [(q, r2) for q in case.get('queries2') or []]
    return out


def lim_label(lim, n):
    if lim is None:
        return 'none'
    if lim in (0, 1, 2):
        return str(lim)
    if lim == n:
        return 'n'
    if lim == n + 3:
        return 'n+3'
    return 'other'


def mkq(cat, f=None, lim=None, random=False, ch=(), rot=0, skip=None):
    return {'cat': cat, 'f': None if f is None else to_wire(f)['d'], 'lim': lim, 'random': bool(random),
            'ch': list(ch), 'rot': rot, 'skip': skip}


def mkrec(cat, uid, md):
    return {'cat': cat, 'uid': uid, 'md': to_wire(md)['d']}


class C10(Prop):
    ID = 'C10'
    CORRESPONDENCE = ('PlaybackModel.Lookup.list / findMatching (listMem, listFile, listS3 = S3.iterRecordingIds) vs '
                      'InMemoryTapeCassette / FileBasedTapeCassette / S3TapeCassette.iter_recording_ids and '
                      'playback.studio.recordings_lookup.find_matching_recording_ids (driver request c10.list, one per '
                      'lookup and cassette; mem and s3 compared as exact ordered id lists, file as a set (no limit) or a '
                      'size (limit) because os.listdir order is arbitrary; S3 facade listing of the one category prefix '
                      'compared with the model\'s S3 answer)')
    RULE = ('stores of 0-12 recordings over the categories Op, OpB, Op_x, O, Q, Op.v2, svc.ops.Invoice, Batch[Order], svc:op, q*x? (prefixes of one another, underscores, dots, glob and path metacharacters) saved '
            'in the same order on an in-memory, a file based and an S3 cassette (fake bucket, key prefixes \'\', p, '
            'xmetadata, a/b, foreign objects next to the cassette\'s own); metadata over a small key set with absent keys, '
            'heterogeneous values and the incomplete-recording key absent/False/True/None/0/\'x\'; ~6 lookups per store: '
            'category x filter (none, C14\'s filter generator, filters derived from stored values) x limit in '
            '{None,0,1,2,n,n+3} x ordered/random x direct iter_recording_ids or find_matching_recording_ids with '
            'skip_incomplete true/false; a quarter of the stores get a second phase (1-3 recordings saved AGAIN under their id with '
            'changed metadata through the same cassette objects, then the same lookups repeated + new ones: the latest save '
            'wins); systematic block: every prefix, empty stores, single-category stores queried '
            'with prefix-related categories, limit 0, every incomplete-key mode with skip true; ~10% of the stores carry '
            'tuple/class metadata (K3); a case is non-trivial when some lookup has a non-empty expected set; distinct = '
            'distinct canonical case')
    TRUSTED = ['in-memory S3 bucket harness/fake_s3.py (strong read-after-write, lexicographic listing) under the real '
               'S3BasicFacade / S3TapeCassette',
               'the local filesystem (tempfile.mkdtemp, os.listdir order taken as arbitrary)',
               'jsonpickle round trip of metadata (encode/decode give back an equal dict; json.loads of the encoded text '
               'is the JSON view the model transcribes as jsonView)',
               "Python's fnmatch is a parameter of the theorems; the driver's concrete glob is validated by differential "
               'execution only',
               'correspondence harness harness/props/c10.py (rebinds uuid, datetime, shuffle, random.choice in the '
               'cassette modules to deterministic stand-ins equal to the driver\'s chOf / rotate) + Lean driver '
               '(Drive/Lookup.lean)']
    ASSUMPTIONS = ["categories contain no '/'; uuids contain no '/' or '_' (uuid1().hex is [0-9a-f]*)",
                   'metadata values and filters range over the faithful domain: None, bools, ints, finite floats, strings, '
                   'lists, string-keyed dicts (and, as known finding K3, tuples and classes); NaN excluded',
                   'no time window (start_date None); windows are C16',
                   'foreign bucket objects lie outside this cassette\'s metadata/ and full/ key prefixes']
    PARALLEL = 14

    def __init__(self):
        self._c14 = C14()

    # ------------------------------------------------------------------------------------------------------
    # generator
    # ------------------------------------------------------------------------------------------------------
    def rand_uid(self, rng, used):
        while True:
            u = ''.join(rng.choice(UID_CHARS) for _ in range(rng.randint(2, 5)))
            if u not in used:
                used.add(u)
                return u

    def rand_md_value(self, rng, native):
        while True:
            c = rng.random()
            if c < 0.55:   # small universe, so that filters derived from C14's generator hit now and then
                v = rng.choice([None, True, False, 0, 1, 2, 1.5, 'a', 'ab', 'b', '', [1], [1, 'a'], {'x': 1}])
            elif not native and c < 0.75:
                v = rng.choice([(1, 2), (1, 3), (), dict, str, ValueError, [(1, 2)], {'x': (1,)}, [dict], ('a', [1])])
            else:
                v = self._c14.rand_value(rng, 2)
            if not native or native_py(v):
                return v

    def rand_inc(self, rng, mode):
        if mode == 'mixed':
            mode = rng.choice(['absent', 'absent', False, False, True, True, None, 0, 'x'])
        return mode

    def rand_store(self, rng, p, n=None, cats=None, inc_mode=None, native=None):
        if native is None:
            native = rng.random() >= 0.10
        if n is None:
            n = rng.choice([0, 1, 2, 3, 3, 4, 5, 6, 7, 8, 10, 12])
        if cats is None:
            c = rng.random()
            cats = CATS if c < 0.5 else rng.sample(CATS, 2) if c < 0.8 else [rng.choice(CATS)]
        if inc_mode is None:
            inc_mode = rng.choice(['mixed', 'mixed', 'mixed', 'absent', False, True, None, 0])
        used, recs = set(), []
        for _ in range(n):
            md = {}
            for k in rng.sample(MD_KEYS, rng.choice([0, 1, 2, 2, 3, 4])):
                md[k] = self.rand_md_value(rng, native)
            inc = self.rand_inc(rng, inc_mode)
            if inc != 'absent':
                md[INC] = inc
            if rng.random() < 0.3:   # key order in the stored dict is immaterial; vary it
                md = dict(sorted(md.items(), key=lambda kv: rng.random()))
            recs.append(mkrec(rng.choice(cats), self.rand_uid(rng, used), md))
        cands = [k for k in FOREIGN if foreign_ok(p, k)]
        foreign = rng.sample(cands, rng.choice([0, 1, 2, 4, len(cands)]))
        return {'p': p, 'foreign': foreign, 'recs': recs, 'queries': []}

    def stored_values(self, case, key):
        out = []
        for r in case['recs']:
            for k, w in r['md']:
                if k == key:
                    out.append(to_py(w))
        return out

    def rand_filter_value(self, rng, case, key):
        vals = self.stored_values(case, key)
        c = rng.random()
        if vals and c < 0.45:
            v = rng.choice(vals)
            if isinstance(v, str) and not simple_pattern(v):
                v = 'a*'
            d = rng.random()
            if d < 0.5:
                return v
            if d < 0.7:
                alts = [v, self._c14.rand_filter(rng, 0)]
                rng.shuffle(alts)
                return alts
            if d < 0.9:
                return {'operator': rng.choice(['=', '<=', '>=', '<', '>']), 'value': v}
            if isinstance(v, str) and v:
                return rng.choice([v[0] + '*', '?' + v[1:], '*', '[' + v[0] + 'z]*'])
            return [None, v]
        if c < 0.55:
            return rng.choice([None, [None], [False, None], '*', [], {'operator': '>=', 'value': 0}])
        return self._c14.rand_filter(rng, 2)

    def derive(self, rng, v):
        """a filter value aimed at the stored value `v`"""
        if isinstance(v, str) and not simple_pattern(v):
            return rng.choice(['*', v[:1] + '*' if simple_pattern(v[:1] + '*') else '?*'])
        d = rng.random()
        if d < 0.4:
            return v if not isinstance(v, list) else {'operator': '=', 'value': v}
        if d < 0.6:
            alts = [v, self._c14.rand_filter(rng, 0)]
            rng.shuffle(alts)
            return alts
        if d < 0.85:
            return {'operator': rng.choice(['=', '<=', '>=', '<', '>']), 'value': v}
        if isinstance(v, str) and v:
            return rng.choice([v[0] + '*', '?' + v[1:], '*', '[' + v[0] + 'z]*'])
        return [None, v]

    def rand_filter(self, rng, case, cat):
        c = rng.random()
        if c < 0.22:
            return None
        if c < 0.27:
            return {}
        mine = [r for r in case['recs'] if r['cat'] == cat]
        if mine and c < 0.65:   # aimed at one stored recording of the queried category
            md = to_py({'d': rng.choice(mine)['md']})
            keys = [k for k in md if k != INC or rng.random() < 0.3]
            f = {}
            for k in rng.sample(keys, min(len(keys), rng.choice([1, 1, 2]))):
                f[k] = self.derive(rng, md[k])
            if not f or rng.random() < 0.15:
                absent = [k for k in MD_KEYS + ['zz'] if k not in md]
                if absent:
                    f[rng.choice(absent)] = rng.choice([None, [None, 1], [None]])
            return {k: self.sanitize(v) for k, v in f.items()}
        keys = []
        for _ in range(rng.choice([1, 1, 1, 2, 2, 3])):
            d = rng.random()
            k = rng.choice(MD_KEYS) if d < 0.82 else 'zz' if d < 0.9 else INC
            if k not in keys:
                keys.append(k)
        return {k: self.sanitize(self.rand_filter_value(rng, case, k)) for k in keys}

    def sanitize(self, f):
        """string filters are patterns: keep those whose bracket expressions the driver's glob models (C14)"""
        if isinstance(f, list):
            return [self.sanitize(x) for x in f]
        if isinstance(f, str) and not simple_pattern(f):
            return 'a*'
        return f

    def rand_query(self, rng, case, cat=None):
        n = len(case['recs'])
        if cat is None:
            present = sorted({r['cat'] for r in case['recs']})
            cat = rng.choice(present) if present and rng.random() < 0.7 else rng.choice(CATS)
        lim = rng.choice([None, None, None, 0, 1, 2, n, n + 3])
        return mkq(cat, self.rand_filter(rng, case, cat), lim, rng.random() < 0.3,
                   [rng.randint(0, 5) for _ in range(rng.randint(0, 3))], rng.randint(0, 6),
                   rng.choice([None, None, True, True, False]))

    def systematic(self, rng):
        cases = []
        # empty stores and limit 0, on every prefix
        for p in PREFIXES:
            c = self.rand_store(rng, p, n=0)
            c['queries'] = [mkq('Op'), mkq('Op', lim=0), mkq('Op', {'a': 1}, skip=True), mkq('O', None, 3, True, [1], 2, False)]
            cases.append(c)
            c = self.rand_store(rng, p, n=5, cats=['Op', 'OpB'], native=True)
            c['queries'] = [mkq('Op', lim=0), mkq('OpB', lim=0, random=True, rot=1), mkq('Op', {}, 0, skip=True),
                            mkq('Op', {'a': [None, 1, 'a*']}, 0, skip=False), mkq('Op'), mkq('OpB', lim=5), mkq('Op', lim=8),
                            # one alternatives list used under two keys of the filter
                            mkq('Op', {'a': [None, 1, 'a*'], 'zz': [None, 1, 'a*']}), mkq('OpB', {'zz': [False, None], 'yy': [False, None]}, skip=True)]
            cases.append(c)
        # one category stored, a prefix-related one queried
        for i, stored in enumerate(CATS):
            p = PREFIXES[i % len(PREFIXES)]
            c = self.rand_store(rng, p, n=4, cats=[stored], native=True)
            c['queries'] = [mkq(q, None, None, False, (), 0, sk) for q in CATS for sk in (None, True)]
            c['queries'] += [mkq(q, {'zz': None}, 2, True, [0, 1], 3) for q in CATS]
            cases.append(c)
        # the incomplete key in every mode x skip true / false / direct, with and without a filter naming the key itself
        for j, mode in enumerate(['absent', False, True, None, 0, 'x', 'mixed']):
            for p in PREFIXES:
                c = self.rand_store(rng, p, n=rng.choice([3, 6]), cats=['Op', 'Op_x'], inc_mode=mode, native=True)
                c['queries'] = [mkq('Op', None, None, skip=True), mkq('Op', {}, None, skip=True),
                                mkq('Op', None, None, skip=False), mkq('Op_x', None, None, True, [2], 1, True),
                                mkq('Op', {INC: True}, None, skip=True), mkq('Op', {INC: True}, None, skip=False),
                                mkq('Op', {INC: [True, 'x']}, None), mkq('Op', {INC: None, 'a': [None, 1, 'a*']}, None, skip=True),
                                mkq('Op', None, 1, skip=True), mkq('Op_x', None, 0, skip=True)]
                cases.append(c)
        # saved again under the same id with new metadata after the cassette has answered lookups: the latest save wins
        for p in PREFIXES:
            c = {'p': p, 'foreign': [k for k in FOREIGN if foreign_ok(p, k)][:3],
                 'recs': [mkrec('Op', 'k2', {INC: True, 'a': 1}), mkrec('Op', 'b7', {INC: False}),
                          mkrec('OpB', 'z1', {'a': 1}), mkrec('Op', 'c3', {'a': 2})]}
            qs = [mkq('Op', None, None, skip=True), mkq('Op', {'a': 1}), mkq('Op', {'a': [1, 2]}, 1), mkq('OpB', {'a': 1}),
                  mkq('Op', None, None, True, [1], 1, False)]
            c['queries'] = qs
            c['resaves'] = [[0, to_wire({INC: False, 'a': 2})['d']], [1, to_wire({INC: True, 'a': 1})['d']],
                            [2, to_wire({})['d']]]
            c['queries2'] = [dict(q) for q in qs] + [mkq('Op', {'a': 2}, skip=True), mkq('Op')]
            cases.append(c)
        return cases

    def add_resaves(self, rng, c):
        """second phase for a store: 1-3 of its recordings are saved again under their ids with changed metadata (incomplete
        flag flipped, a value changed, a key dropped or added), then the SAME lookups are repeated (what a stale listing
        cache would answer wrongly) plus lookups aimed at the new state"""
        n = len(c['recs'])
        if not n:
            return c
        native = not any(non_native(w) for r in c['recs'] for _, w in r['md'])
        res = []
        for pos in rng.sample(range(n), min(n, rng.choice([1, 1, 2, 3]))):
            md = dict(to_py({'d': c['recs'][pos]['md']}))
            mode = rng.random()
            if mode < 0.35:
                md[INC] = (not md[INC]) if isinstance(md.get(INC), bool) else rng.choice([True, False])
            elif mode < 0.75 and md:
                md[rng.choice(sorted(md))] = self.rand_md_value(rng, native)
            elif mode < 0.9 and md:
                del md[rng.choice(sorted(md))]
            else:
                md[rng.choice(MD_KEYS)] = self.rand_md_value(rng, native)
            res.append([pos, to_wire(md)['d']])
        c['resaves'] = res
        c2 = dict(c, recs=recs_after_resaves(c))
        c['queries2'] = [dict(q) for q in c['queries']] + [self.rand_query(rng, c2) for _ in range(3)]
        return c

    def generate(self, rng, tier):
        cases = self.systematic(rng)
        n = 300 if tier == 'quick' else 5000
        for i in range(n):
            c = self.rand_store(rng, PREFIXES[i % len(PREFIXES)])
            c['queries'] = [self.rand_query(rng, c) for _ in range(6)]
            if rng.random() < 0.25:
                self.add_resaves(rng, c)
            cases.append(c)
        return cases

    # ------------------------------------------------------------------------------------------------------
    # the real code
    # ------------------------------------------------------------------------------------------------------
    def run_impl(self, case):
        fake_s3 = _patch()
        from playback.tape_cassettes.in_memory.in_memory_tape_cassette import InMemoryTapeCassette
        from playback.tape_cassettes.file_based.file_based_tape_cassette import FileBasedTapeCassette
        from playback.tape_cassettes.s3.s3_tape_cassette import S3TapeCassette
        from playback.tape_recorder import TapeRecorder
        from playback.studio.recordings_lookup import find_matching_recording_ids, RecordingLookupProperties
        fake_s3.reset()
        st = fake_s3.store('b')
        for key in case['foreign']:
            st.objects[key] = (b'{}', st.now(), 'STANDARD')
        directory = tempfile.mkdtemp(prefix='verif-c10-')
        try:
            cassettes = {'mem': InMemoryTapeCassette(), 'file': FileBasedTapeCassette(directory),
                         's3': S3TapeCassette('b', key_prefix=case['p'], read_only=False)}
            # ids -> index of the recording, with the ids the cassettes themselves handed out (the oracle does not
            # depend on the id format)
            idx = {name: {} for name in STORES}
            ids_of = {name: [] for name in STORES}
            for pos, rec in enumerate(case['recs']):
                for name in STORES:
                    c = cassettes[name]
                    _STATE['uid'] = rec['uid']
                    r = c.create_new_recording(rec['cat'])
                    r.set_data('k', 1)
                    r.add_metadata(to_py({'d': rec['md']}))
                    c.save_recording(r)
                    idx[name][r.id] = pos
                    ids_of[name].append(r.id)

            def run_queries(queries, out):
                for q in queries:
                    res = {'fetch': {}}
                    for name in STORES:
                        c = cassettes[name]
                        _STATE.update(rot=q['rot'], draws=list(q['ch']), step=0)
                        try:
                            if q['skip'] is None:
                                it = c.iter_recording_ids(q['cat'], metadata=fdict(q['f']), limit=q['lim'],
                                                          random_results=q['random'])
                            else:
                                props = RecordingLookupProperties(start_date=None, metadata=fdict(q['f']), limit=q['lim'],
                                                                  random_sample=q['random'], skip_incomplete=q['skip'])
                                it = find_matching_recording_ids(TapeRecorder(c), q['cat'], props)
                            ids = list(it)
                        except Exception as ex:
                            res[name] = type(ex).__name__
                            res['fetch'][name] = None
                            continue
                        res[name] = [idx[name].get(i, i) if isinstance(i, str) else repr(i) for i in ids]
                        ok = True
                        for i in ids:
                            try:
                                c.get_recording(i)
                            except Exception:
                                ok = False
                        res['fetch'][name] = ok
                    # the S3 listing mechanism below the cassette: the facade iterator of the category's one key prefix
                    c = cassettes['s3']
                    _STATE.update(rot=q['rot'], draws=list(q['ch']), step=0)
                    # (keys are mapped to ids with the cassette's OWN key format, so the key layout - C15's business - does
                    # not matter here; if the private hook is renamed away the observable falls back to the cassette answer)
                    try:
                        root = c.METADATA_KEY.format(key_prefix=c.key_prefix, id='')
                    except Exception:
                        root = meta_root(case['p'])
                    hook = getattr(c, '_get_days_iterators', None)
                    if hook is None:
                        res['s3facade'] = res['s3']
                    else:
                        try:
                            its = hook(q['cat'], None, None, effective_filter(q) or None, q['lim'], q['random'])
                            keys = [k for it in its for k in it]
                            res['s3facade'] = [idx['s3'].get(k[len(root):], k) if k.startswith(root) else k for k in keys]
                        except Exception as ex:
                            res['s3facade'] = type(ex).__name__
                    out.append(res)

            out = []
            run_queries(case['queries'], out)
            if case.get('resaves') or case.get('queries2'):
                # second phase: the same recordings saved AGAIN under their ids with new metadata, through the same
                # cassette objects that have just answered lookups; then more lookups
                from playback.recordings.memory.memory_recording import MemoryRecording
                for pos, md in case.get('resaves') or []:
                    for name in STORES:
                        r = MemoryRecording(ids_of[name][pos])
                        r.set_data('k', 1)
                        r.add_metadata(to_py({'d': md}))
                        cassettes[name].save_recording(r)
                run_queries(case.get('queries2') or [], out)
            return out
        finally:
            shutil.rmtree(directory, ignore_errors=True)
            fake_s3.reset()

    # ------------------------------------------------------------------------------------------------------
    # the model
    # ------------------------------------------------------------------------------------------------------
    def model_requests(self, case):
        reqs = []
        for q, recs in all_queries(case):
            for name in STORES:
                reqs.append({'m': 'c10.list', 'store': name, 'p': case['p'], 'foreign': case['foreign'],
                             'recs': [{'id': store_id(name, r['cat'], r['uid']), 'md': r['md']} for r in recs],
                             'cat': q['cat'], 'f': q['f'], 'lim': q['lim'], 'random': q['random'], 'skip': q['skip'],
                             'ch': q['ch'], 'rot': q['rot']})
        return reqs

    @staticmethod
    def reduce_file(q, v):
        """os.listdir order is arbitrary: the file cassette is compared as a set (no limit) or a size (limit)"""
        if isinstance(v, str):
            return v
        return sort_mixed(v) if q['lim'] is None else len(v)

    def model_transcript(self, case, answers):
        out = []
        for qi, (q, _) in enumerate(all_queries(case)):
            res = {'fetch': {}}
            for si, name in enumerate(STORES):
                a = answers[qi * len(STORES) + si]
                if isinstance(a, str):
                    res[name] = a
                    res['fetch'][name] = None
                else:
                    m = index_map(case, name)
                    res[name] = [m.get(i, i) for i in a['ids']]
                    res['fetch'][name] = all(a['fetch'])
            # one id prefix (no time window): the merge of the single day iterator is that iterator
            res['s3facade'] = res['s3']
            res['file'] = self.reduce_file(q, res['file'])
            out.append(res)
        return out

    def impl_view(self, case, impl):
        out = []
        for (q, _), res in zip(all_queries(case), impl):
            res = dict(res)
            res['file'] = self.reduce_file(q, res['file'])
            out.append(res)
        return out

    # ------------------------------------------------------------------------------------------------------
    # the property, stated over the real code's transcript
    # ------------------------------------------------------------------------------------------------------
    def oracle(self, case, impl):
        fails = []
        for qi, ((q, recs), res) in enumerate(zip(all_queries(case), impl)):
            want = expected(recs, q)
            lim = q['lim']
            for name, label, got in [(s, s, res[s]) for s in STORES] + [('s3facade', 's3', res['s3facade'])]:
                pre = 'q%d/%s: ' % (qi, label) + ('facade key listing ' if name == 's3facade' else '')
                if isinstance(got, str):
                    fails.append(pre + 'lookup raised %s (expected recordings %r)' % (got, want))
                    continue
                alien = [g for g in got if isinstance(g, str)]
                if alien:
                    fails.append(pre + 'returned %r which is not the id of a saved recording' % (alien[0],))
                known = [g for g in got if not isinstance(g, str)]
                if len(set(known)) != len(known) or len(set(alien)) != len(alien):
                    fails.append(pre + 'returned an id twice: %r' % (got,))
                extra = [g for g in known if g not in want]
                if extra:
                    fails.append(pre + 'returned recordings %r that are not of category %r matching the filter (matching: %r)'
                                 % (sorted(set(extra)), q['cat'], want))
                if lim is None:
                    missing = [w for w in want if w not in known]
                    if missing:
                        fails.append(pre + 'matching recordings %r were not returned (returned %r)' % (missing, got))
                elif len(got) != min(lim, len(want)):
                    fails.append(pre + 'returned %d ids, expected min(limit %d, %d matches)' % (len(got), lim, len(want)))
                if name != 's3facade' and res['fetch'][name] is False:
                    fails.append(pre + 'a returned id is not fetchable with get_recording')
        return fails

    def known_finding(self, case, failures):
        if not failures:
            return None
        queries = set()
        for f in failures:
            m = re.match(r'q(\d+)/(\w+): ', f)
            if not m or m.group(2) != 's3':
                return None
            queries.add(int(m.group(1)))
        aq = all_queries(case)
        for qi in queries:
            if qi >= len(aq):
                return None
            q, recs = aq[qi]
            keys = set(effective_filter(q))
            hit = any(r['cat'] == q['cat'] and any(k in keys and non_native(w) for k, w in r['md']) for r in recs)
            if not hit:
                return None
        return K3

    # ------------------------------------------------------------------------------------------------------
    def nontrivial(self, case, impl):
        return any(expected(recs, q) for q, recs in all_queries(case))

    def features(self, case, impl):
        n = len(case['recs'])
        out = ['prefix:%s' % (case['p'] or "''"), 'store-size:%d' % n]
        if any(non_native(w) for r in case['recs'] for _, w in r['md']):
            out.append('non-json-native')
        if case['foreign']:
            out.append('foreign-objects')
        if case.get('resaves'):
            out.append('resaved-same-id-new-metadata')
        for q, recs in all_queries(case):
            out.append('lim:' + lim_label(q['lim'], n))
            if q['random']:
                out.append('random')
            out.append('skip:%s' % {None: 'none', True: 'true', False: 'false'}[q['skip']])
            if not q['f']:
                out.append('filter:none')
            for k, v in q['f'] or []:
                if isinstance(v, dict) and 'l' in v:
                    out.append('filter:list')
                elif isinstance(v, dict) and 'd' in v and {'operator', 'value'} <= {kk for kk, _ in v['d']}:
                    out.append('filter:operator')
                elif isinstance(v, dict) and 's' in v:
                    out.append('filter:pattern')
                else:
                    out.append('filter:atom')
                if k == INC:
                    out.append('filter-names-incomplete-key')
            if expected(recs, q):
                out.append('query:matches')
        return out

    def shrink(self, case):
        case = {k: v for k, v in case.items() if not k.startswith('_')}
        qs, recs = case['queries'], case['recs']
        if case.get('resaves') or case.get('queries2'):
            rs, q2 = case.get('resaves') or [], case.get('queries2') or []
            yield {k: v for k, v in case.items() if k not in ('resaves', 'queries2')}
            for i in range(len(q2)):
                yield dict(case, queries2=[q2[i]])
            for i in range(len(rs)):
                yield dict(case, resaves=rs[:i] + rs[i + 1:])
            for i in range(len(qs)):
                yield dict(case, queries=qs[:i] + qs[i + 1:])
            used = {pos for pos, _ in rs}
            for i in range(len(recs)):
                if i not in used:
                    yield dict(case, recs=recs[:i] + recs[i + 1:],
                               resaves=[[pos - (1 if pos > i else 0), md] for pos, md in rs])
            return
        if len(qs) > 1:
            for i in range(len(qs)):
                yield dict(case, queries=[qs[i]])
        for i in range(len(recs)):
            yield dict(case, recs=recs[:i] + recs[i + 1:])
        if case['foreign']:
            yield dict(case, foreign=[])
        for i, q in enumerate(qs):
            for j in range(len(q['f'] or [])):
                yield dict(case, queries=qs[:i] + [dict(q, f=q['f'][:j] + q['f'][j + 1:])] + qs[i + 1:])
            if q['f'] == []:
                yield dict(case, queries=qs[:i] + [dict(q, f=None)] + qs[i + 1:])
            if q['random']:
                yield dict(case, queries=qs[:i] + [dict(q, random=False, ch=[], rot=0)] + qs[i + 1:])
        for i, r in enumerate(recs):
            for j in range(len(r['md'])):
                yield dict(case, recs=recs[:i] + [dict(r, md=r['md'][:j] + r['md'][j + 1:])] + recs[i + 1:])

    def targeted(self, case, rng):
        out = []
        for i in range(768):
            p = case['p'] if i % 2 == 0 else PREFIXES[(i // 2) % len(PREFIXES)]
            c = self.rand_store(rng, p, n=rng.randint(0, 4), native=True)
            c['queries'] = [self.rand_query(rng, c) for _ in range(3)]
            out.append(c)
        return out

    def sample_repr(self, case):
        return {k: v for k, v in case.items() if not k.startswith('_')}


PROP = C10
