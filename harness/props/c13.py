"""C13 - Comparison runs always finish and leave no worker behind (DESIGN.md section 6, C13).

Same scripted-player runs of the REAL `Equalizer` as C08 (one `harness/equalizer_runner.py` subprocess per sequence), in
dedicated-process mode, consumed completely / closed after k comparisons / aborted by an exception in the consumer.
Observed: wall time per comparison, which worker process executed which task, live (non-zombie) child processes 1 s
after the run.  The model side is the handler `c13.run` of `Drive/Equalizer.lean`.
"""
from harness.engine import Prop
from harness.props.c08 import (run_case, run_all, note_realised, eff_beh, SKIPPED, model_request, id_numbers, mk_case,
                               shrink_case, expected_count, polls_of, KILL_DELAY, FAULTY, DIED, TIMEOUT)

SLACK = 5.0      # seconds of scheduling slack allowed on every wall-time bound


def epochs_of(tasks):
    """worker identities renamed 0,1,2… in order of first appearance"""
    num, out = {}, []
    for t in tasks:
        num.setdefault(t[1], len(num))
        out.append(num[t[1]])
    return out


class C13(Prop):
    ID = 'C13'
    CORRESPONDENCE = 'PlaybackModel.Equalizer.runFrom/finish (worker epochs, tasks per worker, live processes) vs Equalizer.run_comparison'
    RULE = ('one case = one sequence of 2-8 recordings with hangs / worker deaths / late answers / results the parent cannot read back at chosen positions (first, '
            'last, consecutive, recycle boundaries), recycle rate 0-4, time-out 0.5-2 s, consumed completely, closed after k (once after a consumer pause of 6.6 s with an idle worker) or '
            'aborted by a consumer exception after k, on the real Equalizer with real worker processes; non-trivial = at least '
            'one fault or an early end; distinct = distinct canonical case')
    TRUSTED = ['correspondence harness harness/props/c13.py + harness/equalizer_runner.py + Lean driver (Drive/Equalizer.lean)',
               'OS process behaviour: SIGKILL kills, an idle worker notices the terminate event within its 0.05 s poll, '
               '/proc reports process states (exercised on every run, not proved)',
               'wall-clock bounds carry %.0f s of slack; a run that does not finish at all is cut by the runner\'s watchdog '
               'and reported as a failure of the time bound' % SLACK,
               'an abandoned generator is finalised by CPython reference counting when the consumer\'s frame is released']
    ASSUMPTIONS = ['SIGKILL of a worker succeeds (an OSError from os.kill is an environment fault outside the property)']
    PARALLEL = 16
    TIME_BUDGET = {'quick': 400, 'thorough': 3000}

    def generate(self, rng, tier):
        cases = []

        def add(kinds, rate, timeout, consume, keep=False):
            ids = ['r%d' % i for i in range(len(kinds))]
            cases.append(mk_case(ids, kinds, 'ded', keep, rate, timeout, consume=consume, rng=rng))
        v = 'verdict'
        # faults at the first, last and consecutive positions and on recycle boundaries
        add(['hang', v, v], 2, 0.5, ['all'])
        add([v, v, 'exit'], 3, 1.0, ['all'])
        add([v, 'hang', 'exit', v, v], 2, 0.5, ['all'])
        add(['exit', 'exit', 'late', v], 1, 0.5, ['all'])
        add([v, v, 'hang', v, v, 'exit'], 3, 1.5, ['all'])       # fault as the last task of a recycle period
        add([v, v, v, 'exit', v], 3, 0.5, ['all'])               # fault as the first task of a new worker
        add([v, 'late', v, v], 4, 0.5, ['all'])
        add([v, v, v, v, v, v, v], rng.choice([1, 2]), 2.0, ['all'])   # recycling only
        # early end: closed / consumer exception, right after a fault, with an idle worker, before anything ran
        add([v, v, v, v], 3, 0.5, ['close', 2])
        add([v, 'hang', v, v], 2, 0.5, ['close', 2])
        add([v, v, v], 2, 0.5, ['close', 0])
        add([v, v, 'exit', v], 1, 0.5, ['raise', 3])
        add([v, v, v, v, v], 2, 0.5, ['raise', 1])
        add(['late', v, v], 2, 0.5, ['raise', 2])
        add(['hang', 'hang', v], 0, 0.5, ['all'])
        add([v, v, v, v, v], 4, 0.5, ['close', 5])
        # a consumer that pauses for several seconds (its worker idle all the while) and then abandons the run
        add([v, v, v], 3, 0.5, ['close', 1, 6.6])
        # hangs of a player that made its process immune to SIGTERM (graceful-shutdown handler / SIG_IGN): same behaviour
        # for the model, but only a real SIGKILL gets rid of the worker - first, middle + consecutive, last, early end
        hi, hh = 'hangTermIgnored', 'hangTermHandled'
        add([hi, v, v], 2, 0.5, ['all'])
        add([v, hh, hi, v], 3, 0.5, ['all'])
        add([v, v, hh], 2, 0.5, ['all'])
        add([v, hi, v, v], 2, 0.5, rng.choice([['close', 2], ['raise', 2]]))
        # results the parent cannot read back (they pickle in the worker, not in the parent): the worker lives on, and its
        # replays count towards the recycle rate like any other
        ur = 'unreadable'
        add([ur, ur, v, v, v], 2, 0.5, ['all'])
        add([v, ur, ur, ur, v, v], 2, 0.5, ['all'])
        add([ur, v, ur, v, ur, v, v], 3, 0.5, ['all'])
        add([ur, ur, ur, ur], 1, 0.5, ['all'])
        n = 40 if tier == 'quick' else 280
        weights = [v] * 5 + ['bare', 'playerRaises', 'exit', 'exit', 'hang', 'hangTermIgnored', 'hangTermHandled', 'late', ur]
        for _ in range(n):
            m = rng.randint(2, 8)
            kinds = [rng.choice(weights) for _ in range(m)]
            while sum(k in ('hang', 'late', 'hangTermIgnored', 'hangTermHandled') for k in kinds) > 3:
                kinds[rng.randrange(m)] = v
            c = rng.random()
            consume = ['all'] if c < .4 else ['close', rng.randint(0, m)] if c < .7 else ['raise', rng.randint(1, m)]
            add(kinds, rng.choice([0, 1, 1, 2, 2, 3, 4]), rng.choice([0.5, 0.5, 1.0, 1.5, 2.0]), consume, rng.random() < .3)
        return cases

    # ------------------------------------------------------------------------------------------------------
    def run_impl(self, case):
        impl = run_case(case)
        note_realised(case, impl)
        return impl

    def run_all_impl(self, cases):
        return run_all(cases, self.PARALLEL)

    def model_requests(self, case):
        return [model_request(case, 'ded', 'c13.run')]

    def model_transcript(self, case, answers):
        if case.get('_skip'):
            return SKIPPED
        a = answers[0]
        name = {v: k for k, v in id_numbers(case).items()}
        return {'outcomes': [[name[c['id']], c['status'], c['message']] for c in a['comparisons']],
                'servedBy': a['servedBy'],
                'served': [n for e, n in a['served']],
                'left': a['left']}

    def impl_view(self, case, impl):
        if case.get('_skip'):
            return SKIPPED
        tr = impl['ded']
        ep = epochs_of(tr['tasks'])
        return {'outcomes': [[c['id'], c['status'], c['message']] for c in tr['comparisons']],
                'servedBy': ep,
                'served': [ep.count(e) for e in range(len(set(ep)))],
                'left': len(tr['left'])}

    def oracle(self, case, impl):
        tr = impl['ded']
        fails = []
        if case.get('_skip'):
            return fails
        ids, beh, scripted = case['ids'], eff_beh(case), case['beh']
        n = expected_count(case)
        polls = polls_of(case['timeout'])
        kd = KILL_DELAY if any(b['k'] == 'late' for b in scripted.values()) else 0.0
        if tr.get('overdue') is not None:
            return ['the comparison at position %d (%s) had not arrived %.0f s after the previous one; the time-out is %.1f s'
                    % (tr['overdue'], beh[ids[tr['overdue']]]['k'] if tr['overdue'] < len(ids) else '-',
                       polls + kd + 10, case['timeout'])]
        got = tr['comparisons']
        if tr.get('close_error'):
            fails.append('closing the abandoned comparison generator failed, the run did not unwind: %s' % tr['close_error'])
        if len(got) != n:
            fails.append('%d comparisons arrived, the consumer asked for %d' % (len(got), n))
        for pos, (c, dt) in enumerate(zip(got, tr['dt'])):
            k = beh[ids[pos]]['k']
            if k in ('hang', 'late') or scripted[ids[pos]]['k'] == 'late':
                bound = polls + kd + SLACK          # "within roughly that timeout": time-out rounded up to the 1 s poll
            elif k == 'exit':
                bound = 1 + SLACK                   # death is noticed when the first poll returns
            else:
                bound = SLACK
            if dt > bound:
                fails.append('position %d (%s) took %.1f s, bound %.1f s (time-out %.1f s)' % (pos, k, dt, bound, case['timeout']))
            if k in FAULTY:
                if c['status'] != 'EqualizerFailure':
                    fails.append('position %d (%s) is reported as %s, not as a failure' % (pos, k, c['status']))
            elif c['message'] in (DIED, TIMEOUT):
                fails.append('position %d (%s) answers in time but is reported as %r: the run did not continue with a working '
                             'worker' % (pos, k, c['message']))
        tasks = tr['tasks']
        if [t[0] for t in tasks] != ids[:len(got)]:
            fails.append('replays executed by workers: %r, recordings consumed: %r' % ([t[0] for t in tasks], ids[:len(got)]))
        ep = epochs_of(tasks)
        limit = max(case['rate'], 1)
        for e in set(ep):
            if ep.count(e) > limit:
                fails.append('worker #%d served %d replays, the recycle rate is %d' % (e, ep.count(e), case['rate']))
        for pos in range(min(len(ep), len(ids)) - 1):       # (more replays than recordings is reported above)
            if beh[ids[pos]]['k'] in FAULTY and ep[pos + 1] in ep[:pos + 1]:
                fails.append('after the %s at position %d the next replay ran on a worker used before (#%d)'
                             % (beh[ids[pos]]['k'], pos, ep[pos + 1]))
        if tr['left']:
            fails.append('%d worker process(es) still alive 1 s after the run (%s): pids %r'
                         % (len(tr['left']), case.get('consume', ['all'])[0], tr['left']))
        return fails

    def nontrivial(self, case, impl):
        return any(b['k'] in FAULTY for b in case['beh'].values()) or case.get('consume', ['all'])[0] != 'all'

    def features(self, case, impl):
        out = ['consume:' + case['consume'][0], 'rate:%d' % case['rate'], 'timeout:%s' % case['timeout']]
        if case.get('_skip'):
            out.append('timing-not-realised:skipped')
        for i, b in case.get('_eff', {}).items():
            out.append('timing-realised-as:%s->%s' % (case['beh'][i]['k'], b['k']))
        n = len(case['ids'])
        for pos, i in enumerate(case['ids']):
            k = case['beh'][i]['k']
            if case['beh'][i].get('sigterm'):
                out.append('hang:sigterm-' + case['beh'][i]['sigterm'])
            if k in FAULTY:
                out.append('%s@%s' % (k, 'first' if pos == 0 else 'last' if pos == n - 1 else 'middle'))
                if pos and case['beh'][case['ids'][pos - 1]]['k'] in FAULTY:
                    out.append('consecutive-faults')
                if case['rate'] and (pos + 1) % case['rate'] == 0:
                    out.append('fault-on-recycle-boundary')
        return out

    def shrink(self, case):
        return shrink_case(case)

    def targeted(self, case, rng):
        out = []
        for _ in range(12):
            m = rng.randint(2, 4)
            kinds = ['verdict'] * m
            kinds[rng.randrange(m)] = rng.choice(['hang', 'hangTermIgnored', 'hangTermHandled', 'exit', 'late', 'verdict'])
            consume = rng.choice([['all'], ['close', rng.randint(0, m)], ['raise', rng.randint(1, m)]])
            out.append(mk_case(['r%d' % i for i in range(m)], kinds, 'ded', False, rng.randint(1, 3), 0.5, consume=consume, rng=rng))
        return out


PROP = C13
