"""C03 - Captured outputs are exactly what the executing code sent (DESIGN.md section 6, C03)."""
import copy

from harness.props.recorder_common import RecorderProp
from harness.rvals import canon, canon_wire, rand_value, to_py

OUT_ALIASES = ['send', 'store', 'emit', 'svc.store_result', 'audit-log', 'emit #2']      # aliases are free text
RAISED = ['ValueError', 'KeyError', 'AssertionError', 'CustomError', 'NotImplementedError', 'StopIteration']


def const(w):
    return {'c': w}


K10 = 'replay-inside-recorded-operation-restarts-output-numbering'
K10_PREFIX = 'replay inside a recorded operation (K10): '


class C03(RecorderProp):
    ID = 'C03'
    RULE = ('pairs (recorded program P, replayed program P\' = P or a behavioural edit of P: changed output argument, dropped / '
            'added / swapped output call, changed final result, raise instead of return) over straight-line programs with 1-14 '
            'calls per alias (more than nine included), instance and static outputs, outputs with a data handler, positional and '
            'keyword arguments, a quarter of the inputs calling an output from their body on an alias the operation also uses directly (nested: takes no ordinal); the expected recorded and replayed output maps are computed from the programs alone and the set '
            'of differing entries is compared with the set predicted from the edit; non-trivial = at least one output call; '
            'distinct = distinct canonical case')
    N = {'quick': 2500, 'thorough': 25000}

    # -- generation -------------------------------------------------------------------------------------------
    def gen_one(self, rng, tier):
        sites = {}
        nin = rng.randint(0, 2)
        for i in range(nin):
            sites['i%d' % i] = {'kind': 'in', 'alias': 'in%d' % i, 'flavor': rng.choice(['instance', 'static']),
                                'capture': 'all', 'resolver': None, 'nargs': 1, 'kwnames': [], 'handler': '',
                                'runOriginal': False, 'substitute': None, 'fallbacks': None,
                                'body': [{'op': 'ret', 'e': {'t': [const({'s': 'r%d' % i}), {'v': 'a0'}]}}]}
        nout = rng.randint(1, 3)
        for i in range(nout):
            sites['o%d' % i] = {'kind': 'out', 'alias': rng.choice(OUT_ALIASES), 'flavor': rng.choice(['instance', 'static']),
                                'nargs': rng.choice([0, 1, 2]), 'kwnames': rng.sample(['k', 'opt'], rng.choice([0, 0, 1])),
                                'handler': rng.choice(['', '', 'wrap']), 'failOnMissing': True, 'default': None,
                                'body': ([{'op': 'raise', 't': rng.choice(RAISED)}] if rng.random() < 0.2 else [])
                                + [{'op': 'ret', 'e': const(rng.choice([None, {'s': 'ack'}, {'i': '1'}]))}]}
            sp = sites['o%d' % i]
            if sp['handler'] == 'wrap' and sp['nargs'] > 0 and rng.random() < 0.5:
                # the output function changes the argument it was handed in place - after the (serialising) handler saw it
                sp['body'].insert(0, {'op': 'stamp', 'x': 'a%d' % rng.randrange(sp['nargs'])})
        if nin and rng.random() < 0.25:
            # an intercepted input whose body sends on an alias the operation also sends on directly: the inner call is nested
            # (not an output of the operation, it takes no ordinal), the direct ones are numbered 1, 2, 3 ...
            o = 'o%d' % rng.randrange(nout)
            sites['i0']['body'].insert(0, {'op': 'call', 's': o, 'x': 'inner', 'args': [const({'s': 'from-body'})] * sites[o]['nargs']})
        ncalls = rng.choice([1, 2, 3, 4, 6, 8]) if rng.random() < 0.8 else rng.randint(10, 14)
        script = []
        for j in range(ncalls):
            if nin and rng.random() < 0.25:
                s = 'i%d' % rng.randrange(nin)
                script.append({'op': 'call', 's': s, 'x': 'x%d' % j, 'args': [const({'i': str(rng.randint(0, 3))})]})
            else:
                s = 'o%d' % rng.randrange(nout)
                if ncalls >= 10 and rng.random() < 0.8:
                    s = 'o0'
                sp = sites[s]
                st = {'op': 'call', 's': s, 'x': 'x%d' % j, 'args': [const(rand_value(rng, 1)) for _ in range(sp['nargs'])]}
                if st['args'] and rng.random() < 0.12:
                    # a class object sent as data (an event type): in first position of a static output it looks like a cls
                    st['args'][rng.choice([0, 0, len(st['args']) - 1])] = const({'cls': rng.choice(['ValueError', 'KeyError', 'dict', 'Obj'])})
                kw = [[k, const(rand_value(rng, 1))] for k in sp['kwnames'] if rng.random() < 0.7]
                if kw:
                    st['kw'] = kw
                script.append(st)
        share = False
        if rng.random() < 0.12:
            # one object passed twice in one output call (`send(report, fallback=report)`): the recorded entry and the captured
            # entry both show it twice (plain attributes only: an object holding a container before a shared reference is K7)
            cands = [st for st in script if sites[st['s']]['kind'] == 'out' and
                     (sites[st['s']]['nargs'] >= 2 or (sites[st['s']]['nargs'] >= 1 and sites[st['s']]['kwnames']))]
            if cands:
                st = rng.choice(cands)
                obj = {'o': [['name', {'s': rng.choice(['n', 'report'])}], ['x', {'i': str(rng.randint(0, 9))}]]}
                script.insert(script.index(st), {'op': 'let', 'x': 'sh', 'e': const(obj)})
                st['args'][0] = {'v': 'sh'}
                if sites[st['s']]['nargs'] >= 2:
                    st['args'][1] = {'v': 'sh'}
                else:
                    st['kw'] = [[sites[st['s']]['kwnames'][0], {'v': 'sh'}]]
                share = True
        final = {'op': 'ret', 'e': const(rand_value(rng, 1))} if rng.random() < 0.8 else {'op': 'raise', 't': rng.choice(RAISED)}
        script.append(final)
        edited = self.edit(rng, copy.deepcopy(script), sites)
        runs = [{'run': 'op', 'cls': 'OpA', 'enabled': True, 'script': script, 'draws': [], 'clock': [1, 2]}]
        if rng.random() < 0.3:
            # an earlier playback that is aborted after it already sent outputs (newer code asks for something unrecorded)
            outs = [st for st in script[:-1] if st['op'] == 'call' and sites[st['s']]['kind'] == 'out'][:3]
            sites['missing'] = {'kind': 'in', 'alias': 'not-recorded', 'flavor': 'instance', 'capture': 'all', 'resolver': None,
                                'nargs': 0, 'kwnames': [], 'handler': '', 'runOriginal': False, 'substitute': None,
                                'fallbacks': None, 'body': [{'op': 'ret', 'e': const(None)}]}
            aborted = copy.deepcopy(outs) + [{'op': 'call', 's': 'missing', 'x': 'm', 'args': []}, {'op': 'reraise', 'x': 'm'},
                                             {'op': 'ret', 'e': const(None)}]
            runs.append({'run': 'play', 'cls': 'OpA', 'rec': 0, 'enabled': False, 'script': aborted, 'clock': [3, 3, 3]})
        if rng.random() < 0.3:
            # an earlier complete replay of the recorded program: what it captured must still read the same after the next one
            runs.append({'run': 'play', 'cls': 'OpA', 'rec': 0, 'enabled': False, 'script': copy.deepcopy(script), 'clock': [4, 4, 4]})
        runs.append({'run': 'play', 'cls': 'OpA', 'rec': 0, 'enabled': rng.random() < 0.5, 'script': edited, 'clock': [5, 6, 7]})
        if share:
            # no OTHER object in this history: an object whose state holds a container, written before a shared reference,
            # shifts the serializer's reference numbers (known finding K7, reported under C01/C07)
            from harness.rvals import no_objects
            case = no_objects({'share': True, 'cassette': rng.choice(['memory', 'memory', 'file', 's3']),
                               'classes': {'OpA': {'params': None, 'classLevel': rng.random() < 0.2, 'hasExtractor': False}},
                               'sites': sites, 'runs': runs})
            for run in case['runs']:
                for st in run['script']:
                    if st.get('op') == 'let' and st.get('x') == 'sh':
                        st['e'] = const(obj)
            return case
        return {'cassette': rng.choice(['memory', 'memory', 'file', 's3']),
                'classes': {'OpA': {'params': None, 'classLevel': rng.random() < 0.2, 'hasExtractor': False}},
                'sites': sites, 'runs': runs}

    def edit(self, rng, script, sites):
        outs = [i for i, st in enumerate(script[:-1]) if st['op'] == 'call' and sites[st['s']]['kind'] == 'out'
                and not any('v' in a for a in st.get('args', []))]
        kind = rng.choice(['same', 'arg', 'drop', 'add', 'swap', 'final', 'raise'])
        if kind == 'arg' and outs:
            i = rng.choice(outs)
            if script[i]['args']:
                script[i]['args'][rng.randrange(len(script[i]['args']))] = const({'s': 'EDITED'})
            else:
                script[i].setdefault('kw', [])
        elif kind == 'drop' and outs:
            del script[rng.choice(outs)]
        elif kind == 'add' and outs:
            i = rng.choice(outs)
            dup = copy.deepcopy(script[i])
            dup['x'] = 'added'
            script.insert(rng.randint(0, len(script) - 1), dup)
        elif kind == 'swap' and len(outs) >= 2:
            i, j = rng.sample(outs, 2)
            script[i], script[j] = script[j], script[i]
        elif kind == 'final':
            script[-1] = {'op': 'ret', 'e': const({'s': 'EDITED-RESULT'})}
        elif kind == 'raise':
            script[-1] = {'op': 'raise', 't': rng.choice(RAISED)}
        if rng.random() < 0.25:
            # the replayed code also talks to the recorder (drop / keep this recording): documented no-ops while replaying
            script.insert(rng.randint(0, len(script) - 1), {'op': rng.choice(['discard', 'discard', 'force'])})
        return script

    THREADS = {'quick': 80, 'thorough': 1200}

    def generate(self, rng, tier):
        # + operations whose outputs are sent by worker threads and, on the same aliases, by the operation's own thread before it
        # starts / after it joins them (the tie to the thread model is C01's; here the oracle is what was SENT, per alias)
        from harness import threads_c04 as T
        cases = [self.gen_one(rng, tier) for _ in range(self.N[tier])] + \
            [dict(T.gen_record_replay(rng), model=False) for _ in range(self.THREADS[tier])]
        # + operations that replay a reference recording while they are recorded (outside the model; known finding K10)
        for _ in range(self.THREADS[tier] // 4):
            steps = [[rng.choice(['in', 'out', 'out']), rng.randint(0, 3)] for _ in range(rng.randint(1, 5))]
            steps.insert(rng.randint(0, len(steps)), ['play', rng.choice(['known', 'known', 'unknown'])])
            cases.append({'kind': 'playinside', 'model': False, 'steps': steps, 'end': rng.choice(['ret', 'ret', 'raise'])})
        # + operations whose metadata extractor sends an intercepted output of its own after the operation (not modelled)
        from harness import effects_cases as E
        for _ in range(self.THREADS[tier] // 2):
            cases.append(E.gen_effects_case(rng))
        return cases

    def run_impl(self, case):
        if case.get('kind') == 'effects':
            from harness import effects_cases as E
            return E.run_effects_case(case)
        if case.get('kind') == 'playinside':
            from harness.props.c05 import C05
            return C05.run_playinside_case(self, case)
        if case.get('kind') == 'threads':
            from harness import threads_c04 as T
            return T.run_record_replay_threads(case)
        return super(C03, self).run_impl(case)

    def features(self, case, impl):
        if case.get('kind') == 'effects':
            return ['metadata-extractor-sends-an-output' if case['extractor_calls_output'] else 'metadata-extractor-plain']
        if case.get('kind') == 'playinside':
            return ['replay-inside-a-recorded-operation' + (':outputs-before-and-after' if self.k10_shape(case) else '')]
        if case.get('kind') == 'threads':
            return ['threads:outputs-from-%d-workers+main' % len(case['workers'])]
        return super(C03, self).features(case, impl)

    def sample_repr(self, case):
        return case if case.get('kind') in ('threads', 'playinside', 'effects') else super(C03, self).sample_repr(case)

    @staticmethod
    def sent_by_threads(case):
        """alias -> the arguments sent on it, in happens-before order (main before start, the owning worker, main after join)"""
        out = {'output: _tape_recorder_operation #1.output': repr({'args': ['done'], 'kwargs': {}})}
        for wi, calls in enumerate(case['workers']):
            seq = [c['arg'] for c in case.get('pre', []) if c['w'] == wi] + [c['arg'] for c in calls if c['site'] == 'out'] + \
                [c['arg'] for c in case.get('post', []) if c['w'] == wi]
            for n, arg in enumerate(seq, 1):
                out['output: out%d #%d.output' % (wi, n)] = repr({'args': [arg], 'kwargs': {}})
        return out

    # -- what the programs send, computed from the programs alone ------------------------------------------------
    @staticmethod
    def sent(script, sites):
        """expected output map of a straight-line program: key text -> canonical entry"""
        counter, out, env = {}, {}, {}

        def ev(e):
            if 'c' in e:
                return to_py(e['c'])
            return env.get(e['v'], '<unbound>')       # (a shrunken program may have lost the binding; as in recorder_sim.ev)

        for st in script:
            if st['op'] == 'let':
                env[st['x']] = ev(st['e'])
            elif st['op'] == 'append':
                if isinstance(env.get(st['x']), list):
                    env[st['x']].append(ev(st['e']))
            elif st['op'] == 'call':
                sp = sites[st['s']]
                if sp['kind'] != 'out':
                    continue
                al = sp['alias']
                counter[al] = counter.get(al, 0) + 1
                args = [canon(ev(a)) for a in st.get('args', [])]       # the value AT CALL TIME
                kw = sorted([k, canon(ev(a))] for k, a in st.get('kw', []))
                key = 'output: %s #%d.output' % (al, counter[al])
                if sp['handler'] == 'wrap':
                    out[key] = ['prepared', '{"W":(' + ','.join(args) + ')}']
                else:
                    out[key] = ['sent', args, kw]
            elif st['op'] == 'ret':
                out['output: _tape_recorder_operation #1.output'] = ['sent', [canon(ev(st['e']))], []]
            elif st['op'] == 'raise':
                out['output: _tape_recorder_operation #1.output'] = ['sent', ['exc:' + st['t']], []]
        return out

    @staticmethod
    def k10_shape(case):
        """the operation sends an output on one alias before AND after a replay it starts itself"""
        kinds = [st[0] for st in case['steps']]
        return any(k == 'play' and 'out' in kinds[:i] and 'out' in kinds[i + 1:] for i, k in enumerate(kinds))

    def oracle(self, case, impl):
        if case.get('kind') == 'effects':
            from harness import effects_cases as E
            if not impl.get('saved'):
                return ['an operation with a metadata extractor was not saved (%r)' % (impl['rec_end'],)]
            want = E.sent_by_operation(case)
            if impl['recorded_outputs'] != want:
                return ['the operation sent %r on alias audit%s; its recording holds %r'
                        % (want, ' (its metadata extractor sent one more afterwards: not an output of the operation)'
                           if case['extractor_calls_output'] else '', impl['recorded_outputs'])]
            return []
        if case.get('kind') == 'playinside':
            if impl.get('recorded_snd') is None:
                return []       # (not saved: C05's business)
            sent = [st[1] for st in case['steps'] if st[0] == 'out']
            want = [['output: snd #%d.output' % (i + 1), a] for i, a in enumerate(sent)]
            if impl['recorded_snd'] != sorted(want):
                return [K10_PREFIX + 'the operation sent %r on alias snd around a replay it started itself (steps %r), its recording holds %r'
                        % (sent, case['steps'], impl['recorded_snd'])]
            return []
        if case.get('kind') == 'threads':
            fails = []
            want = self.sent_by_threads(case)
            for side in ('recorded', 'playback'):
                got = impl['outputs'].get(side) or []
                if len(got) != len(dict(got)):
                    fails.append('threads: duplicate keys among the %s outputs: %r' % (side, got))
                if dict(got) != want:
                    fails.append('threads: %s outputs %r are not what the threads sent %r (schedules %r)'
                                 % (side, dict(got), want, impl.get('_choices')))
            return fails
        fails = []
        for i, r in enumerate(impl):
            if '_result_at_end' in r and r['_result_at_end'] != r['result']:
                fails.append('run %d: the outputs captured by this replay changed when a later replay happened: they were %r, at '
                             'the end they read %r' % (i, r['result'], r['_result_at_end']))
        rec_run, play_run = case['runs'][0], case['runs'][-1]
        r = impl[-1]
        if r['result'][0] != 'played':
            return ['replay ended %r' % (r['result'],)]
        want_rec = self.sent(rec_run['script'], case['sites'])
        want_play = self.sent(play_run['script'], case['sites'])
        got_play, got_rec = dict((k, v) for k, v in r['result'][1]), dict((k, v) for k, v in r['result'][2])
        if len(r['result'][1]) != len(got_play) or len(r['result'][2]) != len(got_rec):
            fails.append('duplicate output keys: %r / %r' % (r['result'][1], r['result'][2]))
        if got_rec != want_rec:
            fails.append('recorded outputs %r are not what the recorded program sent %r' % (got_rec, want_rec))
        if got_play != want_play:
            fails.append('outputs captured during replay %r are not what the replayed program sent %r' % (got_play, want_play))
        diff_got = sorted(k for k in set(got_rec) | set(got_play) if got_rec.get(k) != got_play.get(k))
        diff_want = sorted(k for k in set(want_rec) | set(want_play) if want_rec.get(k) != want_play.get(k))
        if diff_got != diff_want:
            fails.append('entries differing between recording and replay %r, the edit affects exactly %r' % (diff_got, diff_want))
        return fails

    def known_finding(self, case, failures):
        if case.get('mutate_after_send'):
            return 'output-args-not-copied'
        if case.get('kind') == 'playinside' and self.k10_shape(case) and failures and all(f.startswith(K10_PREFIX) for f in failures):
            return K10
        return None

    def nontrivial(self, case, impl):
        if case.get('kind') in ('effects',):
            return True
        if case.get('kind') == 'playinside':
            return True
        if case.get('kind') == 'threads':
            return True
        return any(sp['kind'] == 'out' for sp in case['sites'].values())

    def shrink(self, case):
        if case.get('kind') in ('threads', 'playinside', 'effects'):
            return
        for ri in range(len(case['runs'])):
            sc = case['runs'][ri]['script']
            for i in range(len(sc) - 1):
                new = copy.deepcopy(case)
                new['runs'][ri]['script'] = sc[:i] + sc[i + 1:]
                yield new
        for sname, sp in case['sites'].items():
            for key, val in (('handler', ''), ('flavor', 'instance')):
                if sp.get(key) != val:
                    new = copy.deepcopy(case)
                    new['sites'][sname][key] = val
                    yield new


PROP = C03
