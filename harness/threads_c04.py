"""C04, threads: interceptions in flight on worker threads while the operation's main thread discards the recording or
leaves the recording scope.  The real TapeRecorder runs under the controlled scheduler (harness/sched.py): every line of
playback/tape_recorder.py executed by a registered thread is a scheduling point.

case: {'kind': 'threads', 'main': 'return' | 'discard' | 'join' | 'discard-join', 'workers': [[call, ...], ...],
       'copy': bool, 'schedule': [choices] | None, 'rand': seed | None}
call: {'site': 'in' | 'out', 'arg': int, 'raises': bool, 'prepare_fails': bool, 'key_fails': bool}
"""
import os
import random

from harness import sched as S


def run_threads_case(case):
    from playback.tape_recorder import TapeRecorder, RecordingParameters
    from playback.tape_cassettes.in_memory.in_memory_tape_cassette import InMemoryTapeCassette
    from playback.interception.input_interception import InputInterceptionDataHandler
    import playback.tape_recorder as trm

    class FailIn(InputInterceptionDataHandler):
        def prepare_input_for_recording(self, interception_key, result, args, kwargs):
            if args[-1]:
                raise RuntimeError('handler')
            return result

        def restore_input_from_recording(self, recorded_data, args, kwargs):
            return recorded_data

    cassette = InMemoryTapeCassette()
    # what reaches the cassette (C05 / C18 look at it; the wrappers are outside the scheduled file: no extra switch points)
    cassette_log = []
    for name in ('create_new_recording', 'save_recording', 'abort_recording'):
        def spy(*a, _real=getattr(cassette, name), _name=name.split('_')[0], **kw):
            cassette_log.append(_name)
            return _real(*a, **kw)
        setattr(cassette, name, spy)
    tr = TapeRecorder(cassette)
    tr.enable_recording()
    chooser = S.Scripted(case['schedule']) if case.get('schedule') is not None else \
        (S.RandomChooser(random.Random(case['rand'])) if case.get('rand') is not None else S.Scripted([]))
    sch = S.Scheduler([trm.__file__.replace('.pyc', '.py')], chooser=chooser, max_steps=60000, watchdog_s=20.0)
    results = [[] for _ in case['workers']]
    errors = []

    class Op(object):
        @tr.intercept_input('in', data_handler=FailIn())
        def read(self, arg, raises, fail_prepare):
            if raises:
                raise KeyError(arg)
            return ('value', arg)

        @tr.intercept_input('bad {p}', alias_params_resolver=lambda *a, **k: {'q': 1})
        def read_badkey(self, arg, raises, fail_prepare):
            if raises:
                raise KeyError(arg)
            return ('value', arg)

        @tr.intercept_output('out')
        def send(self, arg, raises, fail_prepare):
            if raises:
                raise KeyError(arg)
            return ('sent', arg)

        @tr.operation(metadata_extractor=(lambda *a, **k: {'user': 'extracted'}) if case.get('extractor') else None)
        def execute(self):
            workers = []
            for wi, calls in enumerate(case['workers']):
                workers.append(S.CoopThread(sch, 'w%d' % wi, (lambda wi=wi, calls=calls: self.work(wi, calls))))
            for w in workers:
                w.start()
            if case['main'] in ('discard', 'discard-join'):
                tr.discard_recording()
            elif case['main'] in ('disable', 'disable-join'):
                # the service's kill switch flipped while worker interceptions are in flight (after F15: switch off, then
                # discard - for the workers the same shared reads and writes as a discard by the main thread)
                tr.disable_recording()
            if case['main'] in ('join', 'discard-join', 'disable-join'):
                for w in workers:
                    w.join()
            return 'done'

        def work(self, wi, calls):
            for c in calls:
                fn = {'in': self.read, 'out': self.send}[c['site']]
                if c.get('key_fails'):
                    fn = self.read_badkey
                try:
                    v = fn(c['arg'], c['raises'], c.get('prepare_fails', False))
                    results[wi].append(['ret', list(v)])
                except KeyError as ex:
                    results[wi].append(['exc', 'KeyError'])
                except S.SchedAbort:
                    raise
                except BaseException as ex:   # anything the framework lets escape into the service
                    results[wi].append(['exc', type(ex).__name__])

    if case.get('copy'):
        tr.recording_params(RecordingParameters(copy_data_on_intercepion=True))(Op)
    main_result = []

    def main():
        try:
            main_result.append(['ret', Op().execute()])
        except S.SchedAbort:
            raise
        except BaseException as ex:
            main_result.append(['exc', type(ex).__name__])
    sch.spawn('main', main)
    blocked_at = None
    try:
        outcome = sch.run()
    except S.SchedTimeout as ex:
        # the thread holding the baton sits in a blocking call of the threading module that the recorder made: the recorder
        # makes its caller wait for another thread (the undecorated twin never blocks).  Anything else stays a harness error.
        blocked_at = blocked_in_recorder(getattr(ex, 'info', None), trm.__file__.replace('.pyc', '.py'))
        if blocked_at is None:
            raise
        # waiting for a lock that a pre-empted thread holds is an artefact of the controlled schedule (the holder would go on
        # and release it): such a schedule is skipped, not judged
        outcome = 'blocked' if blocked_at.endswith(WAITS) else 'skipped'
    saved = None
    if outcome == 'finished' and cassette_log.count('save'):
        try:
            rec = cassette.get_recording(cassette.get_last_recording_id())
            md = rec.get_metadata()
            saved = {'incomplete': md.get(TapeRecorder.INCOMPLETE_RECORDING), 'exc': md.get(TapeRecorder.EXCEPTION_IN_OPERATION),
                     'user': md.get('user'),
                     'has_operation_output': any(TapeRecorder.OPERATION_OUTPUT_ALIAS in k for k in rec.get_all_keys() if k.startswith('output:'))}
        except Exception as ex:
            saved = {'error': type(ex).__name__}
    return {'outcome': outcome, 'main': main_result, 'results': results, '_blocked_at': blocked_at, 'log': list(cassette_log), 'saved': saved,
            '_choices': list(sch.choices), '_decisions': [dict(d) for d in sch.decisions][:400], '_steps': sch.steps}


WAITS = ('threading.wait', 'threading.join', 'threading.wait_for', 'threading._wait_for_tstate_lock')


def blocked_in_recorder(info, target_file):
    if not info or not info.get('holder'):
        return None
    stack = info.get('stacks', {}).get(info['holder']) or []
    if not stack or not stack[0][0].endswith('threading.py'):
        return None
    for filename, lineno, name in stack:
        if filename.endswith('threading.py'):
            continue
        if os.path.abspath(filename) == os.path.abspath(target_file):
            return '%s waits in %s (tape_recorder.py:%d), called threading.%s' % (info['holder'], name, lineno, stack[0][2])
        return None
    return None


def expected(case):
    out = []
    for calls in case['workers']:
        out.append([['exc', 'KeyError'] if c['raises'] else ['ret', [{'in': 'value', 'out': 'sent'}[c['site']], c['arg']]] for c in calls])
    return out


def gen_base(rng):
    workers = []
    long_worker = rng.random() < 0.3      # a worker still busy with several calls while the main thread finalises
    for _ in range(rng.choice([1, 1, 2])):
        calls = []
        for _ in range(rng.choice([5, 6, 8]) if long_worker else rng.choice([1, 1, 2])):
            site = rng.choice(['in', 'in', 'out'])
            calls.append({'site': site, 'arg': rng.randint(0, 3), 'raises': rng.random() < 0.25,
                          'prepare_fails': site == 'in' and rng.random() < 0.15,
                          'key_fails': site == 'in' and rng.random() < 0.1})
        workers.append(calls)
    return {'kind': 'threads', 'main': rng.choice(['return', 'discard', 'join', 'discard-join', 'return', 'discard', 'disable',
                                                   'disable-join']),
            'workers': workers, 'copy': rng.random() < 0.5}


# ------------------------------------------------------------------------------------------------------------------
# C01, threads: record an operation whose worker threads call inputs (any aliases) and outputs (thread-disjoint aliases),
# then replay it with worker threads again, both under scheduler-chosen interleavings.
# ------------------------------------------------------------------------------------------------------------------
def run_record_replay_threads(case):
    from playback.tape_recorder import TapeRecorder
    from playback.tape_cassettes.in_memory.in_memory_tape_cassette import InMemoryTapeCassette
    import playback.tape_recorder as trm
    cassette = InMemoryTapeCassette()
    tr = TapeRecorder(cassette)
    tr.enable_recording()
    state = {'sch': None, 'results': None}

    def make_op():
        ns = {}

        def read(self, arg):
            return ('value', arg, arg * 7)
        ns['read'] = tr.intercept_input('in')(read)
        for wi in range(len(case['workers'])):
            def send(self, arg, wi=wi):
                return ('ack', wi, arg)
            ns['send%d' % wi] = tr.intercept_output('out%d' % wi)(send)

        def work(self, wi, calls):
            for c in calls:
                try:
                    v = self.read(c['arg']) if c['site'] == 'in' else getattr(self, 'send%d' % wi)(c['arg'])
                    state['results'][wi].append(['ret', list(v)])
                except S.SchedAbort:
                    raise
                except BaseException as ex:
                    state['results'][wi].append(['exc', type(ex).__name__])
        ns['work'] = work

        def main_calls(self, calls):
            # the operation's own thread sends on aliases its workers use too, strictly before it starts them / after it
            # joined them: the ordinals of one alias count the calls of the whole operation, whichever thread makes them
            for c in calls:
                try:
                    v = getattr(self, 'send%d' % c['w'])(c['arg'])
                    state['main_results'].append(['ret', list(v)])
                except S.SchedAbort:
                    raise
                except BaseException as ex:
                    state['main_results'].append(['exc', type(ex).__name__])
        ns['main_calls'] = main_calls

        def execute(self):
            sch = state['sch']
            self.main_calls(case.get('pre', []))
            ws = [S.CoopThread(sch, 'w%d' % wi, (lambda wi=wi, calls=calls: self.work(wi, calls)))
                  for wi, calls in enumerate(case['workers'])]
            for w in ws:
                w.start()
            for w in ws:
                w.join()
            self.main_calls(case.get('post', []))
            return 'done'
        ns['execute'] = tr.operation()(execute)
        from harness import dyn
        return dyn.register(type('ThreadedOp', (object,), ns))
    Op = make_op()

    def one_run(seed, fn):
        sch = S.Scheduler([trm.__file__.replace('.pyc', '.py')], chooser=S.RandomChooser(random.Random(seed)),
                          max_steps=100000, watchdog_s=30.0)
        state['sch'] = sch
        state['results'] = [[] for _ in case['workers']]
        state['main_results'] = []
        box = []

        def main():
            try:
                box.append(['ret', fn()])
            except S.SchedAbort:
                raise
            except BaseException as ex:
                box.append(['exc', type(ex).__name__])
        sch.spawn('main', main)
        outcome = sch.run()
        return outcome, box, state['results'] + [state['main_results']], list(sch.choices)
    out1, box1, res1, ch1 = one_run(case['rand'], lambda: Op().execute())
    rid = cassette.get_last_recording_id()
    pb = {}

    def replay():
        p = tr.play(rid, lambda recording: Op().execute())
        pb['playback'] = sorted([o.key, repr(o.value)] for o in p.playback_outputs)
        pb['recorded'] = sorted([o.key, repr(o.value)] for o in p.recorded_outputs)
        return 'played'
    out2, box2, res2, ch2 = one_run(case['rand'] + 1, replay)
    return {'record': {'outcome': out1, 'main': box1, 'results': res1}, 'replay': {'outcome': out2, 'main': box2, 'results': res2},
            'outputs': pb, '_choices': [ch1, ch2]}


def gen_record_replay(rng):
    workers = []
    for _ in range(rng.choice([1, 2, 2, 3])):
        workers.append([{'site': rng.choice(['in', 'in', 'out']), 'arg': rng.randint(0, 4)} for _ in range(rng.randint(1, 3))])
    nw = len(workers)
    pre = [{'w': rng.randrange(nw), 'arg': rng.randint(5, 9)} for _ in range(rng.choice([0, 1, 1, 2]))]
    post = [{'w': rng.randrange(nw), 'arg': rng.randint(5, 9)} for _ in range(rng.choice([0, 1, 1, 2]))]
    return {'kind': 'threads', 'workers': workers, 'pre': pre, 'post': post, 'rand': rng.randrange(10 ** 9)}
