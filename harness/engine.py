"""Generic check engine: build -> audit -> corpus -> correspondence (+ property oracle) -> failing-input search -> evidence.

One property = one module in harness/props/ exposing a subclass of `Prop`.  See DESIGN.md section 5.
Exit codes: 0 property held on everything explored; 1 VIOLATION line printed; 2 infrastructure error.
"""
from __future__ import annotations

import fcntl
import hashlib
import json
import multiprocessing as mp
import os
import signal
import threading
import random
import re
import subprocess
import sys
import time
import shutil
import tempfile
import traceback

from harness import covprobe

VERIF = os.path.dirname(os.path.dirname(os.path.abspath(__file__)))
LEAN = os.path.join(VERIF, 'lean')
REPO = os.environ.get('VERIF_REPO', '/repo')
DRIVER = os.path.join(LEAN, '.lake', 'build', 'bin', 'driver')
ALLOWED_AXIOMS = {'propext', 'Classical.choice', 'Quot.sound'}
FORBIDDEN = re.compile(r'\bsorry\b|\badmit\b|^\s*axiom\s|native_decide|bv_decide|implemented_by|\bunsafe\s|maxHeartbeats\s+0')


class InfraError(Exception):
    """The verification machinery itself failed (exit 2, never a VIOLATION)."""


def use_repo():
    """Make `import playback` resolve to the tree under test (default /repo, the editable install)."""
    if REPO not in sys.path[:1]:
        sys.path.insert(0, REPO)
    import logging
    logging.disable(logging.CRITICAL)


# --------------------------------------------------------------------------------------------------------------
# Lean side
# --------------------------------------------------------------------------------------------------------------
def _lean_sources():
    out = []
    for root, dirs, files in os.walk(LEAN):
        dirs[:] = [d for d in dirs if d not in ('.lake', 'Audit')]
        for f in files:
            if f.endswith('.lean') or f == 'lakefile.toml':
                out.append(os.path.join(root, f))
    return sorted(out)


def lean_digest():
    h = hashlib.sha256()
    for p in _lean_sources():
        h.update(os.path.relpath(p, LEAN).encode())
        with open(p, 'rb') as f:
            h.update(f.read())
    return h.hexdigest()


# --- the decision atoms of the source (tools/gen_source_lean.py): regenerated from the tree under test on every run ------
SOURCE_ATOMS = {'atoms': None, 'notes': None}
BUILD = {'done': False, 'failed_targets': [], 'errors': ''}


def _gen_source():
    import importlib.util
    spec = importlib.util.spec_from_file_location('gen_source_lean', os.path.join(VERIF, 'tools', 'gen_source_lean.py'))
    mod = importlib.util.module_from_spec(spec)
    spec.loader.exec_module(mod)
    atoms, notes = mod.extract(REPO)
    SOURCE_ATOMS.update(atoms=atoms, notes=notes)
    return mod.render(atoms)


def _write_if_changed(path, text):
    old = open(path).read() if os.path.exists(path) else None
    if old != text:
        tmp = path + '.tmp%d' % os.getpid()
        with open(tmp, 'w') as f:
            f.write(text)
        os.replace(tmp, path)


def _select_lean(text):
    """Where to build: /verif/lean for /repo itself (Source.lean regenerated in place); for a scratch tree (VERIF_REPO,
    mutation testing) whose atoms differ from /repo's, a private copy of the project - so that runs against different trees
    never share a driver built from different atoms."""
    global LEAN, DRIVER
    main_src = os.path.join(VERIF, 'lean', 'PlaybackModel', 'Source.lean')
    if os.path.realpath(REPO) == '/repo':
        return main_src
    if os.path.exists(main_src) and open(main_src).read() == text:
        return None                                  # same atoms: share the main build, nothing to write
    LEAN = os.path.join(VERIF, 'replays', 'lean-' + hashlib.sha1(text.encode()).hexdigest()[:12])
    DRIVER = os.path.join(LEAN, '.lake', 'build', 'bin', 'driver')
    if not os.path.isdir(LEAN):
        tmp = LEAN + '.tmp%d' % os.getpid()
        try:
            shutil.copytree(os.path.join(VERIF, 'lean'), tmp, symlinks=True,
                            ignore=shutil.ignore_patterns('Audit', '.build.lock', 'built.digest', 'built.failures.json',
                                                          'audit-*.json', '*.tmp*'))
        except shutil.Error:
            pass        # a file of the main build vanished / changed while it was copied: lake rebuilds what is missing
        try:
            os.replace(tmp, LEAN)
        except OSError:
            shutil.rmtree(tmp, ignore_errors=True)   # another process was faster
    return os.path.join(LEAN, 'PlaybackModel', 'Source.lean')


def ensure_built():
    """Regenerate `PlaybackModel/Source.lean` from the tree under test, then `lake build`, under an exclusive lock
    (concurrent checks after a fresh restore must not race).  The executable model (driver) must build: anything else is an
    infrastructure error.  A failing PROOF module is not: it is recorded in BUILD['failed_targets'] and decided by the check
    that depends on it (DESIGN.md section 5: proof-broken)."""
    if BUILD['done']:
        return
    text = _gen_source()
    os.makedirs(os.path.join(VERIF, 'lean', '.lake'), exist_ok=True)
    lock0 = open(os.path.join(VERIF, 'lean', '.build.lock'), 'w')
    fcntl.flock(lock0, fcntl.LOCK_EX)
    try:
        target = _select_lean(text)
    finally:
        fcntl.flock(lock0, fcntl.LOCK_UN)
        lock0.close()
    os.makedirs(os.path.join(LEAN, '.lake'), exist_ok=True)
    lock = open(os.path.join(LEAN, '.build.lock'), 'w')
    fcntl.flock(lock, fcntl.LOCK_EX)
    try:
        if target is not None:
            _write_if_changed(target, text)
        stamp = os.path.join(LEAN, '.lake', 'built.digest')
        fails = os.path.join(LEAN, '.lake', 'built.failures.json')
        digest = lean_digest()
        if os.path.exists(stamp) and os.path.exists(DRIVER) and open(stamp).read() == digest:
            if os.path.exists(fails):
                BUILD.update(json.load(open(fails)))
            BUILD['done'] = True
            return
        p = subprocess.run(['lake', 'build', 'driver'], cwd=LEAN, capture_output=True, text=True, timeout=3000)
        if p.returncode != 0:
            raise InfraError('the executable model does not build (lake build driver):\n' + p.stdout[-4000:] + p.stderr[-2000:])
        p = subprocess.run(['lake', 'build'], cwd=LEAN, capture_output=True, text=True, timeout=3000)
        info = {'failed_targets': [], 'errors': ''}
        if p.returncode != 0:
            out = p.stdout + p.stderr
            info['failed_targets'] = re.findall(r'^- ([\w.]+)\s*$', out, flags=re.M)
            info['errors'] = '\n'.join(l for l in out.split('\n') if l.startswith('error:'))[:6000]
            if not info['failed_targets'] or any(not t.startswith(('PlaybackProofs.', 'Properties.')) for t in info['failed_targets']):
                raise InfraError('lake build failed outside the proof modules:\n' + out[-4000:])
        with open(fails, 'w') as f:
            json.dump(info, f)
        with open(stamp, 'w') as f:
            f.write(digest)
        BUILD.update(info)
        BUILD['done'] = True
    finally:
        fcntl.flock(lock, fcntl.LOCK_UN)
        lock.close()


def _enclosing_theorems(errors):
    """names of the theorems the build errors sit in (`error: File.lean:line:col: …`)"""
    names = []
    for m in re.finditer(r'^error: ([\w/]+\.lean):(\d+):\d+', errors, flags=re.M):
        path, line = os.path.join(LEAN, m.group(1)), int(m.group(2))
        try:
            src = open(path).read().split('\n')
        except OSError:
            continue
        for k in range(min(line, len(src)) - 1, -1, -1):
            t = re.match(r'\s*(?:private\s+)?(?:theorem|lemma|example|def)\s+([\w.\']+)?', src[k])
            if t:
                name = '%s: %s' % (m.group(1), t.group(1) or 'example (line %d)' % (k + 1))
                if name not in names:
                    names.append(name)
                break
    return names


def _strip_comments(src):
    src = re.sub(r'/-.*?-/', '', src, flags=re.S)
    return re.sub(r'--.*', '', src)


def grep_forbidden():
    hits = []
    for p in _lean_sources():
        if not p.endswith('.lean'):
            continue
        for n, line in enumerate(_strip_comments(open(p).read()).split('\n'), 1):
            if FORBIDDEN.search(line):
                hits.append('%s:%d: %s' % (os.path.relpath(p, VERIF), n, line.strip()))
    return hits


def property_theorems(prop_id):
    path = os.path.join(LEAN, 'Properties', prop_id + '.lean')
    if not os.path.exists(path):
        raise InfraError('no property file ' + path)
    src = _strip_comments(open(path).read())
    return re.findall(r'^\s*theorem\s+(' + prop_id + r'_\w+)', src, flags=re.M)


def audit(prop_id, thorough=False):
    """#print axioms for every theorem `Cxx_*` of Properties/Cxx.lean; cached on the digest of the Lean sources."""
    ensure_built()
    digest = lean_digest()
    cache = os.path.join(LEAN, '.lake', 'audit-%s.json' % prop_id)
    if os.path.exists(cache):
        try:
            c = json.load(open(cache))
            if c.get('digest') == digest and (c.get('leanchecker') or not thorough):
                return c
        except Exception:
            pass
    names = property_theorems(prop_id)
    if not names:
        raise InfraError('no theorems found for ' + prop_id)
    hits = grep_forbidden()
    if hits:
        raise InfraError('forbidden tokens in Lean sources:\n' + '\n'.join(hits))
    if BUILD['failed_targets']:
        # some proof module no longer checks against the atoms read from the source: does THIS property depend on it?
        q = subprocess.run(['lake', 'build', 'Properties.' + prop_id], cwd=LEAN, capture_output=True, text=True, timeout=3000)
        if q.returncode != 0:
            out = q.stdout + q.stderr
            errs = '\n'.join(l for l in out.split('\n') if l.startswith('error:'))
            return {'digest': digest, 'theorems': names, 'axioms': {}, 'bad': {}, 'leanchecker': False,
                    'proof_broken': {'targets': re.findall(r'^- ([\w.]+)\s*$', out, flags=re.M),
                                     'theorems': _enclosing_theorems(errs), 'errors': errs[:3000]}}
    adir = os.path.join(LEAN, 'Audit')
    os.makedirs(adir, exist_ok=True)
    afile = os.path.join(adir, prop_id + '.lean')
    with open(afile, 'w') as f:
        f.write('import Properties.%s\n' % prop_id)
        for n in names:
            f.write('#print axioms Properties.%s.%s\n' % (prop_id, n))
    p = subprocess.run(['lake', 'env', 'lean', afile], cwd=LEAN, capture_output=True, text=True, timeout=1200)
    if p.returncode != 0:
        raise InfraError('axiom audit failed:\n' + p.stdout[-3000:] + p.stderr[-2000:])
    out = p.stdout.replace('\n  ', ' ')
    axioms = {}
    for m in re.finditer(r"'Properties\.%s\.(\w+)' (does not depend on any axioms|depends on axioms: \[([^\]]*)\])" % prop_id,
                         out):
        axioms[m.group(1)] = [a.strip() for a in (m.group(3) or '').replace('\n', ' ').split(',') if a.strip()]
    missing = [n for n in names if n not in axioms]
    if missing:
        raise InfraError('audit did not report on: %s\n%s' % (missing, p.stdout[-2000:]))
    bad = {n: a for n, a in axioms.items() if not set(a) <= ALLOWED_AXIOMS}
    res = {'digest': digest, 'theorems': names, 'axioms': axioms, 'bad': bad, 'leanchecker': False}
    if thorough and not bad:
        q = subprocess.run(['lake', 'env', 'leanchecker', 'Properties.' + prop_id], cwd=LEAN, capture_output=True,
                           text=True, timeout=3000)
        if q.returncode != 0:
            raise InfraError('leanchecker rejected Properties.%s:\n%s' % (prop_id, (q.stdout + q.stderr)[-3000:]))
        res['leanchecker'] = True
    with open(cache, 'w') as f:
        json.dump(res, f)
    return res


def run_driver(requests, chunks=1):
    """Send request dicts to the Lean driver, return the list of decoded `ok` payloads (InfraError on `err`)."""
    ensure_built()
    if not requests:
        return []
    n = max(1, min(chunks, len(requests) // 200 or 1))
    size = (len(requests) + n - 1) // n
    procs = []
    for i in range(n):
        part = requests[i * size:(i + 1) * size]
        data = '\n'.join(json.dumps(r, separators=(',', ':')) for r in part) + '\n'
        p = subprocess.Popen([DRIVER], stdin=subprocess.PIPE, stdout=subprocess.PIPE, stderr=subprocess.PIPE, text=True)
        procs.append((p, part, data))
    out = []
    import threading
    results = [None] * len(procs)

    def feed(i, p, data):
        results[i] = p.communicate(data)
    threads = [threading.Thread(target=feed, args=(i, p, d)) for i, (p, _, d) in enumerate(procs)]
    for t in threads:
        t.start()
    for t in threads:
        t.join()
    for i, (p, part, _) in enumerate(procs):
        so, se = results[i]
        lines = [l for l in so.split('\n') if l]
        if p.returncode != 0 or len(lines) != len(part):
            raise InfraError('driver failed (rc=%s, %d/%d lines): %s' % (p.returncode, len(lines), len(part), se[-2000:]))
        for req, l in zip(part, lines):
            j = json.loads(l)
            if 'err' in j:
                raise InfraError('driver error %r on request %s' % (j['err'], json.dumps(req)[:2000]))
            out.append(j['ok'])
    return out


# --------------------------------------------------------------------------------------------------------------
# Property interface
# --------------------------------------------------------------------------------------------------------------
class Prop(object):
    ID = 'C00'
    TRUSTED = []          # trusted base beyond the kernel (strings)
    ASSUMPTIONS = []
    RULE = ''
    CORRESPONDENCE = ''   # name of the correspondence (for replay files)
    PARALLEL = 14         # worker processes for run_impl (0 = in-process)
    TIME_BUDGET = {'quick': 240, 'thorough': 3000}
    DRIVER_CHUNKS = 8

    # -- to implement -------------------------------------------------------------------------------------------
    def corpus(self):
        """minimised past failures / witnesses of fixed defects and known findings; run first"""
        d = os.path.join(VERIF, 'corpus', self.ID)
        out = []
        if os.path.isdir(d):
            for f in sorted(os.listdir(d)):
                if f.endswith('.json'):
                    c = json.load(open(os.path.join(d, f)))
                    c = c.get('case', c)
                    c['_corpus'] = f
                    out.append(c)
        return out

    def generate(self, rng, tier):
        raise NotImplementedError

    def run_impl(self, case):
        """run the real code on the case; returns a JSON-able transcript"""
        raise NotImplementedError

    def model_requests(self, case):
        """driver requests whose answers make up the model transcript"""
        raise NotImplementedError

    def model_transcript(self, case, answers):
        return answers

    def impl_view(self, case, impl):
        """the part of the impl transcript that the model transcript must equal"""
        return impl

    def oracle(self, case, impl):
        """direct statement of the property over the implementation transcript; list of failure strings"""
        return []

    def nontrivial(self, case, impl):
        return True

    def features(self, case, impl):
        """labels counted into the evidence's input distribution"""
        return []

    def known_finding(self, case, failures):
        """id of the open known finding this failing case is an instance of, else None"""
        return None

    def shrink(self, case):
        return []

    def targeted(self, case, rng):
        """stream aimed at the diverging feature, used by the failing-input search"""
        return []

    def sample_repr(self, case):
        return case

    # -- provided -----------------------------------------------------------------------------------------------
    def run_all_impl(self, cases):
        if self.PARALLEL and len(cases) > 8:
            ctx = mp.get_context('fork')
            # the workers are forked from a parent that may hold tens of thousands of cases and results: keep its objects out
            # of the children's garbage collections (a full collection there touches - and so copies - the whole shared heap)
            import gc
            gc.collect()
            gc.freeze()
            try:
                with ctx.Pool(min(self.PARALLEL, os.cpu_count() or 1)) as pool:
                    return pool.map(_impl_worker, [(self, c) for c in cases], chunksize=max(1, len(cases) // (self.PARALLEL * 8)))
            finally:
                gc.unfreeze()
        return [_impl_worker((self, c)) for c in cases]

    def run_all_model(self, cases):
        reqs, spans = [], []
        for c in cases:
            r = self.model_requests(c)
            spans.append((len(reqs), len(reqs) + len(r)))
            reqs.extend(r)
        answers = run_driver(reqs, self.DRIVER_CHUNKS)
        return [self.model_transcript(c, answers[a:b]) for c, (a, b) in zip(cases, spans)]


class Hang(BaseException):
    """raised in the main thread of a case that has been running for longer than the property's CASE_WATCHDOG seconds: to the
    code under test it is an interrupt-style exception arriving where it blocks; harnesses record it like any other outcome"""


_WD = {'n': 0, 'cpu': 0.0, 'pos': None}


def _on_alarm(signum, frame):
    """the case timer fired.  Time alone proves nothing here (a collection of the big heap a forked worker shares with its parent,
    or a clock step of the sandbox, can make one period pass in an instant): the case counts as blocked only when two alarms in a
    row find the main thread at the very same instruction with (almost) no CPU time used by the process in between"""
    cpu = time.process_time()
    pos = (id(frame), frame.f_lasti) if frame is not None else None
    if _WD['n'] >= 1 and pos == _WD['pos'] and cpu - _WD['cpu'] < 0.5:
        _WD['n'] = 0
        raise Hang('the case made no progress for two watchdog periods (same instruction, no CPU time used)')
    _WD['n'] += 1
    _WD['cpu'] = cpu
    _WD['pos'] = pos


def _impl_worker(args):
    prop, case = args
    watchdog = prop.case_watchdog(case) if hasattr(prop, 'case_watchdog') else None
    armed = False
    try:
        if watchdog and threading.current_thread() is threading.main_thread():
            signal.signal(signal.SIGALRM, _on_alarm)
            _WD['n'] = 0
            signal.setitimer(signal.ITIMER_REAL, watchdog, watchdog)     # (repeats: a case may block more than once)
            armed = True
        return prop.run_impl(case)
    except BaseException as ex:  # the harness itself failed; surfaced as an infrastructure error
        return {'_harness_error': '%s: %s\n%s' % (type(ex).__name__, ex, traceback.format_exc()[-3000:])}
    finally:
        if armed:
            signal.setitimer(signal.ITIMER_REAL, 0)
        covprobe.flush()


def canon(x):
    return json.dumps(x, sort_keys=True, separators=(',', ':'), ensure_ascii=True, default=repr)


def case_hash(c):
    c = {k: v for k, v in c.items() if not k.startswith('_')} if isinstance(c, dict) else c
    return hashlib.sha1(canon(c).encode()).hexdigest()


def load_known_findings():
    p = os.path.join(VERIF, 'known_findings.json')
    if not os.path.exists(p):
        return []
    return json.load(open(p))['findings']


# --------------------------------------------------------------------------------------------------------------
# The run
# --------------------------------------------------------------------------------------------------------------
class Run(object):
    def __init__(self, prop, tier, seed):
        self.prop, self.tier, self.seed = prop, tier, seed
        self.t0 = time.time()
        self.violations = []
        self.known_hits = {}
        self.disagreements_checked = 0
        self.search_evals = 0
        self.violation_count = 0

    def evaluate(self, cases):
        """impl + model + oracle on a list of cases -> list of (case, impl, model, failures, agrees)"""
        impls = self.prop.run_all_impl(cases)
        for c, i in zip(cases, impls):
            if isinstance(i, dict) and '_harness_error' in i:
                raise InfraError('harness error on case %s:\n%s' % (canon(c)[:1500], i['_harness_error']))
        models = self.prop.run_all_model(cases)
        out = []
        for c, i, m in zip(cases, impls, models):
            fails = self.prop.oracle(c, i)
            agrees = canon(self.prop.impl_view(c, i)) == canon(m)
            out.append((c, i, m, fails, agrees))
        return out

    def write_replay(self, kind, case, impl, model, failures, extra=None):
        os.makedirs(os.path.join(VERIF, 'replays'), exist_ok=True)
        tag = '' if os.path.realpath(REPO) == '/repo' else '-' + os.path.basename(os.path.realpath(REPO))
        path = os.path.join(VERIF, 'replays', '%s-%s-seed%d%s-%d.json' % (self.prop.ID, self.tier, self.seed, tag, len(self.violations)))
        doc = {'property': self.prop.ID, 'seed': self.seed, 'tier': self.tier, 'kind': kind,
               'case': {k: v for k, v in case.items() if not k.startswith('_')} if isinstance(case, dict) else case,
               'driver_requests': self.prop.model_requests(case),
               'impl_transcript': impl, 'model_transcript': model, 'oracle_failures': failures}
        if kind == 'correspondence-broken':
            doc['correspondence'] = self.prop.CORRESPONDENCE or ('model of %s vs /repo' % self.prop.ID)
        if extra:
            doc.update(extra)
        with open(path, 'w') as f:
            json.dump(doc, f, indent=1, sort_keys=True, default=repr)
        return path

    def report_property_violation(self, case, impl, model, failures):
        kf = self.prop.known_finding(case, failures)
        open_ids = {f['id'] for f in load_known_findings() if f['property'] == self.prop.ID and f['status'] == 'open'}
        if kf is not None and kf in open_ids:
            self.known_hits.setdefault(kf, (case, failures))
            return
        self.violation_count += 1
        if self.violation_count > 5:
            return      # the first few replays are enough; the count goes to the evidence
        path = self.write_replay('property-violation', case, impl, model, failures)
        self.violations.append((path, False))

    def search(self, case, rng):
        """the tie broke on `case` and its oracle is silent: look for a concrete failing input"""
        deadline = time.time() + (30 if self.tier == 'quick' else 240)
        # 1. shrink while the disagreement persists
        cur = case
        progress = True
        while progress and time.time() < deadline:
            progress = False
            cands = list(self.prop.shrink(cur))[:64]
            if not cands:
                break
            for (c, i, m, fails, agrees) in self.evaluate(cands):
                self.search_evals += 1
                if fails:
                    return c, i, m, fails
                if not agrees:
                    cur, progress = c, True
                    break
        # 2. neighbours of the shrunk case and a targeted stream
        stream = list(self.prop.shrink(cur))[:64] + list(self.prop.targeted(cur, rng))
        for k in range(0, len(stream), 256):
            if time.time() > deadline:
                break
            for (c, i, m, fails, agrees) in self.evaluate(stream[k:k + 256]):
                self.search_evals += 1
                if fails:
                    return c, i, m, fails
        return cur, None, None, None

    def main(self):
        covdir = tempfile.mkdtemp(prefix='verif-cov-')
        try:
            covprobe.install(covdir, REPO)
            return self._main(covdir)
        finally:
            shutil.rmtree(covdir, ignore_errors=True)

    def _main(self, covdir):
        prop = self.prop
        a = audit(prop.ID, thorough=(self.tier == 'thorough'))
        if a['bad']:
            raise InfraError('theorems depending on non-standard axioms: %s' % a['bad'])
        broken = a.get('proof_broken')
        rng = random.Random(self.seed)
        corpus = prop.corpus()
        generated = list(prop.generate(rng, self.tier))
        cases = corpus + generated
        results = []
        B = 4096
        for k in range(0, len(cases), B):
            results.extend(self.evaluate(cases[k:k + B]))
            if time.time() - self.t0 > prop.TIME_BUDGET[self.tier]:
                raise InfraError('time budget exceeded after %d cases' % len(results))
        seen, nontrivial, feats = set(), 0, {}
        broken_reported = 0
        for (c, i, m, fails, agrees) in results:
            h = case_hash(c)
            if h not in seen:
                seen.add(h)
                if prop.nontrivial(c, i):
                    nontrivial += 1
            for ft in prop.features(c, i):
                feats[ft] = feats.get(ft, 0) + 1
            if fails:
                self.report_property_violation(c, i, m, fails)
            elif not agrees:
                self.disagreements_checked += 1
                if broken_reported >= 3:
                    continue
                broken_reported += 1
                c2, i2, m2, f2 = self.search(c, rng)
                if f2:
                    before = len(self.violations) + len(self.known_hits)
                    self.report_property_violation(c2, i2, m2, f2)
                    if len(self.violations) + len(self.known_hits) == before:
                        pass
                else:
                    path = self.write_replay('correspondence-broken', c, i, m, [],
                                             {'shrunk_case': c2, 'search_evaluations': self.search_evals})
                    self.violations.append((path, True))
        if broken and not any(not nofail for _, nofail in self.violations):
            # a proof obligation of this property no longer checks against the source and no concrete failing input was
            # found on the real code: still a violation (the property is no longer shown to hold), named as such
            if not self.violations and cases:
                # the regenerated model follows the code, so the correspondence cannot see the change: give the direct
                # oracle more inputs (the property's targeted stream) before giving up on a concrete failing input
                stream = list(prop.targeted(cases[-1], rng))[:2000]
                for k in range(0, len(stream), 512):
                    for (c, i, m, fails, agrees) in self.evaluate(stream[k:k + 512]):
                        self.search_evals += 1
                        if fails:
                            self.report_property_violation(c, i, m, fails)
                    if any(not nofail for _, nofail in self.violations):
                        break
        if broken and not any(not nofail for _, nofail in self.violations):
            path = os.path.join(VERIF, 'replays', '%s-%s-seed%d-proof-broken.json' % (prop.ID, self.tier, self.seed))
            os.makedirs(os.path.dirname(path), exist_ok=True)
            with open(path, 'w') as f:
                json.dump({'property': prop.ID, 'seed': self.seed, 'tier': self.tier, 'kind': 'proof-broken',
                           'theorems': broken['theorems'], 'failed_modules': broken['targets'], 'lean_errors': broken['errors'],
                           'source_atoms': SOURCE_ATOMS, 'cases_evaluated': len(results),
                           'note': 'the Lean model is regenerated from the decision atoms of the source (tools/gen_source_lean.py); '
                                   'with the atoms of the tree under test these theorems no longer check. No input on which the '
                                   'real code violates the property was found among the evaluated cases.'}, f, indent=1, sort_keys=True)
            self.violations = [v for v in self.violations if not v[1]] + [(path, True)]
        wall = time.time() - self.t0
        samples = [prop.sample_repr(c) for c in (generated[:2] + corpus[:1])] or [prop.sample_repr(c) for c in cases[:1]]
        ev = {
            'property_id': prop.ID, 'tier': self.tier, 'seed': self.seed, 'level': 'proof',
            'coverage': {
                'obligations': len(a['theorems']),
                'discharged': 0 if broken else len(a['theorems']) - len(a['bad']),
                'proof_broken': broken['theorems'] if broken else [],
                'source_atoms': SOURCE_ATOMS['notes'],
                'checker_cmd': 'cd lean && lake build && lake env lean Audit/%s.lean   # #print axioms for each theorem%s'
                               % (prop.ID, '; lake env leanchecker Properties.%s' % prop.ID if a.get('leanchecker') else ''),
                'trusted_base': ['Lean 4.33.0 kernel', 'axioms: ' + ', '.join(sorted({x for v in a['axioms'].values() for x in v}) or ['none'])]
                                + list(prop.TRUSTED),
                'theorems': a['axioms'],
                'leanchecker': bool(a.get('leanchecker')),
                'evaluations': len(results), 'distinct_nontrivial': nontrivial,
                'rule': prop.RULE, 'samples': samples,
                'corpus_cases': len(corpus),
                'disagreements_checked': self.disagreements_checked,
                'search_evaluations': self.search_evals,
                'distribution': dict(sorted(feats.items())),
                'known_findings_hit': sorted(self.known_hits),
            },
            'assumptions': list(prop.ASSUMPTIONS),
            'wall_s': round(wall, 2),
            'violations': max(self.violation_count, len(self.violations)),
        }
        # evidence describes /repo itself; a run against a scratch copy (VERIF_REPO, mutation testing) keeps its own
        evdir = os.path.join(VERIF, 'evidence') if os.path.realpath(REPO) == '/repo' else os.path.join(VERIF, 'replays', 'scratch-evidence')
        os.makedirs(evdir, exist_ok=True)
        # which lines of the tree under test this run executed (measured, not decisive)
        lines = covprobe.report(covdir, REPO)
        ev['coverage']['repo_lines_executed'] = {
            f: {'executed': '%d/%d' % (r['executed'], r['executable']),
                'missed': r['missed'] if len(r['missed']) <= 80 else r['missed'][:80] + ['...']}
            for f, r in lines.items() if r['executed'] > 0 and not f.endswith('__init__.py')}
        with open(os.path.join(evdir, prop.ID + '.json'), 'w') as f:
            json.dump(ev, f, indent=1, sort_keys=True, default=repr)
        kfs = {f['id']: f for f in load_known_findings() if f['property'] == prop.ID}
        for kid in sorted(self.known_hits):
            print('KNOWN-FINDING: property=%s %s' % (prop.ID, kfs[kid]['what_fails']))
        for path, nofail in self.violations:
            print('VIOLATION property=%s replay=%s%s' % (prop.ID, path, ' no-failing-input-found' if nofail else ''))
        print('%s %s seed=%d: %d cases (%d distinct non-trivial), %d theorems, %d violations, %.1fs'
              % (prop.ID, self.tier, self.seed, len(results), nontrivial, len(a['theorems']), len(self.violations), wall))
        return 1 if self.violations else 0


def replay(prop, path):
    doc = json.load(open(path))
    case = doc.get('case', doc)
    run = Run(prop, 'quick', doc.get('seed', 0))
    (c, i, m, fails, agrees), = run.evaluate([case])
    print(json.dumps({'impl': i, 'model': m, 'oracle_failures': fails, 'agrees': agrees}, indent=1, default=repr))
    if fails:
        kf = prop.known_finding(c, fails)
        open_ids = {f['id'] for f in load_known_findings() if f['property'] == prop.ID and f['status'] == 'open'}
        if kf in open_ids:
            print('KNOWN-FINDING: property=%s %s' % (prop.ID, kf))
            return 0
    if fails or not agrees:
        print('VIOLATION property=%s replay=%s%s' % (prop.ID, path, '' if fails else ' no-failing-input-found'))
        return 1
    return 0
