"""Controlled thread scheduler for the real code (no hooks in /repo).

Every *logical* thread is a real OS thread, but exactly one of them runs at any time (baton passing): a thread runs
until it reaches a scheduling point, where the scheduler decides who continues.  Scheduling points are

* every traced line (``sys.settrace``) of the *target files* executed by a registered thread - or every byte-code
  instruction for the functions named in ``opcode_funcs`` (``frame.f_trace_opcodes``);
* the cooperative stand-ins for ``threading.Lock`` / ``Event`` / ``Thread`` below, which are installed from outside
  (``cassette._lock = CoopLock(sched)`` ...) and never block the OS thread while holding the baton;
* explicit ``sched.yield_point()`` / ``sched.pause()`` / ``sched.block_until(pred)`` calls made by harness code
  (spies, stubs).

A *schedule* is the list of choices made at the decisions that had more than one candidate: each choice is an index
into the list of runnable threads (in registration order).  The same list replays the same run (``Scripted``).

Cost model of a choice (CHESS-style pre-emption bounding):
  kind 'line'  - the running thread could continue: staying is free, switching away is ONE PRE-EMPTION;
  kind 'pause' - the running thread yields voluntarily (a timed wait: the timer may fire at any time): switching is
                 free, letting it continue at once (the timer fires immediately) costs one;
  kind 'block' / 'done' / 'start' - the running thread cannot continue: every choice is free.
The default policy always takes a free choice (stay at 'line', round-robin successor otherwise), so
``explore(run_one, k)`` enumerates exactly the schedules with at most k costly choices.

Reusable: give it other target files (e.g. playback/tape_recorder.py for C04) and other thread bodies.
"""
from __future__ import annotations

import sys
import threading
import time

__all__ = ['Scheduler', 'SchedAbort', 'Scripted', 'RandomChooser', 'CoopLock', 'CoopEvent', 'CoopThread', 'explore',
           'choice_cost']


class SchedAbort(BaseException):
    """Raised inside scheduled threads to unwind them when a run is aborted (deadlock, livelock, watchdog)."""


class SchedTimeout(Exception):
    """The wall-clock watchdog expired: the machinery is stuck (infrastructure error, not a finding)."""


class _T(object):
    __slots__ = ('name', 'fn', 'sem', 'state', 'pred', 'what', 'thread', 'exc', 'index', 'unwinding', 'defer')

    def __init__(self, name, fn, index):
        self.name, self.fn, self.index = name, fn, index
        self.sem = threading.Semaphore(0)
        self.state = 'ready'        # ready | blocked | done
        self.pred = None
        self.what = None
        self.thread = None
        self.exc = None
        self.unwinding = False      # SchedAbort was raised in this thread: the scheduler leaves it alone from now on
        self.defer = False          # inside the trace function: do not raise here (see _local_trace)


def choice_cost(kind, cur_idx, idx):
    """cost (0/1) of choosing candidate `idx` at a decision of `kind` whose running thread is candidate `cur_idx`
    (None when the running thread is not a candidate)"""
    if kind == 'line':
        return 0 if (cur_idx is None or idx == cur_idx) else 1
    if kind == 'pause':
        return 1 if (cur_idx is not None and idx == cur_idx) else 0
    return 0


class Scripted(object):
    """Replays `choices` (indices into the candidate list); afterwards, or when an index is out of range (the
    schedule does not fit the run: `diverged`), follows the default policy."""

    def __init__(self, choices):
        self.choices = list(choices)
        self.diverged = False

    def __call__(self, names, cur_idx, kind, default, n):
        if n < len(self.choices):
            c = self.choices[n]
            if isinstance(c, int) and 0 <= c < len(names):
                return c
            self.diverged = True
        return default


class RandomChooser(object):
    """Random schedules from an rng.  `p` = probability of a costly choice (pre-emption at a line, immediate timer at
    a pause); free choices are uniform.  p=None: uniform over all candidates at every decision."""

    def __init__(self, rng, p=None):
        self.rng, self.p = rng, p
        self.diverged = False

    def __call__(self, names, cur_idx, kind, default, n):
        rng = self.rng
        if self.p is None or cur_idx is None or kind not in ('line', 'pause'):
            return rng.randrange(len(names))
        others = [i for i in range(len(names)) if i != cur_idx]
        costly = rng.random() < self.p
        if kind == 'line':
            return rng.choice(others) if costly else cur_idx
        return cur_idx if costly else rng.choice(others)


class Scheduler(object):
    def __init__(self, targets, chooser=None, opcode_funcs=(), max_steps=20000, watchdog_s=10.0):
        """targets: file names whose lines are scheduling points; opcode_funcs: function names (co_name) inside the
        targets traced per byte-code instruction, or True for all of them"""
        self.targets = set(targets)
        self.chooser = chooser or Scripted([])
        self.opcode_all = opcode_funcs is True
        self.opcode_funcs = set() if self.opcode_all else set(opcode_funcs)
        self.max_steps = max_steps
        self.watchdog_s = watchdog_s
        self.threads = []
        self.by_name = {}
        self.cur = None
        self.steps = 0
        self.decisions = []     # every decision with >1 candidates: dict(names, cur, kind, default, chosen)
        self.choices = []       # the schedule actually taken (chosen indices of `decisions`)
        self.events = []        # (thread name, kind, ...) emitted by the cooperative objects / the harness
        self.aborted = None     # None | 'deadlock' | 'livelock' | 'watchdog'
        self.abort_info = None
        self.running = False
        self._finished = threading.Event()
        self._tls = threading.local()

    # ---------------------------------------------------------------------------------------------- registration
    def spawn(self, name, fn):
        """register a logical thread; may be called before run() or by a scheduled thread during the run"""
        assert name not in self.by_name, 'duplicate thread name ' + name
        t = _T(name, fn, len(self.threads))
        self.threads.append(t)
        self.by_name[name] = t
        if self.running:
            self._start_os_thread(t)
        return t

    def _start_os_thread(self, t):
        t.thread = threading.Thread(target=self._body, args=(t,), name='sched:' + t.name)
        t.thread.daemon = True
        t.thread.start()

    def emit(self, kind, *rest):
        """append an observable event; returns its index (a logical clock).  Every stand-in operation emits, so this
        is also where a thread of an aborted run is unwound (SchedAbort, once per thread)"""
        if self.aborted:
            me = self.me()
            if me is not None:
                self._unwind(me)
        self.events.append((self.current_name(), kind) + rest)
        return len(self.events) - 1

    def current_name(self):
        t = getattr(self._tls, 't', None)
        return t.name if t is not None else 'main'

    def me(self):
        return getattr(self._tls, 't', None)

    # ---------------------------------------------------------------------------------------------- the run
    def run(self):
        """run all registered threads to completion under the chooser.  Returns the outcome:
        'finished' | 'deadlock' | 'livelock'.  Raises SchedTimeout when the wall-clock watchdog expires."""
        self.running = True
        for t in list(self.threads):
            self._start_os_thread(t)
        first = self._decide(None, 'start')
        if first is None:
            self.running = False
            return 'finished'
        self.cur = first
        first.sem.release()
        # the wall clock alone proves nothing (a collection of the big heap a forked worker shares with its parent can take
        # longer than the watchdog period): the run counts as stuck only when a period passes in which the process used
        # (almost) no CPU time; a busy process gets up to ten periods
        ok = False
        for _ in range(10):
            cpu0 = time.process_time()
            ok = self._finished.wait(self.watchdog_s)
            if ok or time.process_time() - cpu0 < 0.5:
                break
        if not ok:
            self.aborted = 'watchdog'
            self.abort_info = {'blocked': self._blocked_info(), 'choices': list(self.choices), 'stacks': self._stacks(),
                               'holder': self.cur.name if self.cur is not None else None}
            self._release_all()
            err = SchedTimeout('scheduler watchdog (%.0fs) expired; choices so far: %r' % (self.watchdog_s, self.choices))
            err.info = self.abort_info
            raise err
        for t in self.threads:
            if t.thread is not None:
                t.thread.join(self.watchdog_s)
                if t.thread.is_alive():
                    raise SchedTimeout('thread %s did not unwind after %s' % (t.name, self.aborted or 'the run'))
        self.running = False
        return self.aborted or 'finished'

    def _body(self, t):
        self._tls.t = t
        t.sem.acquire()
        try:
            if self.aborted:
                return
            sys.settrace(self._global_trace)
            try:
                t.fn()
            finally:
                sys.settrace(None)
        except SchedAbort:
            pass
        except BaseException as ex:     # the thread body died: recorded, reported by the harness
            t.exc = ex
        finally:
            t.state = 'done'
            if self.aborted:
                self._release_next()
            else:
                try:
                    nxt = self._decide(t, 'done')
                    if nxt is None:
                        if all(x.state == 'done' for x in self.threads):
                            self._finished.set()
                        else:
                            self._abort('deadlock')
                            self._release_next()
                    else:
                        self.cur = nxt
                        nxt.sem.release()
                except SchedAbort:
                    pass

    # ---------------------------------------------------------------------------------------------- tracing
    def _global_trace(self, frame, event, arg):
        code = frame.f_code
        if code.co_filename not in self.targets:
            return None
        if self.opcode_all or code.co_name in self.opcode_funcs:
            frame.f_trace_opcodes = True
        return self._local_trace

    def _local_trace(self, frame, event, arg):
        if self.aborted:
            # The trace function NEVER raises: CPython 3.12.1 crashes when a trace function raises while the thread is
            # already handling an exception in a byte-code traced frame, or at certain instructions (e.g. the set-up of a
            # `with` block).  An aborted run is unwound by SchedAbort raised from the next ordinary call into the
            # scheduler (lock / event / join stand-ins, explicit yield points of the harness); a thread that never makes
            # one is caught by the wall-clock watchdog.
            return None
        if event == 'opcode' or (event == 'line' and not frame.f_trace_opcodes):
            me = self.me()
            if me is not None:
                me.defer = True
                try:
                    self.yield_point('line')
                finally:
                    me.defer = False
        return self._local_trace

    # ---------------------------------------------------------------------------------------------- decisions
    def _candidates(self):
        out = []
        for t in self.threads:
            if t.state == 'ready' or (t.state == 'blocked' and t.pred()):
                out.append(t)
        return out

    def _decide(self, me, kind):
        cands = self._candidates()
        if not cands:
            return None
        if len(cands) == 1:
            return cands[0]
        cur_idx = None
        if me is not None and me.state == 'ready':
            for i, t in enumerate(cands):
                if t is me:
                    cur_idx = i
        if kind == 'line' and cur_idx is not None:
            default = cur_idx
        else:
            # round-robin successor of the running thread in registration order
            base = me.index if me is not None else -1
            default = 0
            for i, t in enumerate(cands):
                if t.index > base:
                    default = i
                    break
            if cur_idx is not None and default == cur_idx:      # 'pause': prefer somebody else
                default = (cur_idx + 1) % len(cands)
        names = [t.name for t in cands]
        chosen = self.chooser(names, cur_idx, kind, default, len(self.choices))
        if not (isinstance(chosen, int) and 0 <= chosen < len(cands)):
            chosen = default
        self.decisions.append({'names': names, 'cur': cur_idx, 'kind': kind, 'default': default, 'chosen': chosen})
        self.choices.append(chosen)
        return cands[chosen]

    def _unwind(self, me):
        if me is not None:
            if me.unwinding:
                return          # already on its way out: scheduler calls made while unwinding are no-ops
            if me.defer:
                return          # inside the trace function: the next ordinary scheduler call raises (_local_trace)
            me.unwinding = True
        raise SchedAbort()

    def _switch(self, me, nxt):
        if nxt is me:
            return
        self.cur = nxt
        nxt.sem.release()
        me.sem.acquire()
        if self.aborted:
            self._unwind(me)

    def _tick(self, me):
        if self.aborted:
            self._unwind(me)
            return False
        self.steps += 1
        if self.steps > self.max_steps:
            self._abort('livelock')
            self._unwind(me)
            return False
        return True

    def yield_point(self, kind='line'):
        """the running thread offers to be pre-empted"""
        me = self.me()
        if me is None or not self.running:
            return
        if self._tick(me):
            self._switch(me, self._decide(me, kind))

    def pause(self):
        """voluntary yield (timed wait / sleep): others are preferred, continuing at once is the costly choice"""
        self.yield_point('pause')

    def block_until(self, pred, what='?'):
        """cooperative blocking: the running thread does not continue before pred() holds"""
        me = self.me()
        if me is None or not self.running:
            if not pred():
                raise RuntimeError('block_until(%s) outside a scheduled thread would block for ever' % what)
            return
        while not pred():
            if not self._tick(me):
                return          # unwinding: do not block
            me.state, me.pred, me.what = 'blocked', pred, what
            nxt = self._decide(me, 'block')
            if nxt is None:
                self._abort('deadlock')
                self._unwind(me)
                return
            self._switch(me, nxt)
            me.state, me.pred, me.what = 'ready', None, None

    # ---------------------------------------------------------------------------------------------- aborting
    def _stacks(self):
        """where the OS thread of every unfinished logical thread stands now (innermost frame first)"""
        frames = sys._current_frames()
        out = {}
        for t in self.threads:
            f = frames.get(t.thread.ident) if t.thread is not None else None
            stack = []
            while f is not None and len(stack) < 60:
                stack.append([f.f_code.co_filename, f.f_lineno, f.f_code.co_name])
                f = f.f_back
            if t.state != 'done':
                out[t.name] = stack
        return out

    def _blocked_info(self):
        return [{'thread': t.name, 'state': t.state, 'waits_for': t.what} for t in self.threads if t.state != 'done']

    def _abort(self, why):
        if self.aborted:
            return
        self.aborted = why
        self.abort_info = {'blocked': self._blocked_info(), 'choices': list(self.choices), 'steps': self.steps}
        # the calling thread now raises SchedAbort and unwinds; when it is done it wakes the next one (_release_next):
        # the threads keep running ONE AT A TIME while they unwind (concurrent unwinding of traced frames while other
        # threads switch tracing off crashed CPython 3.12.1)

    def _release_next(self):
        for t in self.threads:
            if t.state != 'done':
                t.sem.release()
                return
        self._finished.set()

    def _release_all(self):
        for t in self.threads:
            if t.state != 'done':
                t.sem.release()


# --------------------------------------------------------------------------------------------------------------
# cooperative stand-ins
# --------------------------------------------------------------------------------------------------------------
class CoopLock(object):
    """stand-in for threading.Lock; events: acquire / release / contend (found held: who holds it, plus the value of
    the optional `probe()` at that moment)"""

    def __init__(self, sched, name='lock', probe=None):
        self.s, self.name, self.owner, self.probe = sched, name, None, probe

    def acquire(self, blocking=True, timeout=-1):
        s = self.s
        me = s.current_name()
        if self.owner is not None:
            s.emit('contend', self.name, self.owner, self.probe() if self.probe else None)
            if not blocking:
                return False
            s.block_until(lambda: self.owner is None, 'lock %s held by %s' % (self.name, self.owner))
        self.owner = me
        s.emit('acquire', self.name)
        return True

    def release(self):
        if self.s.aborted:
            self.owner = None
            return
        if self.owner is None:
            raise RuntimeError('release unlocked lock')
        self.owner = None
        self.s.emit('release', self.name)

    def locked(self):
        return self.owner is not None

    def __enter__(self):
        self.acquire()
        return True

    def __exit__(self, *a):
        self.release()
        return False


class CoopEvent(object):
    """stand-in for threading.Event; a timed wait is a voluntary yield: the timer fires whenever the scheduler lets the
    waiting thread continue.  events: set / is_set(value) / wait / wake(value)"""

    def __init__(self, sched, name='event'):
        self.s, self.name, self.flag = sched, name, False

    def set(self):
        self.flag = True
        self.s.emit('set', self.name)

    def clear(self):
        self.flag = False
        self.s.emit('clear', self.name)

    def is_set(self):
        self.s.emit('is_set', self.name, self.flag)
        return self.flag

    isSet = is_set

    def wait(self, timeout=None):
        s = self.s
        s.emit('wait', self.name)
        if not self.flag:
            if timeout is None:
                s.block_until(lambda: self.flag, 'event %s' % self.name)
            else:
                s.pause()
        s.emit('wake', self.name, self.flag)
        return self.flag


class CoopThread(object):
    """stand-in for a threading.Thread object: start() registers the target with the scheduler, join() blocks
    cooperatively (the timeout is treated as 'long enough': expiry of a join timeout is wall-clock behaviour)"""

    def __init__(self, sched, name, target):
        self.s, self.name, self.target = sched, name, target
        self.t = None
        self.daemon = True

    def setDaemon(self, d):
        self.daemon = d

    def start(self):
        if self.t is not None:
            raise RuntimeError('threads can only be started once')
        self.t = self.s.spawn(self.name, self.target)
        self.s.emit('spawn', self.name)

    def is_alive(self):
        return self.t is not None and self.t.state != 'done'

    def join(self, timeout=None):
        if self.t is None:
            raise RuntimeError('cannot join thread before it is started')
        self.s.emit('join', self.name)
        self.s.block_until(lambda: self.t.state == 'done', 'join %s' % self.name)
        self.s.emit('joined', self.name)


# --------------------------------------------------------------------------------------------------------------
# exhaustive enumeration with a bound on costly choices
# --------------------------------------------------------------------------------------------------------------
def explore(run_batch, k, max_runs=None):
    """Enumerate every schedule with at most `k` costly choices (pre-emptions).

    run_batch(list of choice prefixes) -> list of results, each with result['decisions'] = the run's decision list
    (dicts with names/cur/kind/default/chosen as recorded by Scheduler).  A prefix is replayed with Scripted(prefix)
    and continued with the default (free) policy.  Yields (prefix, cost, result); breadth-first so that a batch can be
    evaluated in parallel.  Returns early (after yielding a final None) when max_runs is reached."""
    frontier = [([], 0)]
    runs = 0
    while frontier:
        if max_runs is not None and runs + len(frontier) > max_runs:
            frontier = frontier[:max(0, max_runs - runs)]
            truncated = True
        else:
            truncated = False
        results = run_batch([p for p, _ in frontier])
        nxt = []
        for (prefix, cost), res in zip(frontier, results):
            runs += 1
            yield prefix, cost, res
            decs = res['decisions']
            for d in range(len(prefix), len(decs)):
                dec = decs[d]
                taken = [x['chosen'] for x in decs[:d]]
                for alt in range(len(dec['names'])):
                    if alt == dec['chosen']:
                        continue
                    c = cost + choice_cost(dec['kind'], dec['cur'], alt)
                    if c <= k:
                        nxt.append((taken + [alt], c))
        if truncated:
            yield None, None, None
            return
        frontier = nxt
