"""Operations whose data handler / metadata extractor themselves call intercepted functions (not modelled: handlers and extractors
are pure functions in the Lean model).  Used by C02 (a replay answers every interception from the recording: no body runs, also
for inputs a data handler asks for) and C03 (the recorded outputs are exactly what the operation sent: what a metadata extractor
sends after the operation is not one of them).

case: {'kind': 'effects', 'model': False, 'n': int, 'handler_calls_input': bool, 'extractor_calls_output': bool,
       'outs': [values sent by the operation], 'end': 'ret' | 'raise'}"""


def gen_effects_case(rng):
    return {'kind': 'effects', 'model': False, 'n': rng.randint(0, 5), 'handler_calls_input': rng.random() < 0.7,
            'extractor_calls_output': rng.random() < 0.6, 'outs': [rng.choice(['a', 'b', 7]) for _ in range(rng.randint(0, 3))],
            'end': rng.choice(['ret', 'ret', 'raise'])}


def run_effects_case(case):
    from playback.tape_recorder import TapeRecorder
    from playback.tape_cassettes.in_memory.in_memory_tape_cassette import InMemoryTapeCassette
    from playback.interception.input_interception import InputInterceptionDataHandler
    cassette = InMemoryTapeCassette()
    tr = TapeRecorder(cassette)
    tr.enable_recording()
    journal = []
    calls_input = case['handler_calls_input']

    class WhereAndWhat(InputInterceptionDataHandler):
        """records where the content was found next to the content; asks the (intercepted) locator for it"""

        def prepare_input_for_recording(self, interception_key, result, args, kwargs):
            return {'where': args[0].locate(args[1]) if calls_input else 'nowhere', 'what': result}

        def restore_input_from_recording(self, recorded_data, args, kwargs):
            return [args[0].locate(args[1]) if calls_input else 'nowhere', recorded_data['what']]

    holder = {}

    def extractor(*a, **k):
        if case['extractor_calls_output']:
            holder['op'].audit('from-the-extractor')
        return {'n': 1}

    class Op(object):
        @tr.intercept_input('locate')
        def locate(self, n):
            journal.append(['locate', n])
            return 'bucket-%d' % n

        @tr.intercept_input('fetch', data_handler=WhereAndWhat())
        def fetch(self, n):
            journal.append(['fetch', n])
            return 'content-%d' % n

        @tr.intercept_output('audit')
        def audit(self, what):
            journal.append(['audit', what])
            return 'ok'

        @tr.operation(metadata_extractor=extractor)
        def run(self):
            got = []
            for v in case['outs']:
                self.audit(v)
            got.append(self.fetch(case['n']))
            self.audit('end')
            if case['end'] == 'raise':
                raise ValueError('op')
            return got
    op = holder['op'] = Op()

    def end_of(thunk):
        try:
            return ['ret', thunk()]
        except Exception as ex:
            return ['exc', type(ex).__name__]
    rec_end = end_of(op.run)
    rid = cassette.get_last_recording_id()
    if rid is None:
        return {'rec_end': rec_end, 'saved': False}
    rec = cassette.get_recording(rid)
    recorded_outputs = sorted([k, rec.get_data(k)['args'][-1]] for k in rec.get_all_keys() if k.startswith('output: audit') and k.endswith('.output'))
    del journal[:]
    try:
        pb = tr.play(rid, lambda recording: op.run())
        replay = ['played', sorted(o.key for o in pb.playback_outputs)]
    except Exception as ex:
        replay = ['raised', type(ex).__name__]
    return {'rec_end': rec_end, 'saved': True, 'recorded_outputs': recorded_outputs, 'bodies_run_in_replay': list(journal), 'replay': replay}


def sent_by_operation(case):
    vals = list(case['outs']) + ['end']
    return sorted(['output: audit #%d.output' % (i + 1), v] for i, v in enumerate(vals))
