"""Which lines of the tree under test did this check actually execute?  (evidence only: it decides nothing)

A `sys.monitoring` LINE callback (Python 3.12) records every first execution of a line of <REPO>/playback/** and disables
itself for that location, so the cost is one callback per line per process.  Forked workers inherit the probe; every
process appends the lines it saw first to <dir>/<pid>.lines when `flush()` is called (after every case in pool workers,
at exit elsewhere).  Off when the interpreter has no sys.monitoring or VERIF_NO_COVPROBE is set.
"""
import atexit
import os
import sys

_state = {'dir': None, 'root': None, 'new': [], 'on': False}
TOOL = 3            # sys.monitoring.PROFILER_ID + 1: a free tool id (coverage.py uses COVERAGE_ID = 1, debuggers 0)


def install(outdir, repo_root):
    if _state['on'] or os.environ.get('VERIF_NO_COVPROBE') or not hasattr(sys, 'monitoring'):
        return False
    mon = sys.monitoring
    try:
        mon.use_tool_id(TOOL, 'verif-covprobe')
    except ValueError:
        return False
    root = os.path.join(os.path.realpath(repo_root), 'playback') + os.sep
    _state.update(dir=outdir, root=root, on=True)
    os.makedirs(outdir, exist_ok=True)
    new = _state['new']

    def on_line(code, line):
        fn = code.co_filename
        if fn.startswith(root):
            new.append((fn[len(root):], line))
        return mon.DISABLE

    mon.register_callback(TOOL, mon.events.LINE, on_line)
    mon.set_events(TOOL, mon.events.LINE)
    atexit.register(flush)
    os.environ['VERIF_COVPROBE_DIR'] = outdir
    os.environ['VERIF_COVPROBE_ROOT'] = repo_root
    return True


def install_from_env():
    """for helper processes started with subprocess (equalizer runner, hash-seed children)"""
    d, r = os.environ.get('VERIF_COVPROBE_DIR'), os.environ.get('VERIF_COVPROBE_ROOT')
    if d and r:
        install(d, r)


def flush():
    new = _state['new']
    if not _state['on'] or not new:
        return
    try:
        with open(os.path.join(_state['dir'], '%d.lines' % os.getpid()), 'a') as f:
            f.write(''.join('%s:%d\n' % x for x in new))
    except OSError:
        pass
    del new[:]


def executable_lines(path):
    """line numbers that carry code, from the compiled code objects (what LINE events can report)"""
    try:
        with open(path, 'rb') as f:
            code = compile(f.read(), path, 'exec')
    except (OSError, SyntaxError):
        return set()
    out, todo = set(), [code]
    while todo:
        c = todo.pop()
        out.update(l for _, _, l in c.co_lines() if l)
        todo.extend(k for k in c.co_consts if hasattr(k, 'co_lines'))
    return out


def report(outdir, repo_root, files=None):
    """{relative file: {'executed': n, 'executable': m, 'missed': [lines]}} for the files of <repo>/playback that were touched
    (or the given ones)"""
    flush()
    seen = {}
    if os.path.isdir(outdir):
        for name in os.listdir(outdir):
            if name.endswith('.lines'):
                with open(os.path.join(outdir, name)) as f:
                    for row in f:
                        fn, _, ln = row.rstrip('\n').rpartition(':')
                        if fn:
                            seen.setdefault(fn, set()).add(int(ln))
    root = os.path.join(os.path.realpath(repo_root), 'playback')
    out = {}
    for fn in sorted(set(seen) | set(files or [])):
        ex = executable_lines(os.path.join(root, fn))
        # module/class/def header lines execute at import time, often before the probe starts: count only what can be missed
        got = seen.get(fn, set()) & ex
        out['playback/' + fn] = {'executed': len(got), 'executable': len(ex), 'missed': sorted(ex - got)}
    return out
