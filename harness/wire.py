"""Neutral JSON ("wire") form of Python values, shared by the Python side and the Lean driver.

  None -> null, bool -> true/false, int -> {"n":[i,0]}, float -> {"n":[num,e]} (value num/2^e, exact),
  str -> {"s":..}, list -> {"l":[..]}, tuple -> {"t":[..]}, dict (str keys) -> {"d":[[k,v]..]} in insertion order,
  class -> {"c":name}
"""
import math

CLASSES = {'dict': dict, 'str': str, 'int': int, 'ValueError': ValueError, 'list': list}


def to_wire(v):
    if v is None or isinstance(v, bool):
        return v
    if isinstance(v, int):
        return {'n': [str(v), 0]}
    if isinstance(v, float):
        assert math.isfinite(v)
        num, den = v.as_integer_ratio()
        return {'n': [str(num), den.bit_length() - 1]}
    if isinstance(v, str):
        return {'s': v}
    if isinstance(v, list):
        return {'l': [to_wire(x) for x in v]}
    if isinstance(v, tuple):
        return {'t': [to_wire(x) for x in v]}
    if isinstance(v, dict):
        return {'d': [[k, to_wire(x)] for k, x in v.items()]}
    if isinstance(v, type):
        return {'c': v.__name__}
    raise TypeError('no wire form for %r' % (v,))


def to_py_shared(w, _pool=None):
    """like to_py, but equal list / dict sub-values are ONE object (the way a caller writes `not_set = [False, None]` once and
    uses it under two keys of a filter): what a filter means must not depend on that"""
    import json
    pool = {} if _pool is None else _pool
    if isinstance(w, dict) and ('l' in w or 'd' in w):
        key = json.dumps(w, sort_keys=True)
        if key in pool:
            return pool[key]
        v = [to_py_shared(x, pool) for x in w['l']] if 'l' in w else {k: to_py_shared(x, pool) for k, x in w['d']}
        pool[key] = v
        return v
    if isinstance(w, dict) and 't' in w:
        return tuple(to_py_shared(x, pool) for x in w['t'])
    return to_py(w)


def to_py(w):
    if w is None or isinstance(w, bool):
        return w
    if 'n' in w:
        num, e = int(w['n'][0]), w['n'][1]
        return num if e == 0 else num / float(2 ** e)
    if 's' in w:
        return w['s']
    if 'l' in w:
        return [to_py(x) for x in w['l']]
    if 't' in w:
        return tuple(to_py(x) for x in w['t'])
    if 'd' in w:
        return {k: to_py(x) for k, x in w['d']}
    if 'c' in w:
        return CLASSES[w['c']]
    raise TypeError('bad wire %r' % (w,))
