"""Runs a *history* case (operations and replays on one TapeRecorder) on the REAL code and produces the same transcript
shape as the Lean handler `rec.hist` (Drive/Recorder.lean).  Case format: see `RecorderHistory` in props/recorder_common.py.
"""
import copy
import os
import shutil
import tempfile

from harness import dyn
from harness.rvals import to_py, canon, canon_wire

MISSING_ID = 9999


Unser = dyn.Unser


class _Return(Exception):
    def __init__(self, value):
        self.value = value


class Ctx(object):
    def __init__(self):
        self.journal = []
        self.obj = None
        self.decorated = True
        self.clock = []
        self.draws = []
        self.drawn = 0
        self.run = None
        self.last_body = None
        self.identity_ok = True
        self.outcomes = []
        self.depth = 0


def make_spy(inner):
    from playback.tape_cassette import TapeCassette

    class Spy(TapeCassette):
        def __init__(self, inner):
            self.inner = inner
            self.log = []
            self.order = {}
            self.objects = {}
            self.fail_save = False

        def create_new_recording(self, category):
            r = self.inner.create_new_recording(category)
            self.order[r.id] = len(self.order)
            self.objects[r.id] = r
            self.log.append(('create', r.id))
            return r

        def _save_recording(self, recording):
            raise AssertionError('not used')

        def save_recording(self, recording):
            self.log.append(('save', recording.id))
            if self.fail_save:
                raise IOError('disk full')
            return self.inner.save_recording(recording)

        def abort_recording(self, recording=None):
            self.log.append(('abort', recording.id))
            return self.inner.abort_recording(recording)

        def get_recording(self, recording_id):
            self.log.append(('get', recording_id))
            return self.inner.get_recording(recording_id)

        def get_recording_metadata(self, recording_id):
            return self.inner.get_recording_metadata(recording_id)

        def iter_recording_ids(self, *a, **k):
            return self.inner.iter_recording_ids(*a, **k)

        def extract_recording_category(self, recording_id):
            return self.inner.extract_recording_category(recording_id)

        def close(self):
            return self.inner.close()

    return Spy(inner)


class Sim(object):
    def __init__(self, case):
        self.case = case
        self.ctx = Ctx()
        self.tmpdir = None
        self.handed = []
        kind = case.get('cassette', 'memory')
        if kind == 'memory':
            from playback.tape_cassettes.in_memory.in_memory_tape_cassette import InMemoryTapeCassette
            inner = InMemoryTapeCassette()
        elif kind == 'file':
            from playback.tape_cassettes.file_based.file_based_tape_cassette import FileBasedTapeCassette
            self.tmpdir = tempfile.mkdtemp(prefix='verif-rec-')
            inner = FileBasedTapeCassette(os.path.join(self.tmpdir, 'c'))
        elif kind == 's3':
            from harness import fake_s3
            fake_s3.reset()
            fake_s3.install()
            from playback.tape_cassettes.s3.s3_tape_cassette import S3TapeCassette
            inner = S3TapeCassette('bucket', key_prefix=case.get('s3prefix', ''), read_only=False)
        elif kind == 'async':
            # recording goes through the asynchronous wrapper, replays read the wrapped (in-memory) store: what the recorder
            # asks for is what the other cassettes are asked for; the flusher sleeps, the harness flushes when it looks
            from playback.tape_cassette import TapeCassette
            from playback.tape_cassettes.in_memory.in_memory_tape_cassette import InMemoryTapeCassette
            from playback.tape_cassettes.asynchronous.async_record_only_tape_cassette import AsyncRecordOnlyTapeCassette
            store = InMemoryTapeCassette()
            wrapper = AsyncRecordOnlyTapeCassette(store, flush_interval=3600, timeout_on_close=30)
            wrapper.start()
            self.async_wrapper = wrapper

            class ThroughWrapper(TapeCassette):
                def create_new_recording(self, category):
                    return wrapper.create_new_recording(category)

                def _save_recording(self, recording):
                    raise AssertionError('not used')

                def save_recording(self, recording):
                    return wrapper.save_recording(recording)

                def abort_recording(self, recording):
                    return wrapper.abort_recording(recording)

                def get_recording(self, recording_id):
                    wrapper._flush_recording()
                    return store.get_recording(recording_id)

                def get_recording_metadata(self, recording_id):
                    wrapper._flush_recording()
                    return store.get_recording_metadata(recording_id)

                def iter_recording_ids(self, *a, **k):
                    wrapper._flush_recording()
                    return store.iter_recording_ids(*a, **k)

                def extract_recording_category(self, recording_id):
                    return store.extract_recording_category(recording_id)

                def close(self):
                    return wrapper.close()
            inner = ThroughWrapper()
        else:
            raise ValueError(kind)
        self.spy = make_spy(inner)
        from playback.tape_recorder import TapeRecorder
        import playback.tape_recorder as trm
        self.tr = TapeRecorder(self.spy)
        ctx = self.ctx

        class Scripted(object):
            def random(self):
                ctx.drawn += 1
                if ctx.draws:
                    n, d = ctx.draws.pop(0)
                    return float(n) / float(d)
                return 0.0
        if case.get('seed') is None:
            self.tr._random = Scripted()
        else:
            # the recorder's own seeded generator; draws are counted by a thin wrapper
            real = __import__('random').Random(case['seed'])

            class Counting(object):
                def random(self):
                    ctx.drawn += 1
                    return real.random()
            self.tr._random = Counting()

        def clock():
            return float(ctx.clock.pop(0)) if ctx.clock else 0.0
        trm.time = clock
        self.trm = trm
        self.classes = {}
        self.twins = {}
        for cname, cspec in sorted(case['classes'].items(), key=lambda kv: (kv[1].get('base') is not None, kv[0])):
            self.classes[cname] = self.build_class(cname, cspec, True)
            self.twins[cname] = self.build_class(cname + 'Twin', cspec, False)

    def store_digest(self):
        """digest of everything the cassette holds (serialized form)"""
        import hashlib
        h = hashlib.sha1()
        inner = self.spy.inner
        kind = self.case.get('cassette', 'memory')
        if kind == 'memory':
            for k in sorted(inner._recordings):
                h.update(k.encode('utf-8'))
                h.update(inner._recordings[k].encode('utf-8'))
        elif kind == 'file':
            for f in sorted(os.listdir(inner.directory)):
                h.update(f.encode('utf-8'))
                with open(os.path.join(inner.directory, f), 'rb') as fh:
                    h.update(fh.read())
        else:
            from harness import fake_s3
            st = fake_s3.store('bucket')
            for k in sorted(st.objects):
                h.update(k.encode('utf-8'))
                h.update(st.objects[k][0])
            h.update(repr(len(st.log)).encode())
        return h.hexdigest()

    def fresh_recorder(self):
        """a brand new TapeRecorder over the same cassette, PRNG script and clock; class parameters re-registered"""
        from playback.tape_recorder import TapeRecorder
        rnd = self.tr._random
        self.tr = TapeRecorder(self.spy)
        self.tr._random = rnd
        for cname, cspec in sorted(self.case['classes'].items(), key=lambda kv: (kv[1].get('base') is not None, kv[0])):
            self.classes[cname] = self.build_class(cname, cspec, True)

    def close(self):
        import time as _t
        self.trm.time = _t.time
        if getattr(self, 'async_wrapper', None) is not None:
            self.async_wrapper.close()
        if self.tmpdir:
            shutil.rmtree(self.tmpdir, ignore_errors=True)

    # ---------------------------------------------------------------------------------------------------------
    def ev(self, env, e):
        if 'c' in e:
            w = e['c']
            if isinstance(w, dict) and 'unser' in w:
                return Unser()
            v = to_py(w)
            if isinstance(v, (list, dict)):
                self.handed.append(v)       # what the program hands to the recorder stays the program's to mutate afterwards
            return v
        if 'v' in e:
            kind, v = env.get(e['v'], ('ret', '<unbound>'))
            if self.case.get('share'):
                return v
            # fresh copies: an object reachable from two keys of one recording is encoded as a py/id reference, which
            # jsonpickle 0.9.3 resolves wrongly on this interpreter (known finding K7) - outside the faithful domain
            if kind == 'exc':
                return type(v)('copy')
            return copy.deepcopy(v)
        if 't' in e:
            return tuple(self.ev(env, x) for x in e['t'])
        raise ValueError(e)

    def interp(self, script, env, obj, decorated):
        """statement interpreter; `_Return` carries a `ret`"""
        tr = self.tr
        ctx = self.ctx
        for st in script:
            op = st['op']
            if op == 'ret':
                raise _Return(self.ev(env, st['e']))
            elif op == 'raise':
                raise dyn.EXC[st['t']]('raised by script')
            elif op == 'interrupt':
                raise dyn.INTERRUPTS[st['t']]()
            elif op == 'reraise':
                kind, v = env.get(st['x'], ('ret', None))
                if kind == 'exc':
                    raise (v if self.case.get('share') else type(v)('re-raised'))
            elif op == 'nestedop':
                # an operation invoked from inside an operation of the same recorder (known finding K6)
                kls = (self.classes if decorated else self.twins)[st['cls']]
                saved_obj = ctx.obj
                try:
                    env[st['x']] = ('ret', kls().execute(st['script']))
                except Exception as ex:
                    env[st['x']] = ('exc', ex)
                ctx.obj = saved_obj
            elif op == 'let':
                env[st['x']] = ('ret', self.ev(env, st['e']))
            elif op == 'append':
                env[st['x']][1].append(self.ev(env, st['e']))     # in-place mutation of a value the program holds
            elif op == 'stamp':
                # an intercepted body that changes the argument it was handed, in place (a driver stamping an id on the document)
                kind, v = env.get(st['x'], ('ret', None))
                if isinstance(v, list):
                    v.append('<stamped by the callee>')
                elif isinstance(v, dict):
                    v['<stamped by the callee>'] = 1
            elif op in ('discard', 'force', 'enable', 'disable'):
                if decorated:
                    # (`enable` / `disable`: the service's kill switch flipped while the operation runs)
                    fn = {'discard': tr.discard_recording, 'force': tr.force_sample_recording,
                          'enable': tr.enable_recording, 'disable': tr.disable_recording}[op]
                    if st.get('thread'):
                        # the operation delegates the call to a helper thread and waits for it (no concurrency: the main
                        # thread is blocked in join): the recorder-wide decision must not depend on which thread asked
                        import threading
                        t = threading.Thread(target=fn)
                        t.start()
                        t.join()
                    else:
                        fn()
            elif op == 'rec':
                if decorated:
                    tr.record_data(st['k'], self.ev(env, st['e']))
            elif op == 'play':
                if decorated:
                    try:
                        env[st['x']] = ('ret', tr.play_data(st['k']))
                    except Exception as ex:
                        env[st['x']] = ('exc', ex)
                else:
                    env[st['x']] = ('ret', None)
            elif op == 'ifexc':
                kind, _ = env.get(st['x'], ('ret', None))
                self.interp(st['then'] if kind == 'exc' else st['else'], env, obj, decorated)
            elif op == 'ifeq':
                kind, v = env.get(st['x'], ('ret', '<unbound>'))
                txt = canon(v)
                self.interp(st['then'] if txt == canon(self.ev(env, st['e'])) else st['else'], env, obj, decorated)
            elif op == 'call':
                sname = st['s']
                sp = self.case['sites'][sname]
                args = [self.ev(env, a) for a in st.get('args', [])]
                kw = {k: self.ev(env, a) for k, a in st.get('kw', [])}
                ctx.last_body = None
                try:
                    if sp.get('flavor') == 'property':
                        v = getattr(obj, sname)
                    elif sp.get('flavor') == 'static':
                        v = getattr(type(obj), sname)(*args, **kw)
                    else:
                        v = getattr(obj, sname)(*args, **kw)
                    if ctx.last_body is not None and ctx.last_body[0] == sname and ctx.last_body[1] is not v:
                        ctx.identity_ok = False
                    env[st['x']] = ('ret', v)
                    if ctx.depth == 0:      # calls made by the operation itself (not from inside a wrapped body)
                        ctx.outcomes.append(['ret', canon(v)])
                except Exception as ex:
                    env[st['x']] = ('exc', ex)
                    if ctx.depth == 0:
                        ctx.outcomes.append(['exc', type(ex).__name__])
            else:
                raise ValueError(op)

    def run_script(self, script, env, obj, decorated):
        try:
            self.interp(script, env, obj, decorated)
        except _Return as r:
            return r.value
        return None

    def make_body(self, sname, sp, static, decorated):
        sim, ctx = self, self.ctx

        def body(*args, **kwargs):
            real = list(args if static else args[1:])
            ctx.journal.append([sname, [canon(a) for a in real], sorted([k, canon(v)] for k, v in kwargs.items())])
            env = {}
            for i, a in enumerate(real):
                env['a%d' % i] = ('ret', a)
            for k, v in kwargs.items():
                env['kw:' + k] = ('ret', v)
            ctx.depth += 1
            try:
                r = sim.run_script(sp['body'], env, ctx.obj, decorated)
            finally:
                ctx.depth -= 1
            ctx.last_body = (sname, r)
            return r
        return body

    def build_class(self, cname, cspec, decorated):
        sim, ctx, tr = self, self.ctx, self.tr
        from playback.tape_recorder import CapturedArg, RecordingParameters
        from playback.interception.input_interception import InputInterceptionDataHandler
        from playback.interception.output_interception import OutputInterceptionDataHandler

        class WrapIn(InputInterceptionDataHandler):
            def prepare_input_for_recording(self, interception_key, result, args, kwargs):
                return {'W': result}

            def restore_input_from_recording(self, recorded_data, args, kwargs):
                return recorded_data['W']

        class FailIn(InputInterceptionDataHandler):
            def prepare_input_for_recording(self, interception_key, result, args, kwargs):
                raise RuntimeError('handler')

            def restore_input_from_recording(self, recorded_data, args, kwargs):
                return recorded_data

        class WrapOut(OutputInterceptionDataHandler):
            def __init__(self, static):
                self.static = static

            def prepare_output_for_recording(self, interception_key, args, kwargs):
                return {'W': copy.deepcopy(tuple(args))}      # a handler that serialises what was sent, at the time it is sent

            def restore_output_from_recording(self, recorded_data):
                return recorded_data

        class FailOut(OutputInterceptionDataHandler):
            def prepare_output_for_recording(self, interception_key, args, kwargs):
                raise RuntimeError('handler')

            def restore_output_from_recording(self, recorded_data):
                return recorded_data

        if cspec.get('base') is not None:
            # a subclass that INHERITS the decorated operation and interceptions of its base class
            base = (self.classes if decorated else self.twins)[cspec['base'] + ('' if decorated else 'Twin')] \
                if False else (self.classes[cspec['base']] if decorated else self.twins[cspec['base']])
            cls = dyn.register(type(str(cname), (base,), {}))
            if decorated and cspec.get('params') is not None:
                p = cspec['params']
                tr.recording_params(RecordingParameters(
                    sampling_rate=float(p['rate'][0]) / float(p['rate'][1]), ignore_enforced_sampling=p['ignore'],
                    skipped=p['skipped'], copy_data_on_intercepion=p['copy']))(cls)
            return cls
        ns = {}
        for sname, sp in self.case['sites'].items():
            flavor = sp.get('flavor', 'instance')
            static = flavor == 'static'

            body = self.make_body(sname, sp, static, decorated)
            fn = body
            if flavor == 'property':
                fn = property(_method(fn))
            elif not static:
                fn = _method(fn)
            if decorated:
                off = 0 if static else 1
                if sp['kind'] == 'in':
                    cap = sp.get('capture', 'all')
                    if cap == 'all':
                        capture_args = None
                    elif cap == 'none':
                        capture_args = []
                    else:
                        capture_args = [CapturedArg(None if p is None else p + off, n) for p, n in cap]
                    res = sp.get('resolver')
                    alias = sp['alias']
                    resolver = None
                    if res == 'fails':
                        alias = alias + ' {p}'
                        resolver = (lambda *a, **k: {'q': 1})          # KeyError in str.format
                    elif res is not None:
                        alias = alias + ' {p}'
                        resolver = (lambda i: (lambda *a, **k: {'p': a[i]}))(res['arg'] + off)
                    fb = sp.get('fallbacks')
                    if fb == 'raises':
                        fallbacks = lambda *a, **k: _raise(RuntimeError('fallbacks'))   # noqa: E731
                    elif fb is None:
                        fallbacks = None
                    elif sp.get('fallbacksAsFunction'):
                        fallbacks = (lambda l: (lambda *a, **k: list(l)))(fb)
                    elif sp.get('fallbacksShape') == 'tuple':
                        fallbacks = tuple(fb)
                    elif sp.get('fallbacksShape') == 'keys':
                        fallbacks = dict((a, None) for a in fb).keys()      # the keys of a rename map (ordered)
                    elif sp.get('fallbacksShape') == 'frozenset' and len(fb) == 1:
                        fallbacks = frozenset(fb)
                    else:
                        fallbacks = list(fb)
                    sub = sp.get('substitute')
                    if sub is None:
                        vwm = None
                    elif sub == 'echo':
                        vwm = (lambda *a, **k: tuple(a)) if static else (lambda self_, *a, **k: tuple(a))
                    elif 'const' in sub:
                        vwm = to_py(sub['const'])
                    else:
                        vwm = (lambda t: (lambda *a, **k: _raise(dyn.EXC[t]('substitute'))))(sub['raises'])
                    handler = {'': None, 'wrap': WrapIn(), 'fail': FailIn()}[sp.get('handler', '')]
                    deco = (tr.static_intercept_input if static else tr.intercept_input)(
                        alias, alias_params_resolver=resolver, data_handler=handler, capture_args=capture_args,
                        run_intercepted_when_missing=sp.get('runOriginal', False), value_when_missing=vwm,
                        fallback_aliases=fallbacks)
                else:
                    handler = {'': None, 'wrap': WrapOut(static), 'fail': FailOut()}[sp.get('handler', '')]
                    deco = (tr.static_intercept_output if static else tr.intercept_output)(
                        sp['alias'], data_handler=handler, fail_on_no_recorded_result=sp.get('failOnMissing', True),
                        default_result_when_not_recorded=to_py(sp.get('default')))
                fn = deco(fn)
            if static:
                fn = staticmethod(fn)
            ns[sname] = fn

        def extractor(*a, **k):
            ext = ctx.run.get('extractor')
            if ext == 'raise':
                raise RuntimeError('extractor')
            if ext == 'junk5':
                return 5
            if ext == 'junkpairs':
                return [('k', 1), 'bad']
            if ext == 'junknone':
                return None
            return {k_: to_py(v) for k_, v in ext['ok']}

        class_level = cspec.get('classLevel', False)
        if class_level:
            def execute(cls, script, **service_kwargs):
                ctx.obj = cls()
                return sim.run_script(script, {}, ctx.obj, decorated)
            if decorated:
                execute = tr.class_operation(metadata_extractor=extractor if cspec.get('hasExtractor') else None)(execute)
            ns['execute'] = classmethod(execute)
        else:
            def execute(self, script, **service_kwargs):
                ctx.obj = self
                return sim.run_script(script, {}, self, decorated)
            if decorated:
                execute = tr.operation(metadata_extractor=extractor if cspec.get('hasExtractor') else None)(execute)
            ns['execute'] = execute
        cls = dyn.register(type(str(cname), (object,), ns))
        if decorated and cspec.get('params') is not None:
            p = cspec['params']
            tr.recording_params(RecordingParameters(
                sampling_rate=float(p['rate'][0]) / float(p['rate'][1]), ignore_enforced_sampling=p['ignore'],
                skipped=p['skipped'], copy_data_on_intercepion=p['copy']))(cls)
        return cls

    # ---------------------------------------------------------------------------------------------------------
    def end_of(self, thunk):
        handler = (self.ctx.run or {}).get('inHandler')
        if handler:
            # the service calls the operation while it is handling an earlier error (a fallback / clean-up path)
            inner = thunk

            def thunk():
                try:
                    raise {'RuntimeError': RuntimeError, 'KeyboardInterrupt': KeyboardInterrupt}[handler]('earlier failure')
                except BaseException:
                    return inner()
        try:
            return ['ret', canon(thunk())]
        except Exception as ex:
            return ['exc', type(ex).__name__]
        except BaseException as ex:
            return ['interrupt', type(ex).__name__]

    def rid(self, real_id):
        return self.spy.order.get(real_id, MISSING_ID)

    def log_since(self, n):
        return [[k, self.rid(i)] for k, i in self.spy.log[n:]]

    def idle(self):
        tr = self.tr
        return {'recording': bool(tr.in_recording_mode), 'playback': bool(tr.in_playback_mode),
                'forced': bool(tr.is_recording_sample_forced), 'counter': self._private_len(tr, '_invoke_counter'),
                'inInt': bool(getattr(tr, '_currently_in_interception', False)),
                'active': getattr(tr, '_active_recording', None) is not None,
                'pbOutputs': self._private_len(tr, '_playback_outputs')}

    def rval(self, key, v):
        if key.startswith('input:') or (key.startswith('output:') and key.endswith('.result')):
            if isinstance(v, dict) and 'exception' in v:
                return ['exception', type(v['exception']).__name__]
            if isinstance(v, dict) and 'value' in v:
                return ['value', canon(v['value'])]
            return ['odd', canon(v)]
        if key.startswith('output:'):
            if isinstance(v, dict) and set(v.keys()) == {'args', 'kwargs'}:
                return ['sent', [canon(a) for a in v['args']], sorted([k, canon(x)] for k, x in v['kwargs'].items())]
            return ['prepared', canon(v)]
        return ['raw', canon(v)]

    def data_of(self, recording):
        named, inputs = [], []
        for k in recording.get_all_keys():
            v = recording.get_data(k)
            if k.startswith('input:'):
                inputs.append(self.rval(k, v))
            else:
                named.append([k, self.rval(k, v)])
        return {'named': sorted(named), 'inputs': sorted(inputs, key=lambda x: repr(x))}

    def meta_of(self, md):
        from playback.tape_recorder import TapeRecorder as T
        cls = md.get(T.OPERATION_CLASS)
        return {'cls': cls.__name__ if isinstance(cls, type) else repr(cls),
                'excFlag': md.get(T.EXCEPTION_IN_OPERATION),
                'duration': int(md[T.DURATION]) if T.DURATION in md and float(md[T.DURATION]).is_integer() else repr(md.get(T.DURATION)),
                'incomplete': md.get(T.INCOMPLETE_RECORDING),
                'user': sorted([k, canon(v)] for k, v in md.items() if not k.startswith('_tape_recorder_'))}

    @staticmethod
    def recorded_at_of(md):
        """the recording timestamp against the real UTC clock (the recorder reads the wall clock for it, not the scripted
        `time()`): [text, seconds off UTC now] - the harness runs these histories in a non-UTC local time zone"""
        import calendar
        import datetime as _dt
        import time as _time
        from playback.tape_recorder import TapeRecorder as T
        text = md.get(T.RECORDED_AT)
        try:
            fmt = '%Y-%m-%d %H:%M:%S.%f' if '.' in text else '%Y-%m-%d %H:%M:%S'
            stamp = _dt.datetime.strptime(text, fmt)
            return [text, calendar.timegm(stamp.timetuple()) - _time.time()]
        except Exception as ex:       # absent / not a naive UTC timestamp text
            return [repr(text), None]

    @staticmethod
    def op_kwargs(run):
        """keyword arguments the service passes to its operation; their NAMES are the service's business (`func`, `args`, ...)"""
        return dict((k, i) for i, k in enumerate(run.get('opKw') or []))

    @staticmethod
    def _private_len(tr, name):
        """size of a private container of the recorder (0 when a refactoring has renamed it: then only behaviour can tell)"""
        v = getattr(tr, name, None)
        try:
            return len(v) if v is not None else 0
        except TypeError:
            return 0

    def outputs(self, outs):
        return sorted([o.key, self.rval(o.key, o.value)] for o in outs)

    def run_history(self):
        out = []
        handed_out = []          # (run index, Playback): what was handed out must not change when later runs happen
        ctx, tr, spy = self.ctx, self.tr, self.spy
        for run_index, run in enumerate(self.case['runs']):
            del self.handed[:]       # (only what THIS run's operation handed over is changed after it, see below)
            if self.case.get('fresh_before_last') and run_index == len(self.case['runs']) - 1:
                self.fresh_recorder()
                tr = self.tr
            ctx.run = run
            ctx.journal = []
            ctx.clock = list(run.get('clock', []))
            ctx.draws = [list(d) for d in run.get('draws', [])]
            ctx.drawn = 0
            ctx.identity_ok = True
            ctx.outcomes = []
            ctx.depth = 0
            (tr.enable_recording if run['enabled'] else tr.disable_recording)()
            spy.fail_save = bool(run.get('saveFails', False))
            log0 = len(spy.log)
            cls = self.classes[run['cls']]
            cspec = self.case['classes'][run['cls']]
            script = run['script']
            if run['run'] == 'foreign':
                # a recording that was not made by the recorder: saved straight through the cassette API
                from playback.tape_recorder import TapeRecorder as T
                rec = spy.create_new_recording(run['cls'])
                if run.get('output') is not None:
                    rec.set_data('output: %s #1.output' % T.OPERATION_OUTPUT_ALIAS, {'args': [to_py(run['output'])], 'kwargs': {}})
                rec.add_metadata({T.DURATION: 3} if run.get('duration', True) else {'note': 'hand made'})
                spy.save_recording(rec)
                out.append({'foreign': self.log_since(log0), 'idle': self.idle()})
                continue
            if run['run'] == 'op':
                target = cls if cspec.get('classLevel') else cls()
                if run.get('kwOnly') and not run.get('enabled') and not cspec.get('classLevel'):
                    end = self.end_of(lambda: type(target).execute(self=target, script=script, **self.op_kwargs(run)))
                else:
                    end = self.end_of(lambda: target.execute(script, **self.op_kwargs(run)))
                journal = ctx.journal
                outcomes = ctx.outcomes
                identity_ok = ctx.identity_ok
                drawn = ctx.drawn
                log = self.log_since(log0)
                saved = None
                recorded_at = None
                save_ids = [i for k, i in spy.log[log0:] if k == 'save']
                # the operation is over: its caller goes on using (and changing) the lists / dicts it sent and returned -
                # what was saved is what they held when the recording was saved
                if getattr(self, 'async_wrapper', None) is not None:
                    # (the flusher has caught up by then: until it has, the wrapper holds the values by reference - known
                    # finding K9, C12's business)
                    self.async_wrapper._flush_recording()
                for v in self.handed:
                    if isinstance(v, list):
                        v.append('<changed after the operation>')
                    else:
                        v['<changed after the operation>'] = 1
                del self.handed[:]
                if save_ids:
                    try:
                        rec = spy.inner.get_recording(save_ids[0])
                        saved = {'data': self.data_of(rec), 'meta': self.meta_of(rec.get_metadata())}
                        recorded_at = self.recorded_at_of(rec.get_metadata())
                    except Exception as ex:
                        if type(ex).__name__ != 'NoSuchRecording':
                            saved = {'fetch_error': type(ex).__name__}
                idle = self.idle()
                # a write to the recording object of this run after the fact: a finalised recording is closed and rejects it
                late = None
                created_ids = [i for k, i in spy.log[log0:] if k == 'create']
                if created_ids:
                    late = []
                    for write in (lambda o: o.set_data('late write', 1), lambda o: o.add_metadata({'late': 1})):
                        try:
                            write(spy.objects[created_ids[0]])
                            late.append('accepted')
                        except Exception as ex:
                            late.append(type(ex).__name__)
                    late = late[0] if late[0] == late[1] else late
                # undecorated twin
                ctx.journal = []
                ctx.outcomes = []
                twin_cls = self.twins[run['cls']]
                twin_target = twin_cls if cspec.get('classLevel') else twin_cls()
                twin_end = self.end_of(lambda: twin_target.execute(script, **self.op_kwargs(run)))
                out.append({'end': end, 'journal': journal, 'log': log, 'saved': saved, 'late': late, 'idle': idle, 'drawn': drawn,
                            'twinEnd': twin_end, 'twinJournal': ctx.journal,
                            '_outcomes': outcomes, '_identity_ok': identity_ok, '_recorded_at': recorded_at})
            else:
                n = run['rec']
                real = None
                for rid_, k in spy.order.items():
                    if k == n:
                        real = rid_
                if real is None:
                    real = run['cls'] + '/' + 'f' * 32
                    if self.case.get('cassette') == 's3':
                        real = run['cls'] + '/20200101/' + 'f' * 32
                target_holder = {}

                def playback_function(recording):
                    target = cls if cspec.get('classLevel') else cls()
                    return target.execute(script, **self.op_kwargs(run))
                digest_before = self.store_digest()
                try:
                    pb = tr.play(real, playback_function)
                    result = ['played', self.outputs(pb.playback_outputs), self.outputs(pb.recorded_outputs)]
                    handed_out.append((len(out), pb))
                    if pb.original_recording.id != real:
                        result.append('wrong-original-recording')
                except Exception as ex:
                    result = ['raised', type(ex).__name__]
                except BaseException as ex:
                    result = ['interrupted', type(ex).__name__]
                stored = sum(1 for k, _ in spy.log if k == 'save')   # informative only
                out.append({'result': result, 'journal': ctx.journal, 'log': self.log_since(log0), 'idle': self.idle(),
                            '_outcomes': ctx.outcomes, '_stored_calls': stored,
                            '_store_unchanged': digest_before == self.store_digest()})
        for idx, pb in handed_out:
            try:
                late = ['played', self.outputs(pb.playback_outputs), self.outputs(pb.recorded_outputs)]
            except Exception as ex:
                late = ['unreadable', type(ex).__name__]
            out[idx]['_result_at_end'] = late
        if self.case.get('default_lookup') and out:
            from playback.studio.recordings_lookup import find_matching_recording_ids, RecordingLookupProperties
            found = {}
            for cname in self.case['classes']:
                try:
                    ids = list(find_matching_recording_ids(tr, cname, RecordingLookupProperties(start_date=None)))
                    found[cname] = sorted(self.rid(i) for i in ids)
                except Exception as ex:
                    found[cname] = 'raised ' + type(ex).__name__
            out[-1]['_default_lookup'] = found
        return out


def _raise(ex):
    raise ex


def _method(fn):
    def method(self, *args, **kwargs):
        return fn(self, *args, **kwargs)
    return method


def run_case(case):
    import os
    import time as _time
    tz0 = os.environ.get('TZ')
    if case.get('tz'):
        # the service runs in a local time zone other than UTC (timestamps in recordings are UTC all the same)
        os.environ['TZ'] = case['tz']
        _time.tzset()
    sim = Sim(case)
    try:
        return sim.run_history()
    finally:
        sim.close()
        if case.get('tz'):
            if tz0 is None:
                os.environ.pop('TZ', None)
            else:
                os.environ['TZ'] = tz0
            _time.tzset()


# ------------------------------------------------------------------------------------------------------------------
def model_request(case):
    """the same history for the Lean driver (values as canonical texts)"""
    def expr(e):
        if 'c' in e:
            w = e['c']
            return {'c': '<unser>' if isinstance(w, dict) and 'unser' in w else canon_wire(w)}
        if 't' in e:
            return {'t': [expr(x) for x in e['t']]}
        return e

    def script(s):
        out = []
        for st in s:
            if st.get('op') == 'stamp':
                continue        # (values are immutable texts in the model: what was sent is what the call was handed)
            st = dict(st)
            if 'e' in st:
                st['e'] = expr(st['e'])
            if 'args' in st:
                st['args'] = [expr(a) for a in st['args']]
            if 'kw' in st:
                st['kw'] = [[k, expr(a)] for k, a in st['kw']]
            if 'then' in st:
                st['then'] = script(st['then'])
                st['else'] = script(st['else'])
            out.append(st)
        return out

    sites = {}
    for name, sp in case['sites'].items():
        m = {'kind': sp['kind'], 'alias': sp['alias'], 'capture': sp.get('capture', 'all'),
             'resolver': sp.get('resolver'), 'handler': sp.get('handler', ''), 'body': script(sp['body'])}
        fb = sp.get('fallbacks')
        m['fallbacks'] = fb
        m['runOriginal'] = sp.get('runOriginal', False)
        sub = sp.get('substitute')
        if isinstance(sub, dict) and 'const' in sub:
            sub = {'const': canon_wire(sub['const'])}
        m['substitute'] = sub
        m['failOnMissing'] = sp.get('failOnMissing', True)
        m['default'] = canon_wire(sp.get('default'))
        sites[name] = m
    runs = []
    for run in case['runs']:
        cspec = case['classes'][run['cls']]
        ext = run.get('extractor') if cspec.get('hasExtractor') else None
        if ext is None:
            mext = None
        elif isinstance(ext, dict):
            mext = [[k, canon_wire(v)] for k, v in ext['ok']]
        else:
            mext = 'fails'
        r = {'run': run['run'], 'cls': run['cls'], 'enabled': run['enabled'], 'script': script(run['script']),
             'params': cspec.get('params'), 'extractor': mext, 'saveFails': bool(run.get('saveFails', False)),
             'draws': run.get('draws', []), 'clock': run.get('clock', [])}
        if run['run'] == 'play':
            r['rec'] = run['rec'] if run['rec'] >= 0 else MISSING_ID
        if run['run'] == 'foreign':
            r['duration'] = bool(run.get('duration', True))
            r['output'] = None if run.get('output') is None else canon_wire(run['output'])
        runs.append(r)
    return {'m': 'rec.hist', 'sites': sites, 'runs': runs}


def normalise_model(answer):
    """sort the hash-ordered parts the same way the implementation side does"""
    out = []
    for r in answer:
        r = dict(r)
        if r.get('saved'):
            d = r['saved']['data']
            r['saved'] = {'data': {'named': sorted(d['named']), 'inputs': sorted(d['inputs'], key=lambda x: repr(x))},
                          'meta': dict(r['saved']['meta'], user=sorted(r['saved']['meta']['user']))}
        if 'result' in r and r['result'][0] == 'played':
            r['result'] = ['played', sorted(r['result'][1]), sorted(r['result'][2])]
        r.pop('stored', None)
        out.append(r)
    return out


def impl_public(transcript):
    return [{k: v for k, v in r.items() if not k.startswith('_')} for r in transcript]
