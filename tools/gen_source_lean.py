#!/usr/bin/env python3
"""Translator for the *decision atoms* of the repository: reads comparison operators, the operator table and literal
constants out of the CURRENT source (Python AST) and writes them as Lean definitions to lean/PlaybackModel/Source.lean, which
the models import.  Run on every check (harness/engine.py: ensure_built) and by MANIFEST.setup_cmd.

An atom whose source pattern is not recognised (a refactoring moved or reshaped the code) falls back to the value the
hand-written model was validated with and is reported as "unrecognised" (the differential correspondence check still ties
that part of the model to the code); an atom that IS recognised and differs changes the model, and `lake build` re-checks
every theorem that depends on it.

usage: gen_source_lean.py [--repo DIR] [--out FILE] [--json FILE]
"""
import argparse
import ast
import json
import os
import sys

VERIF = os.path.dirname(os.path.dirname(os.path.abspath(__file__)))
CMP = {ast.Eq: 'eq', ast.Lt: 'lt', ast.LtE: 'le', ast.Gt: 'gt', ast.GtE: 'ge'}
FLIP = {'eq': 'eq', 'lt': 'gt', 'le': 'ge', 'gt': 'lt', 'ge': 'le'}
NEG = {'lt': 'ge', 'le': 'gt', 'gt': 'le', 'ge': 'lt'}
DEFAULTS = {
    'operatorTable': [['=', 'eq'], ['<', 'lt'], ['<=', 'le'], ['>', 'gt'], ['>=', 'ge']],
    'memLimitTest': 'isNotNone', 'fileLimitTest': 'isNotNone', 'dayCountKind': 'calendar', 'dayCountPlus': 1,
    'rateAlwaysCmp': 'ge', 'drawKeepCmp': 'le', 'fileAboveCmp': 'gt', 'windowStartCmp': 'le', 'windowEndCmp': 'le',
    'opOutputAlias': '_tape_recorder_operation', 'aboveLimitContent': 'above interception limit', 'defaultFileLimit': 500,
    's3RateAlwaysCmp': 'ge', 's3DrawKeepCmp': 'le', 'disableDiscards': True, 'fileStemSplitext': True,
    'operatorCatchesTypeError': True, 'patternGuardsNonString': True, 'workerOwnsQueues': True,
    's3FullKey': 'tape_recorder_recordings/{key_prefix}full/{id}', 's3MetadataKey': 'tape_recorder_recordings/{key_prefix}metadata/{id}',
}


def parse(repo, rel):
    with open(os.path.join(repo, rel), 'rb') as f:
        return ast.parse(f.read())


def find_func(tree, name):
    for n in ast.walk(tree):
        if isinstance(n, (ast.FunctionDef, ast.AsyncFunctionDef)) and n.name == name:
            return n
    return None


def is_name(n, name):
    return isinstance(n, ast.Name) and n.id == name


def is_attr(n, attr):
    return isinstance(n, ast.Attribute) and n.attr == attr


def is_sub(n, base, key):
    return (isinstance(n, ast.Subscript) and is_name(n.value, base) and isinstance(n.slice, ast.Constant) and n.slice.value == key)


def single_cmp(n):
    if isinstance(n, ast.Compare) and len(n.ops) == 1 and type(n.ops[0]) in CMP:
        return n.left, CMP[type(n.ops[0])], n.comparators[0]
    return None


def class_const(tree, cls, name):
    for n in ast.walk(tree):
        if isinstance(n, ast.ClassDef) and n.name == cls:
            for st in n.body:
                if isinstance(st, ast.Assign) and any(is_name(t, name) for t in st.targets):
                    v = st.value
                    if isinstance(v, ast.Call) and v.args and isinstance(v.args[0], ast.Constant):     # six.b('…')
                        v = v.args[0]
                    if isinstance(v, ast.Constant):
                        return v.value.decode() if isinstance(v.value, bytes) else v.value
    return None


def extract(repo):
    atoms, notes = {}, {}

    def put(name, value):
        if value is None:
            atoms[name] = DEFAULTS[name]
            notes[name] = 'unrecognised'
        else:
            atoms[name] = value
            notes[name] = 'source' if value == DEFAULTS[name] else 'source (differs from the validated model)'

    # -- tape_cassette.py: _operator_filter ---------------------------------------------------------------------
    table = None
    try:
        fn = find_func(parse(repo, 'playback/tape_cassette.py'), '_operator_filter')
        rows = []
        for n in ast.walk(fn):
            if isinstance(n, ast.If):
                t = single_cmp(n.test)
                if t and t[1] == 'eq' and is_sub(t[0], 'metadata_value', 'operator') and isinstance(t[2], ast.Constant) \
                        and len(n.body) == 1 and isinstance(n.body[0], ast.Assign):
                    c = single_cmp(n.body[0].value)
                    if c and is_name(c[0], 'recorded_value') and is_sub(c[2], 'metadata_value', 'value'):
                        rows.append((n.lineno, [t[2].value, c[1]]))
                    elif c and is_name(c[2], 'recorded_value') and is_sub(c[0], 'metadata_value', 'value'):
                        rows.append((n.lineno, [t[2].value, FLIP[c[1]]]))
        if rows and all(isinstance(r[1][0], str) for r in rows):
            table = [r[1] for r in sorted(rows)]
    except Exception:
        table = None
    put('operatorTable', table)
    # -- tape_cassette.py: is the comparison of `_operator_filter` guarded against TypeError, and the pattern branch of
    #    `_match_metadata_value` against non-string recorded values? (F8) ------------------------------------------------
    catches, guards = None, None
    try:
        tc = parse(repo, 'playback/tape_cassette.py')
        fn = find_func(tc, '_operator_filter')
        cmps_in_try = False
        for n in ast.walk(fn):
            if isinstance(n, ast.Try):
                names = []
                for h in n.handlers:
                    t = h.type
                    names += [t.id] if isinstance(t, ast.Name) else [e.id for e in t.elts if isinstance(e, ast.Name)] if isinstance(t, ast.Tuple) else ['*'] if t is None else []
                has_cmp = any(isinstance(x, ast.Compare) and any(is_name(y, 'recorded_value') for y in ast.walk(x)) for b in n.body for x in ast.walk(b))
                if has_cmp and any(nm in ('TypeError', 'Exception', 'BaseException', '*') for nm in names):
                    cmps_in_try = True
        any_cmp = any(isinstance(x, ast.Compare) and any(is_name(y, 'recorded_value') for y in ast.walk(x)) for x in ast.walk(fn))
        if any_cmp:
            catches = cmps_in_try
        fn = find_func(tc, '_match_metadata_value')
        for n in ast.walk(fn):
            if isinstance(n, ast.If) and isinstance(n.test, ast.Call) and is_name(n.test.func, 'isinstance') \
                    and len(n.test.args) == 2 and is_name(n.test.args[0], 'match_value') and is_name(n.test.args[1], 'str'):
                rets = [r for b in n.body for r in ast.walk(b) if isinstance(r, ast.Return)]
                if len(rets) == 1:
                    v = rets[0].value
                    if isinstance(v, ast.BoolOp) and isinstance(v.op, ast.And) and isinstance(v.values[0], ast.Call) \
                            and is_name(v.values[0].func, 'isinstance') and is_name(v.values[0].args[0], 'recorded_value'):
                        guards = True
                    elif isinstance(v, ast.Call) and (is_name(v.func, 'fnmatch') or is_attr(v.func, 'fnmatch')):
                        guards = False
    except Exception:
        pass
    put('operatorCatchesTypeError', catches)
    put('patternGuardsNonString', guards)
    # -- tape_recorder.py: _should_sample_active_recording --------------------------------------------------------
    rate, draw = None, None
    try:
        tr = parse(repo, 'playback/tape_recorder.py')
        fn = find_func(tr, '_should_sample_active_recording')
        for n in ast.walk(fn):
            c = single_cmp(n)
            if not c:
                continue
            if is_attr(c[0], 'sampling_rate') and isinstance(c[2], ast.Constant) and c[2].value == 1:
                rate = c[1]
            elif is_attr(c[2], 'sampling_rate') and isinstance(c[0], ast.Constant) and c[0].value == 1:
                rate = FLIP[c[1]]
            elif is_name(c[0], 'sample_value') and is_attr(c[2], 'sampling_rate'):
                draw = c[1]
            elif is_name(c[2], 'sample_value') and is_attr(c[0], 'sampling_rate'):
                draw = FLIP[c[1]]
    except Exception:
        tr = None
    put('rateAlwaysCmp', rate)
    put('drawKeepCmp', draw)
    put('opOutputAlias', class_const(tr, 'TapeRecorder', 'OPERATION_OUTPUT_ALIAS') if tr is not None else None)
    # -- file_interception.py -------------------------------------------------------------------------------------
    above, content, dflt = None, None, None
    try:
        fi = parse(repo, 'playback/interception/files/file_interception.py')
        fn = find_func(fi, '_is_file_above_size_limit')
        for n in ast.walk(fn):
            # `if size <op> limit: … return True` (or the early-return form `if size <op> limit: return False`)
            if not isinstance(n, ast.If):
                continue
            c = single_cmp(n.test)
            op = None
            if c and is_name(c[0], 'file_size_in_mb') and is_attr(c[2], 'intercepted_size_limit'):
                op = c[1]
            elif c and is_name(c[2], 'file_size_in_mb') and is_attr(c[0], 'intercepted_size_limit'):
                op = FLIP[c[1]]
            rets = [r.value.value for r in ast.walk(n) if isinstance(r, ast.Return) and isinstance(r.value, ast.Constant)
                    and r in [x for b in n.body for x in ast.walk(b)]]
            if op and rets == [True]:
                above = op
            elif op and rets == [False] and op in NEG:
                above = NEG[op]
        content = class_const(fi, 'FileInterception', 'ABOVE_LIMIT_CONTENT')
        for n in ast.walk(fi):
            if isinstance(n, ast.Call) and is_attr(n.func, 'getenv') and len(n.args) == 2 and isinstance(n.args[1], ast.Constant):
                try:
                    dflt = int(float(n.args[1].value))
                except (TypeError, ValueError):
                    dflt = None
    except Exception:
        pass
    put('fileAboveCmp', above)
    put('aboveLimitContent', content if isinstance(content, str) else None)
    put('defaultFileLimit', dflt if isinstance(dflt, int) and dflt >= 0 else None)
    # -- s3_basic_facade.py: the last-modified window ---------------------------------------------------------------
    ws, we = None, None
    try:
        fn = find_func(parse(repo, 'playback/tape_cassettes/s3/s3_basic_facade.py'), 'iter_keys')
        for n in ast.walk(fn):
            c = single_cmp(n)
            if not c:
                continue
            if is_name(c[0], 'start_date') and is_attr(c[2], 'last_modified'):
                ws = c[1]
            elif is_attr(c[0], 'last_modified') and is_name(c[2], 'start_date'):
                ws = FLIP[c[1]]
            elif is_attr(c[0], 'last_modified') and is_name(c[2], 'end_date'):
                we = c[1]
            elif is_name(c[0], 'end_date') and is_attr(c[2], 'last_modified'):
                we = FLIP[c[1]]
    except Exception:
        pass
    put('windowStartCmp', ws)
    put('windowEndCmp', we)
    # -- s3_tape_cassette.py: key layout ---------------------------------------------------------------------------
    fk, mk = None, None
    try:
        s3 = parse(repo, 'playback/tape_cassettes/s3/s3_tape_cassette.py')
        fk = class_const(s3, 'S3TapeCassette', 'FULL_KEY')
        mk = class_const(s3, 'S3TapeCassette', 'METADATA_KEY')
    except Exception:
        pass
    # -- `_get_id_prefixes`: range(<day difference> + k) -------------------------------------------------------------
    kind, plus = None, None
    try:
        fn = find_func(s3, '_get_id_prefixes')
        for n in ast.walk(fn):
            if isinstance(n, ast.Call) and is_name(n.func, 'range') and len(n.args) == 1:
                a = n.args[0]
                k = 0
                if isinstance(a, ast.BinOp) and isinstance(a.op, ast.Add) and isinstance(a.right, ast.Constant) and isinstance(a.right.value, int):
                    a, k = a.left, a.right.value
                if is_attr(a, 'days') and isinstance(a.value, ast.BinOp) and isinstance(a.value.op, ast.Sub):
                    l, r = a.value.left, a.value.right

                    def date_of(x, name):
                        return isinstance(x, ast.Call) and is_attr(x.func, 'date') and is_name(x.func.value, name)
                    if date_of(l, 'end_date') and date_of(r, 'start_date'):
                        kind, plus = 'calendar', k
                    elif is_name(l, 'end_date') and is_name(r, 'start_date'):
                        kind, plus = 'elapsed', k
    except Exception:
        pass
    put('dayCountKind', kind)
    put('dayCountPlus', plus if isinstance(plus, int) and plus >= 0 else None)
    # -- `if limit is not None:` / `if limit:` before `ids[:limit]` in the in-memory and file based cassettes -----------
    for name, rel in (('memLimitTest', 'playback/tape_cassettes/in_memory/in_memory_tape_cassette.py'),
                      ('fileLimitTest', 'playback/tape_cassettes/file_based/file_based_tape_cassette.py')):
        test = None
        try:
            fn = find_func(parse(repo, rel), 'iter_recording_ids')
            for n in ast.walk(fn):
                if isinstance(n, ast.If) and any(isinstance(x, ast.Slice) and is_name(x.upper, 'limit') for b in n.body for x in ast.walk(b)):
                    t = n.test
                    if is_name(t, 'limit'):
                        test = 'truthy'
                    elif isinstance(t, ast.Compare) and is_name(t.left, 'limit') and len(t.ops) == 1 and isinstance(t.ops[0], ast.IsNot) \
                            and isinstance(t.comparators[0], ast.Constant) and t.comparators[0].value is None:
                        test = 'isNotNone'
        except Exception:
            pass
        put(name, test)
    # -- s3_tape_cassette.py `_should_sample`: `ratio <op> 1`, `self._random.random() <op> ratio` ----------------------
    srate, sdraw = None, None
    try:
        fn = find_func(s3, '_should_sample')
        for n in ast.walk(fn):
            c = single_cmp(n)
            if not c:
                continue
            if is_name(c[0], 'ratio') and isinstance(c[2], ast.Constant) and c[2].value == 1:
                srate = c[1]
            elif is_name(c[2], 'ratio') and isinstance(c[0], ast.Constant) and c[0].value == 1:
                srate = FLIP[c[1]]
            elif isinstance(c[0], ast.Call) and is_name(c[2], 'ratio'):
                sdraw = c[1]
            elif isinstance(c[2], ast.Call) and is_name(c[0], 'ratio'):
                sdraw = FLIP[c[1]]
    except Exception:
        pass
    # -- tape_recorder.py `disable_recording`: does it discard the recording in flight? (F15) -------------------------
    dd = None
    try:
        fn = find_func(tr, 'disable_recording')
        sets_false = any(isinstance(n, ast.Assign) and any(is_attr(t, 'recording_enabled') for t in n.targets)
                         and isinstance(n.value, ast.Constant) and n.value.value is False for n in ast.walk(fn))
        calls = [n.func.attr for n in ast.walk(fn) if isinstance(n, ast.Call) and isinstance(n.func, ast.Attribute)
                 and isinstance(n.func.value, ast.Name) and n.func.value.id == 'self']
        if sets_false:
            dd = 'discard_recording' in calls
    except Exception:
        pass
    put('disableDiscards', dd)
    # -- equalizer.py `_create_new_player_process`: does every worker get queues of its own? (F9) ---------------------
    woq = None
    try:
        fn = find_func(parse(repo, 'playback/studio/equalizer.py'), '_create_new_player_process')
        made = set()
        for n in ast.walk(fn):
            if isinstance(n, ast.Assign) and isinstance(n.value, ast.Call) and is_attr(n.value.func, 'Queue'):
                for t in n.targets:
                    if isinstance(t, ast.Attribute):
                        made.add(t.attr)
        starts = any(isinstance(n, ast.Call) and is_attr(n.func, 'Process') for n in ast.walk(fn))
        if starts:
            woq = {'_compare_tasks', '_compare_results'} <= made
    except Exception:
        pass
    put('workerOwnsQueues', woq)
    # -- file_based_tape_cassette.py `iter_recording_ids`: how the recording id is cut out of a listed file name (F14) --
    fs = None
    try:
        fn = find_func(parse(repo, 'playback/tape_cassettes/file_based/file_based_tape_cassette.py'), 'iter_recording_ids')
        for n in ast.walk(fn):
            if isinstance(n, ast.Assign) and len(n.targets) == 1 and is_name(n.targets[0], 'recording_id') \
                    and isinstance(n.value, ast.Subscript) and isinstance(n.value.value, ast.Call):
                call = n.value.value
                idx = n.value.slice
                zero = isinstance(idx, ast.Constant) and idx.value == 0
                if zero and is_attr(call.func, 'splitext') and len(call.args) == 1 and is_name(call.args[0], 'file_name'):
                    fs = True
                elif zero and is_attr(call.func, 'split') and is_name(call.func.value, 'file_name') and len(call.args) == 1 \
                        and isinstance(call.args[0], ast.Constant) and call.args[0].value == '.':
                    fs = False
    except Exception:
        pass
    put('fileStemSplitext', fs)
    put('s3RateAlwaysCmp', srate)
    put('s3DrawKeepCmp', sdraw)
    put('s3FullKey', fk if isinstance(fk, str) else None)
    put('s3MetadataKey', mk if isinstance(mk, str) else None)
    return atoms, notes


def lean_str(s):
    out = ['"']
    for ch in s:
        if ch == '"':
            out.append('\\"')
        elif ch == '\\':
            out.append('\\\\')
        elif ch == '\n':
            out.append('\\n')
        elif ch == '\t':
            out.append('\\t')
        elif ord(ch) < 32 or ord(ch) == 127:
            out.append('\\x%02x' % ord(ch))
        else:
            out.append(ch)
    out.append('"')
    return ''.join(out)


def render(atoms):
    t = ', '.join('(%s, .%s)' % (lean_str(k), c) for k, c in atoms['operatorTable'])
    return '''/- GENERATED by tools/gen_source_lean.py from the repository's current source - do not edit, not committed. -/
import PlaybackModel.Atoms
namespace PlaybackModel.Source
open PlaybackModel.Atoms

/-- tape_cassette.py `_operator_filter`: `if metadata_value['operator'] == <lit>: result = recorded_value <op> metadata_value['value']`, in source order -/
def operatorTable : List (String × Cmp) := [%s]
/-- tape_recorder.py `_should_sample_active_recording`: `sampling_rate <op> 1` keeps without a draw -/
def rateAlwaysCmp : Cmp := .%s
/-- … and `sample_value <op> sampling_rate` keeps after a draw -/
def drawKeepCmp : Cmp := .%s
/-- file_interception.py `_is_file_above_size_limit`: `file_size_in_mb <op> intercepted_size_limit` -/
def fileAboveCmp : Cmp := .%s
/-- s3_basic_facade.py `iter_keys`: `start_date <op> o.last_modified` -/
def windowStartCmp : Cmp := .%s
/-- … and `o.last_modified <op> end_date` -/
def windowEndCmp : Cmp := .%s
/-- in_memory / file_based `iter_recording_ids`: how `limit` is tested before `ids[:limit]` -/
def memLimitTest : NoneTest := .%s
def fileLimitTest : NoneTest := .%s
/-- s3_tape_cassette.py `_get_id_prefixes`: `range(<day difference> + k)` -/
def dayCountKind : DayCount := .%s
def dayCountPlus : Nat := %d
/-- `TapeRecorder.OPERATION_OUTPUT_ALIAS` -/
def opOutputAlias : String := %s
/-- `FileInterception.ABOVE_LIMIT_CONTENT` (text and UTF-8 bytes) -/
def aboveLimitContent : String := %s
def aboveLimitContentBytes : List Nat := [%s]
/-- default of `PLAYBACK_INTERCEPTED_FILE_SIZE_LIMIT` (MB) -/
def defaultFileLimit : Nat := %d
/-- s3_tape_cassette.py `_should_sample`: `ratio <op> 1` stores without a draw, else `self._random.random() <op> ratio` -/
def s3RateAlwaysCmp : Cmp := .%s
def s3DrawKeepCmp : Cmp := .%s
/-- tape_cassette.py `_operator_filter`: the comparisons sit in `try … except TypeError` (F8) -/
def operatorCatchesTypeError : Bool := %s
/-- tape_cassette.py `_match_metadata_value`: a string filter is matched as `isinstance(recorded_value, str) and fnmatch(…)` (F8) -/
def patternGuardsNonString : Bool := %s
/-- equalizer.py `_create_new_player_process` makes a task queue and a result queue for every worker it starts (F9) -/
def workerOwnsQueues : Bool := %s
/-- tape_recorder.py `disable_recording`: after switching off it calls `self.discard_recording()` (F15) -/
def disableDiscards : Bool := %s
/-- file_based_tape_cassette.py `iter_recording_ids`: `os.path.splitext(file_name)[0]` (true, F14) or `file_name.split('.')[0]` -/
def fileStemSplitext : Bool := %s
/-- `S3TapeCassette.FULL_KEY` / `METADATA_KEY` -/
def s3FullKey : String := %s
def s3MetadataKey : String := %s

end PlaybackModel.Source
''' % (t, atoms['rateAlwaysCmp'], atoms['drawKeepCmp'], atoms['fileAboveCmp'], atoms['windowStartCmp'], atoms['windowEndCmp'],
       atoms['memLimitTest'], atoms['fileLimitTest'], atoms['dayCountKind'], atoms['dayCountPlus'],
       lean_str(atoms['opOutputAlias']), lean_str(atoms['aboveLimitContent']),
       ', '.join(str(b) for b in atoms['aboveLimitContent'].encode('utf-8')), atoms['defaultFileLimit'],
       atoms['s3RateAlwaysCmp'], atoms['s3DrawKeepCmp'],
       'true' if atoms['operatorCatchesTypeError'] else 'false', 'true' if atoms['patternGuardsNonString'] else 'false',
       'true' if atoms['workerOwnsQueues'] else 'false',
       'true' if atoms['disableDiscards'] else 'false', 'true' if atoms['fileStemSplitext'] else 'false',
       lean_str(atoms['s3FullKey']), lean_str(atoms['s3MetadataKey']))


def main():
    ap = argparse.ArgumentParser()
    ap.add_argument('--repo', default=os.environ.get('VERIF_REPO', '/repo'))
    ap.add_argument('--out', default=os.path.join(VERIF, 'lean', 'PlaybackModel', 'Source.lean'))
    ap.add_argument('--json', default=None)
    ap.add_argument('--print', action='store_true')
    args = ap.parse_args()
    atoms, notes = extract(args.repo)
    text = render(atoms)
    if args.print:
        sys.stdout.write(text)
        return 0
    old = open(args.out).read() if os.path.exists(args.out) else None
    if old != text:
        tmp = args.out + '.tmp%d' % os.getpid()
        with open(tmp, 'w') as f:
            f.write(text)
        os.replace(tmp, args.out)
    if args.json:
        with open(args.json, 'w') as f:
            json.dump({'atoms': atoms, 'notes': notes}, f, indent=1, sort_keys=True)
    return 0


if __name__ == '__main__':
    sys.exit(main())
