#!/usr/bin/env python3
"""Confirms a seeded change and runs checks against it in a scratch worktree of /repo (never in /repo itself).

usage: seed_check.py <seed dir with patch.diff demo.py meta.json> [--props C01,C05,...] [--tier quick] [--baseline] [--keep]
Prints a JSON summary; with --keep copies the seed into /verif/seeded/<name>/ and stores the summary in meta.json.
"""
import argparse
import json
import os
import shutil
import subprocess
import sys
import tempfile

VERIF = os.path.dirname(os.path.dirname(os.path.abspath(__file__)))


def run(cmd, env=None, cwd=None, timeout=1800):
    e = dict(os.environ)
    if env:
        e.update(env)
    try:
        p = subprocess.run(cmd, env=e, cwd=cwd, capture_output=True, text=True, timeout=timeout)
        return p.returncode, (p.stdout + p.stderr)
    except subprocess.TimeoutExpired:
        return 124, 'timeout'


def main():
    ap = argparse.ArgumentParser()
    ap.add_argument('seed')
    ap.add_argument('--props', default='')
    ap.add_argument('--tier', default='quick')
    ap.add_argument('--baseline', action='store_true')
    ap.add_argument('--keep', action='store_true')
    ap.add_argument('--seedvals', default='0')
    args = ap.parse_args()
    seed = os.path.abspath(args.seed)
    meta = json.load(open(os.path.join(seed, 'meta.json')))
    props = [p for p in args.props.split(',') if p] or [meta.get('property', '')[:3]]
    lean_copies = set(d for d in os.listdir(os.path.join(VERIF, 'replays')) if d.startswith('lean-')) \
        if os.path.isdir(os.path.join(VERIF, 'replays')) else set()
    wt = tempfile.mkdtemp(prefix='seedrun-')
    os.rmdir(wt)
    out = {'seed': os.path.basename(seed), 'property': meta.get('property'), 'checks': {}}
    try:
        rc, o = run(['git', '-C', '/repo', 'worktree', 'add', '--detach', wt])
        if rc != 0:
            raise SystemExit('worktree failed: ' + o)
        rc, o = run(['git', '-C', wt, 'apply', os.path.join(seed, 'patch.diff')])
        out['applies'] = rc == 0
        if rc != 0:
            out['apply_error'] = o[-500:]
            print(json.dumps(out, indent=1))
            return 2
        if args.baseline:
            rc, o = run([os.path.join(VERIF, 'tools', 'baseline_check.sh'), wt], env={'PYTHONPATH': wt})
            out['baseline_ok'] = rc == 0
            out['baseline_out'] = o.strip().split('\n')[-3:]
        rc0, o0 = run(['/venv/bin/python', os.path.join(seed, 'demo.py')], env={'PLAYBACK_ROOT': '/repo'}, cwd=tempfile.gettempdir(), timeout=300)
        rc1, o1 = run(['/venv/bin/python', os.path.join(seed, 'demo.py')], env={'PLAYBACK_ROOT': wt}, cwd=tempfile.gettempdir(), timeout=300)
        out['demo_on_repo'] = rc0
        out['demo_on_patched'] = rc1
        out['demo_patched_tail'] = o1.strip().split('\n')[-3:]
        for prop in props:
            for sv in args.seedvals.split(','):
                rc, o = run(['/venv/bin/python', os.path.join(VERIF, 'checks', 'check.py'), '--prop', prop, '--tier', args.tier],
                            env={'VERIF_REPO': wt, 'VERIF_SEED': sv}, cwd=VERIF)
                lines = [l for l in o.split('\n') if l.startswith('VIOLATION') or l.startswith('INFRA')]
                first = lines[0] if lines else ''
                detail = ''
                if first.startswith('VIOLATION') and 'replay=' in first:
                    path = first.split('replay=')[1].split()[0]
                    try:
                        doc = json.load(open(path))
                        detail = doc['kind'] + ': ' + '; '.join(doc.get('oracle_failures') or [])[:300]
                    except Exception:
                        pass
                out['checks'].setdefault(prop, []).append({'verif_seed': int(sv), 'exit': rc, 'first': first[:200], 'detail': detail})
    finally:
        run(['git', '-C', '/repo', 'worktree', 'remove', '--force', wt])
        shutil.rmtree(wt, ignore_errors=True)
        # private Lean builds made for this tree's source atoms (harness/engine.py: _select_lean): 180 MB each
        if os.path.isdir(os.path.join(VERIF, 'replays')):
            for d in os.listdir(os.path.join(VERIF, 'replays')):
                if d.startswith('lean-') and d not in lean_copies and not os.environ.get('VERIF_KEEP_LEAN_COPIES'):
                    shutil.rmtree(os.path.join(VERIF, 'replays', d), ignore_errors=True)
    print(json.dumps(out, indent=1))
    if args.keep:
        dst = os.path.join(VERIF, 'seeded', os.path.basename(seed))
        os.makedirs(dst, exist_ok=True)
        for f in ('patch.diff', 'demo.py'):
            if os.path.abspath(seed) != os.path.abspath(dst):
                shutil.copy(os.path.join(seed, f), os.path.join(dst, f))
        conf = dict(meta.get('confirmed') or {})
        conf.update({k: out[k] for k in ('applies', 'baseline_ok', 'demo_on_repo', 'demo_on_patched') if k in out})
        meta['confirmed'] = conf
        meta.setdefault('checks_run', {}).update(out['checks'])
        meta['what_was_run'] = ('tools/seed_check.py: patch applied in a scratch git worktree of /repo, pinned suite compared with '
                                'the baseline, demo.py run on /repo and on the patched tree, checks run with VERIF_REPO=<worktree>')
        json.dump(meta, open(os.path.join(dst, 'meta.json'), 'w'), indent=1)
    return 0


if __name__ == '__main__':
    sys.exit(main())
