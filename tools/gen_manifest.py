#!/usr/bin/env python3
"""Writes /verif/MANIFEST.json from the table below (kept in one place so the manifest stays valid at all times)."""
import json
import os

VERIF = os.path.dirname(os.path.dirname(os.path.abspath(__file__)))

# id -> (technique, level text, level note, design ref)
CLAIMED = {
    'C14': ('Lean 4 theorems over a hand-written model of the matcher (totality, meaning of each filter form), tied to '
            '/repo by differential execution of model and code on exhaustive + random filters',
            'Kernel-checked theorems: matching never raises and equals the documented meaning for every filter and every '
            'metadata (unbounded nesting, any number of keys/alternatives); correspondence check runs the real matcher and '
            'the model on the same inputs on every run.',
            'Trusted: Lean kernel; hand-written model tied by differential execution only; fnmatch is a parameter of the '
            'theorems; Python ==/< on builtins as transcribed.', 'DESIGN.md 6/C14'),
    'C04': ('Lean 4 theorems over interaction-tree programs (induction on the program): the decorated run equals the '
            'undecorated twin in result and executed bodies, for all programs and fault placements; tied to /repo by '
            'differential execution of model and real recorder on random histories with a decorated/undecorated twin oracle',
            'Kernel-checked: for every program (any calls, nested interceptions, discard/force from bodies, key/handler/'
            'extractor/save faults, interrupts) and every recorder state outside replay, results and executed bodies equal '
            'the twin\'s; disabled/skipped is pass-through and never touches the cassette. Sequential programs; thread '
            'interleavings are not covered by a theorem (partial).',
            'Trusted: Lean kernel; hand-written recorder model tied by differential execution; values opaque; CPython '
            'thread switching not modelled; known finding K6 (nested operation) excluded by hypothesis.', 'DESIGN.md 6/C04'),
    'C05': ('Lean 4 invariant proof (recording scope invariant preserved by every interpreter step, lifted to all programs) '
            'giving exactly-once finalisation; correspondence check with a spy cassette log and replay of every saved recording',
            'Kernel-checked: every operation adds exactly create i then exactly one of save i / abort i to the cassette log, '
            'for all programs, faults, discards, sampling outcomes, exceptions and interrupts; a discarded recording is never '
            'saved whatever the rest of the operation does.',
            'Trusted: Lean kernel; hand-written recorder model tied by differential execution; sequential programs.',
            'DESIGN.md 6/C05'),
    'C09': ('Lean 4 theorems: idle after every kind of run (induction on programs via the scope invariant), idle after any '
            'history (induction on the history), an idle state equals a fresh state up to the named persistent components; '
            'correspondence check compares each probe run with the same run on a fresh recorder',
            'Kernel-checked: after any operation, replay or history of runs the recorder is idle, and the result of any probe '
            'run equals what a fresh recorder with the same persistent components (enabled flag, PRNG/clock position, cassette) '
            'produces.',
            'Trusted: Lean kernel; hand-written recorder model tied by differential execution; thread-local flag modelled for '
            'one thread.', 'DESIGN.md 6/C09'),
}

NOT_YET = 'check not built yet in this round (work in progress; see DESIGN.md section 6 for the planned proof and tie)'

ALL = ['C%02d' % i for i in range(1, 21)]


def main():
    checks = []
    for pid in ALL:
        if pid not in CLAIMED:
            continue
        tech, text, note, ref = CLAIMED[pid]
        checks.append({
            'property_id': pid,
            'quick_cmd': '/venv/bin/python checks/check.py --prop %s --tier quick' % pid,
            'thorough_cmd': '/venv/bin/python checks/check.py --prop %s --tier thorough' % pid,
            'evidence_file': 'evidence/%s.json' % pid,
            'replay_cmd_template': '/venv/bin/python checks/check.py --prop %s --replay {path}' % pid,
            'engine': 'lean4-model+correspondence',
            'level_claimed': {'category': 'proof', 'text': text, 'design_ref': ref},
            'level_note': note,
            'technique': tech,
        })
    m = {
        'version': 1,
        'setup_cmd': 'cd lean && lake build',
        'hooks': {
            'guard': 'OPTIBUS_PLAYBACK_VERIF',
            'enable': 'none needed: no hook was added to /repo; the harness controls boto3, clocks, locks and the PRNG from outside',
            'baseline_off_cmd': 'cd /repo && /venv/bin/python -m pytest -ra -q -p no:cacheprovider --timeout=900 --continue-on-collection-errors',
            'source_commits': [],
            'add_only': True,
        },
        'engines': [{
            'name': 'lean4-model+correspondence',
            'path': 'checks/check.py',
            'serves_properties': sorted(CLAIMED),
            'kind_free_text': 'Lean 4 theorems about a hand-written executable model (lean/), tied to /repo on every run by a '
                              'differential correspondence check (harness/) that runs model and real code on the same cases',
        }],
        'checks': checks,
        'not_applicable': [{'property_id': pid, 'reason': NOT_YET} for pid in ALL if pid not in CLAIMED],
        'notes': 'Exit 2 = infrastructure error (never a VIOLATION). known_findings.json lists recorded and fixed defects.',
    }
    with open(os.path.join(VERIF, 'MANIFEST.json'), 'w') as f:
        json.dump(m, f, indent=1)
        f.write('\n')


if __name__ == '__main__':
    main()
