#!/usr/bin/env python3
"""Writes /verif/MANIFEST.json from the table below (kept in one place so the manifest stays valid at all times)."""
import json
import os

VERIF = os.path.dirname(os.path.dirname(os.path.abspath(__file__)))

# id -> (technique, level text, level note, design ref)
CLAIMED = {
    'C14': ('Lean 4 theorems over a hand-written model of the matcher (totality, meaning of each filter form), tied to '
            '/repo by differential execution of model and code on exhaustive + random filters',
            'Kernel-checked theorems: matching never raises and equals the documented meaning for every filter and every '
            'metadata (unbounded nesting, any number of keys/alternatives); correspondence check runs the real matcher and '
            'the model on the same inputs on every run.',
            'Trusted: Lean kernel; hand-written model tied by differential execution only; fnmatch is a parameter of the '
            'theorems; Python ==/< on builtins as transcribed.', 'DESIGN.md 6/C14'),
}

NOT_YET = 'check not built yet in this round (work in progress; see DESIGN.md section 6 for the planned proof and tie)'

ALL = ['C%02d' % i for i in range(1, 21)]


def main():
    checks = []
    for pid in ALL:
        if pid not in CLAIMED:
            continue
        tech, text, note, ref = CLAIMED[pid]
        checks.append({
            'property_id': pid,
            'quick_cmd': '/venv/bin/python checks/check.py --prop %s --tier quick' % pid,
            'thorough_cmd': '/venv/bin/python checks/check.py --prop %s --tier thorough' % pid,
            'evidence_file': 'evidence/%s.json' % pid,
            'replay_cmd_template': '/venv/bin/python checks/check.py --prop %s --replay {path}' % pid,
            'engine': 'lean4-model+correspondence',
            'level_claimed': {'category': 'proof', 'text': text, 'design_ref': ref},
            'level_note': note,
            'technique': tech,
        })
    m = {
        'version': 1,
        'setup_cmd': 'cd lean && lake build',
        'hooks': {
            'guard': 'OPTIBUS_PLAYBACK_VERIF',
            'enable': 'none needed: no hook was added to /repo; the harness controls boto3, clocks, locks and the PRNG from outside',
            'baseline_off_cmd': 'cd /repo && /venv/bin/python -m pytest -ra -q -p no:cacheprovider --timeout=900 --continue-on-collection-errors',
            'source_commits': [],
            'add_only': True,
        },
        'engines': [{
            'name': 'lean4-model+correspondence',
            'path': 'checks/check.py',
            'serves_properties': sorted(CLAIMED),
            'kind_free_text': 'Lean 4 theorems about a hand-written executable model (lean/), tied to /repo on every run by a '
                              'differential correspondence check (harness/) that runs model and real code on the same cases',
        }],
        'checks': checks,
        'not_applicable': [{'property_id': pid, 'reason': NOT_YET} for pid in ALL if pid not in CLAIMED],
        'notes': 'Exit 2 = infrastructure error (never a VIOLATION). known_findings.json lists recorded and fixed defects.',
    }
    with open(os.path.join(VERIF, 'MANIFEST.json'), 'w') as f:
        json.dump(m, f, indent=1)
        f.write('\n')


if __name__ == '__main__':
    main()
