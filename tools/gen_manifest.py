#!/usr/bin/env python3
"""Writes /verif/MANIFEST.json from the table below (kept in one place so the manifest stays valid at all times)."""
import json
import os

VERIF = os.path.dirname(os.path.dirname(os.path.abspath(__file__)))

# properties whose model consumes atoms read from the source by tools/gen_source_lean.py
SOURCE_ATOMS = {
    'C05': '(whether `disable_recording()` discards the recording in flight - fix F15)',
    'C08': '(whether `_create_new_player_process` gives every worker queues of its own - fix F9)',
    'C10': '(how `limit` is tested in the in-memory and file based cassettes; how the file cassette cuts the id out of a listed file name - fix F14; the S3 window operators)',
    'C14': '(the operator table of `_operator_filter`, whether its comparisons are guarded by `except TypeError` and whether the pattern branch tests `isinstance(recorded_value, str)` first - fix F8)',
    'C15': '(the S3 key layout constants)',
    'C16': '(the two comparison operators of the last-modified window, the day-folder count of `_get_id_prefixes`)',
    'C17': '(`sampling_rate >= 1` and `sample_value <= sampling_rate` in `_should_sample_active_recording`; `ratio >= 1` and `random() <= ratio` in the S3 cassette\'s `_should_sample`)',
    'C18': '(the reserved operation output alias)',
    'C20': '(`file_size_in_mb > limit`, the above-limit placeholder bytes, the default limit)',
}

# id -> (technique, level text, level note, design ref)
CLAIMED = {
    'C14': ('Lean 4 theorems over a hand-written model of the matcher (totality, meaning of each filter form), tied to '
            '/repo by differential execution of model and code on exhaustive + random filters',
            'Kernel-checked theorems: matching never raises and equals the documented meaning for every filter and every '
            'metadata (unbounded nesting, any number of keys/alternatives); correspondence check runs the real matcher and '
            'the model on the same inputs on every run.',
            'Trusted: Lean kernel; hand-written model tied by differential execution only; fnmatch is a parameter of the '
            'theorems; Python ==/< on builtins as transcribed.', 'DESIGN.md 6/C14'),
    'C04': ('Lean 4 theorems over interaction-tree programs (induction on the program): the decorated run equals the '
            'undecorated twin in result and executed bodies, for all programs and fault placements; tied to /repo by '
            'differential execution of model and real recorder on random histories with a decorated/undecorated twin oracle; '
            'plus a micro-step thread model (every shared read/write its own step) with a theorem over all schedules, tied by '
            'running real worker threads under a controlled line-granularity scheduler (all schedules with <= 2 pre-emptions '
            'within a budget, then random ones)',
            'Kernel-checked: for every program (any calls, nested interceptions, discard/force from bodies, key/handler/'
            'extractor/save faults, interrupts) and every recorder state outside replay, results and executed bodies equal '
            'the twin\'s; disabled/skipped is pass-through and never touches the cassette. For interceptions in flight on worker '
            'threads while the recording is discarded/finalised: under every schedule of the model\'s micro-steps no step raises '
            'and each call is handed its body\'s outcome (partial: CPython\'s real switch points are explored, not proved).',
            'Trusted: Lean kernel; hand-written recorder model tied by differential execution; values opaque; CPython '
            'thread switching not modelled; known finding K6 (nested operation) excluded by hypothesis.', 'DESIGN.md 6/C04'),
    'C05': ('Lean 4 invariant proof (recording scope invariant preserved by every interpreter step, lifted to all programs) '
            'giving exactly-once finalisation; correspondence check with a spy cassette log and replay of every saved recording',
            'Kernel-checked: every operation adds exactly create i then exactly one of save i / abort i to the cassette log, '
            'for all programs, faults, discards, sampling outcomes, exceptions and interrupts; a discarded recording is never '
            'saved whatever the rest of the operation does; a finalised recording object is closed and rejects later writes '
            '(unless the cassette\'s save raised, in which case it stays open and nothing was stored); programs may flip the '
            'recorder\'s kill switch at any step (Prog.setEnabled): a recording in flight implies the switch is on (invariant over '
            'all programs, after fix F15) and switching recording off aborts the recording whatever follows.',
            'Trusted: Lean kernel; hand-written recorder model tied by differential execution; sequential programs.',
            'DESIGN.md 6/C05'),
    'C09': ('Lean 4 theorems: idle after every kind of run (induction on programs via the scope invariant), idle after any '
            'history (induction on the history), an idle state equals a fresh state up to the named persistent components; '
            'correspondence check compares each probe run with the same run on a fresh recorder',
            'Kernel-checked: after any operation, replay or history of runs the recorder is idle, and the result of any probe '
            'run equals what a fresh recorder with the same persistent components (enabled flag, PRNG/clock position, cassette) '
            'produces.',
            'Trusted: Lean kernel; hand-written recorder model tied by differential execution; thread-local flag modelled for '
            'one thread.', 'DESIGN.md 6/C09'),
    'C15': ('Lean 4 theorems over a hand-written model of the S3 facade and cassette (bucket + mutation log, key layout, two-put '
            'save, close); tied to /repo by differential execution of the REAL S3BasicFacade/S3TapeCassette on an in-memory fake '
            'bucket: operation sequences on 1-3 cassettes in every read_only x transient x prefix combination, a crash after each '
            'individual mutation of every save, re-read through a fresh read-only cassette',
            'Kernel-checked: a read-only cassette never mutates; every mutation lies under the issuing cassette\'s own full/ or '
            'metadata/ root in every interleaving; closing a writable transient cassette removes exactly those roots; '
            'prefix-unrelated neighbours and foreign objects are untouched; discoverable => fetchable is preserved by every history '
            'of saves cut at any mutation (fails with the puts swapped).',
            'Trusted: Lean kernel; model tied by differential execution only; the fake S3 (strong read-after-write, lexicographic '
            'listing); string-prefix reasoning over String.toList. Neighbour independence needs prefix-unrelated roots; the default '
            'prefix vs prefixes full/metadata is known finding K8.', 'DESIGN.md 6/C15'),
    'C16': ('Lean 4 theorems over the model of day-folder enumeration, last-modified predicate and the day-iterator merge; tied '
            'to /repo by an exhaustive hour grid over 4 days across a month boundary (start, explicit or default end, recording '
            'time), boundary and random minute-level instants, with a patched clock and fake bucket',
            'Kernel-checked: the lookup never raises and returns a recording iff it matches and s <= t <= e (explicit end) or '
            's <= t (default end, nothing newer than now), for every window alignment, choice stream and shuffle; none outside '
            'holds for any day enumeration; the pre-fix enumeration misses the 23:00->01:00 / 00:30 witness; the sub-second instants the harness also uses (second t -> t*10^6 + mu(t) microseconds) keep every comparison and every calendar day of the model\'s seconds (C16_subsecond_order, C16_subsecond_day).',
            'Trusted: strftime(%Y%m%d) is a parameter (injective, slash-free; passed as a table by the harness); datetime/'
            'timedelta as seconds/days; UTC process clock; create and save at the same instant.', 'DESIGN.md 6/C16'),
    'C10': ('Lean 4 theorems over models of the three lookup algorithms plus find_matching_recording_ids, reusing the C14 '
            'matcher model; tied to /repo by saving the same 0-12 recordings on the real in-memory, file and S3 (fake bucket, '
            'prefixes \'\', p, xmetadata, a/b, foreign objects) cassettes and running ~6 lookups each (filters from C14\'s '
            'generator, limits {None,0,1,2,n,n+3}, ordered/random, skip_incomplete)',
            'Kernel-checked for every cassette, directory order, choice stream and shuffle: never raises, sound, complete without '
            'a limit, duplicate-free, min(limit, matches), fetchable, same set on all cassettes for JSON-native metadata, '
            'skip-incomplete excludes exactly the flagged recordings, prefix-related categories cannot be confused; ids may hold '
            'dots (after fix F14 the file cassette strips only the extension: stem = splitext in the model).',
            'Known finding K3 (S3 filters the JSON text of the metadata) is transcribed in the model, hypothesised away in '
            'C10_same_set, exhibited by C10_k3_counterexample and witnessed in the corpus. Time windows are C16. Trusted: fake S3, '
            'filesystem, jsonpickle round trip of metadata, fnmatch parameter.', 'DESIGN.md 6/C10'),
    'C08': ('Lean 4 theorems over a hand-written parent/worker protocol state machine of Equalizer (per-epoch queues, recycle, '
            'bounded poll loop, death detection, kill and forget), tied to /repo by differential execution of scripted players '
            'in real worker processes, one subprocess per sequence',
            'Kernel-checked: for every id sequence, behaviour assignment, recycle rate, timeout and keep flag, the dedicated-'
            'process run equals the list of per-recording verdicts alone (count, order, label, status, message, replay, kept '
            'results); a fault changes only its own comparison; in-process and dedicated runs are equal on behaviours '
            'meaningful in both (a result the parent cannot unpickle, Beh.unreadable, is a failure of the dedicated mode only); the pre-fix shared queue is refuted by decide. The correspondence check runs the real '
            'Equalizer and the model on the same sequences on every run.',
            'Partial for runtime: multiprocessing pipes, feeder threads and signals are exercised, not proved. Trusted: Lean '
            'kernel; the model is tied by differential execution only; time is abstracted to the parent\'s 1 s polls; late is '
            'realised by a harness subclass delaying _kill_compare_process; realised timing re-read from logged timestamps.',
            'DESIGN.md 6/C08'),
    'C13': ('Same Equalizer protocol model extended with process liveness, busy set, served counts, join log, polls log and '
            'finish / stateAfter k; Lean 4 theorems by induction over the task list; tied to /repo by scripted runs observing '
            'wall time per comparison, worker pid per task and live non-zombie children after complete, closed and aborted '
            'consumption',
            'Kernel-checked: the wait is at most floor(timeout)+1 polls (1 when answered); after a hang, death or late answer '
            'the worker is forgotten and the next recording gets a brand-new idle worker and its own verdict; tasks per worker '
            '<= max(rate,1); every join is of an idle worker; after completion, early close or consumer abort at any k, finish '
            'leaves no live worker.',
            'Partial for OS behaviour. Assumes SIGKILL kills, an idle worker sees the terminate event, and CPython finalises an '
            'abandoned generator by reference counting. Wall-time bounds carry 5 s of slack; a time-out of the machinery is '
            'exit 2.', 'DESIGN.md 6/C13'),
    'C19': ('Lean 4 theorems over a model of PlaybackStudio.play, grouping by category, per-category tuning and '
            'find_matching_recording_ids on top of the Equalizer model, tied to /repo by differential execution of the real '
            'studio over really recorded operations on in-memory, file and fake-bucket S3 cassettes',
            'Kernel-checked: categories are reported sorted (explicit) or in first-occurrence order (lookup); played ids are a '
            'permutation of the given ids, each in its own category\'s group; each comparison is that category\'s tuning applied '
            'to that recording alone; a failing tuner changes only its own entry; lookup-driven runs play exactly the lookup of '
            'category k; a run with explicit ids is the same run under any lookup properties and cassette content (C19_explicit_ignores_lookup); any interleaving of next calls yields per-category prefixes of the sequential runs.',
            'Trusted: category names are mapped to ranks in Python string order; fake_s3 stands in for S3; lookup-driven runs '
            'are compared per category as sets with no limit set; the tie runs in-process mode only; the studio is an immutable value in the model (the check calls play() twice on the real object).', 'DESIGN.md 6/C19'),
    'C01': ('Lean 4 theorem by induction over interaction-tree programs with two stability lemmas (an input key keeps the '
            'world\'s envelope, an output-result key is never rewritten): replaying the final data of a record run reproduces '
            'every call outcome, runs no body and captures the recorded outputs one for one; lifted to the @operation / play() '
            'level; for worker threads an invariant proof over ALL schedules of a thread-level record/replay model (one atomic '
            'step per intercepted call); tied to /repo by differential execution and a record-then-replay oracle on all cassettes, '
            'threaded operations recorded and replayed on the real recorder under scheduler-chosen interleavings',
            'Kernel-checked: for every program (any calls, shared aliases, nested interceptions, data handlers) satisfying the '
            'property\'s premises (inputs are functions of their key, lawful handlers, no play_data in the control flow), a '
            'saved complete recording fetched with equal data replays to the same result with playback outputs = recorded outputs '
            'in call order and no body executed. Worker threads: for every pair of interleavings (record, replay) of any number '
            'of threads whose output aliases are thread-owned, every call is handed during replay what it was handed while '
            'recording and the captured outputs equal the recorded ones entry by entry. Partial: two concurrently running threads '
            'sending on ONE alias are outside the theorem (the ordinal depends on the schedule); CPython\'s switch points inside one '
            'interception are C04\'s micro-step model.',
            'Trusted: Lean kernel; recorder model tied by differential execution; values opaque (serialisation faithfulness is '
            'C06/C07; known finding K7 on shared references); cassette round trip is a hypothesis discharged by C07.',
            'DESIGN.md 6/C01'),
    'C02': ('Lean 4 theorems stating the replay decision table row by row (key error, first present key in fallback order, '
            'run-original, substitute, missing-key error; output result / default / error), no body runs during replay (induction '
            'on programs), play() touches the cassette with one get only, a replay restores the interpreter-visible core of the state '
            '(idempotence by induction over the list of earlier replays); tied to /repo by the exhaustive policy table with '
            'documentation-derived expected answers plus random (recorded, replayed) program pairs',
            'Kernel-checked for every recording and every replayed program: each interception is answered exactly as the '
            'documented policy says, never from another call\'s key, bodies run only under run-original, nothing is created / '
            'saved / aborted and the stored recordings are unchanged; any number of replays of one recording (with any other '
            'replays in between, also when the replayed code flips the enable switch) give the same answer '
            '(C02_replay_idempotent, C02_replay_after_replays); whole run: how a replay ends is a function of the recording, the '
            'output counters and the program alone (C02_answered_from_recording, C02_replay_depends_on_recording_only; '
            'premise: no run-original site).',
            'Trusted: Lean kernel; recorder model tied by differential execution; structured keys (text rendering is C06).',
            'DESIGN.md 6/C02'),
    'C03': ('Lean 4 theorems: each intercepted output call adds exactly one entry (alias, next ordinal) -> sent arguments in '
            'recording and in replay, ordinals start at 1, extraction picks exactly the output entries, the text of output keys '
            'is injective in (alias, ordinal) for all aliases and ordinals (List Char proof via the last #), whole-run equality '
            'from the C01 induction; the outputs of a run are the recorder numbering of its sequence of sends (planOutputs_eq_numberK), '
            'under key (alias, n) lies the n-th send on that alias (induction over the sends, any starting counters), hence two runs '
            'differ under a key iff it is (alias, n) and their n-th sends on that alias differ, and a single changed value shows '
            'under exactly one key; replay side by induction over the replayed program: the captured outputs of replaying any program '
            'against any recording are the numbering of the calls it makes along its replay path (replay_outputs_are_sent), so the '
            'recorded-versus-playback comparison differs exactly at the keys whose n-th sends differ; tied to /repo by program pairs (P, edit of P) whose expected output maps are computed from '
            'the programs alone',
            'Kernel-checked entry-level and whole-run statements for all programs; key-text injectivity for all aliases and '
            'all ordinals. The "difference at exactly the affected entries and nowhere else" sentence is a theorem for every pair '
            'of programs (C03_difference_exact, C03_entry_is_nth_send, C03_single_changed_value; recorded outputs of P against the outputs '
            'captured while any P\' replays against any recording: C03_playback_outputs_are_sent, C03_replay_difference_exact, '
            'for replayed programs without run-original sites), stated over the planned '
            'outputs of a run, which C03_recorded_is_sent ties to the recording the run leaves.',
            'Trusted: Lean kernel; recorder model tied by differential execution; known finding K4 (arguments stored by '
            'reference) excluded: values are immutable in the model; known finding K10 (a replay started inside a recorded operation restarts the output numbering) is outside the model: no replay is started from inside a recorded operation.', 'DESIGN.md 6/C03'),
    'C17': ('Lean 4 theorems: the finally-block of the recording scope computes exactly keep = forced or rate >= 1 or draw <= '
            'rate and consumes one draw iff that last test is reached; discard wins; a class ignoring forcing is never forced '
            '(invariant over all programs); content independence; the S3 size-based rule is the same function; tied to /repo by '
            'the exhaustive decision table (incl. draws equal to the rate) and seeded histories on the recorder\'s own Random(seed)',
            'Kernel-checked for every program and recorder state: skipped classes never touch the cassette; discarded => abort; '
            'otherwise save iff forced (and not ignored) or rate >= 1 or the next draw <= rate; exactly one draw iff needed; '
            'forcing never leaks into the next run; switching recording off mid-operation wins like a discard and touches no draw; enable_recording / disable_recording never touch the draw stream (C17_switch_keeps_stream). Kept fraction, counting form (induction on the history): over any history of '
            'N recorded, undiscarded, unforced operations of a class with rate < 1 exactly N draws are consumed in order and the '
            'number kept equals the number of those draws within the rate. That this fraction tends to the rate for independent '
            'uniform draws (law of large numbers) is NOT formalised: partial; the tie compares kept decisions with the seeded '
            'stream draw by draw.',
            'Trusted: Lean kernel; recorder model tied by differential execution; random.Random is a stream of exact rational '
            'draws; floats compared as exact dyadic rationals.', 'DESIGN.md 6/C17'),
    'C18': ('Lean 4 theorems: the saved recording carries class, exception flag of this run, clock difference, incomplete = no '
            'operation output, extractor result or nothing; incomplete iff interrupted via an invariant over all programs (no '
            'output under the operation alias before the implicit output) under the alias well-formedness hypothesis; tied to '
            '/repo by random programs terminating in every mode at every step with all extractor behaviours and a scripted clock',
            'Kernel-checked for every program, fault placement and termination point: metadata of a saved recording equals the '
            'documented function of the run; returned / ordinary exception => never incomplete, interrupt-style termination => '
            'always incomplete. Wall-time consistency is partial (the clock is a parameter); default lookup is C10.',
            'Trusted: Lean kernel; recorder model tied by differential execution; known finding K5 (alias containing the reserved '
            'operation alias) is excluded by hypothesis and exhibited as a counterexample theorem and corpus witness.',
            'DESIGN.md 6/C18'),
    'C06': ('Lean 4 theorems over a hand-written token- and character-level model of jsonpickle 0.9.3 over json (encToks/decToks/render, '
            'lexer with proofs by induction that it inverts rendering) and of '
            '_format_alias / _input_interception_key; tied to /repo by exact-text differential execution of every key (direct '
            'path and real decorator path), re-keying under PYTHONHASHSEED 0/1/random, replay in fresh processes with other hash '
            'seeds, a partition oracle and an adversarial separator stream',
            'Kernel-checked: the key is a function of (resolved alias, captured args); invariant under dict/kwargs insertion '
            'order at any depth, under excluded arguments, and (set-free args) under the set iteration order; the codec '
            'round-trips on the faithful domain at token level AND at text level (a character-level lexer provably recovers the '
            'tokens of every rendered stream; string and integer literals are rendered injectively, surrogate pairs included); '
            'the key TEXT is injective up to dict order (C06_key_text_injective: equal key strings => equal alias and equal '
            'captured arguments), for aliases without = and well-formed float texts.',
            'Partial as named: set-valued captured args (K1, open). Values are trees (py/id sharing outside). jsonpickle behaviour '
            'transcribed, not verified; float texts are Python reprs passed by the harness (well-formedness is an explicit '
            'decidable premise); bytes as their quoted-printable text.', 'DESIGN.md 6/C06'),
    'C07': ('Lean 4 theorems over a model of the three cassettes as name->blob stores over the same codec model (zlib a '
            'parameter); tied to /repo by running the real in-memory / file / S3 (fake bucket, prefixes \'\', p, a/b) '
            'cassettes and the model on the same histories, comparing fetched content, stored names and stored text',
            'Kernel-checked for every cassette kind: fetch-after-save returns the saved id, key set, per-key data and metadata '
            '(up to dict order); metadata alone agrees; other saves before and after do not disturb; never-saved ids give '
            'NoSuchRecording; cassette-made ids get distinct files.',
            'Codec at token level; that the stored TEXT carries exactly those tokens is C07_stored_text_decodes (character-level '
            'lexer). zlib, fake S3 and the file system are trusted. Excluded by explicit hypotheses: '
            'reserved-tag key names, attribute-less objects, S3 data key _metadata (K2, open), shared sub-objects after an object '
            'whose state holds a list (K7, open).', 'DESIGN.md 6/C07'),
    'C11': ('Lean 4 proof on a heap model of aliasing (addresses, fresh-copy allocation, closed private blocks, invariant over '
            'arbitrary client operation lists); tied to /repo by differential execution of scripted mutation histories on all '
            'three cassettes through every read path plus a direct stability / independence / copy-on-interception oracle',
            'Kernel-checked on the heap model for all operation lists: reads are fresh copies, fetches are independent object '
            'graphs, replays are stable under client mutation, copy-on-interception protects captured input values and output '
            'results. Partial at runtime: CPython object identity and jsonpickle decode(encode(v)) are exercised, not proved.',
            'Values are trees, so sharing inside one stored value is outside the model. Known finding K4 (output arguments stored '
            'by reference) is open, transcribed in the model and exhibited as a counterexample theorem.', 'DESIGN.md 6/C11'),
    'C20': ('Lean 4 proof on a hand-written model of the file data handlers (concrete base64 with a round-trip proof for all '
            'byte lists, exact-rational size rule, tiny file system with a read log); tied to /repo by full record -> cassette -> '
            'replay trips on all three cassettes with an open() audit hook and a direct byte-identity oracle',
            'Kernel-checked for all byte contents, paths and limits: content up to the limit is restored byte-identically at the '
            'replayed path (inputs) / in the holder (outputs); above the limit the placeholder is stored and the file is never '
            'read; the boundary is exact (L bytes not above, L+1 above); the environment limit is truncated.',
            'File-system semantics, Python float parsing and the envelope\'s jsonpickle trip are validated by the correspondence '
            'run only.', 'DESIGN.md 6/C20'),
    'C12': ('Lean 4 theorems over a hand-written transition system of the buffer/flusher/stop protocol (all schedules, all '
            'workloads, any wrapped cassette); tied to /repo by running the real AsyncRecordOnlyTapeCassette around a spy cassette '
            'under a deterministic sys.settrace scheduler and driving the model with the atomic events observed in each run',
            'Kernel-checked for every interleaving of any number of producers, flusher micro-steps, timer and close: no loss, no '
            'duplication, order preserved; everything appended before close is applied as a prefix once the flusher stops, and '
            'after close the flusher always can stop; per-producer program order; store and outcomes equal the synchronous twin; '
            'failures never block later ops; the lock is never held across a wrapped call; once the flusher has stopped nothing '
            'reaches the wrapped cassette any more (C12_stopped_is_final). The caller\'s side (PlaybackModel/AsyncCaller.lean: closed recordings, save, abort - an abort is never forwarded, a write to a finalised recording is refused before it is buffered): what the wrapper buffers for one caller\'s requests leaves, per recording, the data / metadata / saved snapshot of the same requests made directly, with the same outcomes seen by the caller (C12_caller_side), end to end under every schedule (C12_equals_direct_with_aborts); tied by the sequential family (real synchronous and asynchronous runs vs `direct` / `forward`). Broken variants are refuted. Sequential, unmodelled part of '
            'the tie: typed equal-but-different values under non-text keys and bursts of thousands of writes against recording directly.',
            'Partial: CPython switch points are explored within bounds (all schedules with <= k pre-emptions on 5 workloads plus '
            'random workloads and schedules at line and byte-code granularity); close()\'s join(timeout) expiring under a slow '
            'store is wall-clock behaviour outside the model; list.append and attribute stores assumed atomic; known finding K9 '
            '(values captured by reference until the flush).', 'DESIGN.md 6/C12'),
}

NOT_YET = 'check not built yet in this round (work in progress; see DESIGN.md section 6 for the planned proof and tie)'

ALL = ['C%02d' % i for i in range(1, 21)]


def main():
    checks = []
    for pid in ALL:
        if pid not in CLAIMED:
            continue
        tech, text, note, ref = CLAIMED[pid]
        if pid in SOURCE_ATOMS:
            tech += ('; the decision atoms ' + SOURCE_ATOMS[pid] + ' are regenerated from the source (AST) on every run into '
                     'PlaybackModel/Source.lean, the model consumes them and lake build re-checks the dependent theorems '
                     '(a proof that no longer checks is reported as proof-broken, with a concrete failing input when the '
                     'oracle finds one)')
        checks.append({
            'property_id': pid,
            'quick_cmd': '/venv/bin/python checks/check.py --prop %s --tier quick' % pid,
            'thorough_cmd': '/venv/bin/python checks/check.py --prop %s --tier thorough' % pid,
            'evidence_file': 'evidence/%s.json' % pid,
            'replay_cmd_template': '/venv/bin/python checks/check.py --prop %s --replay {path}' % pid,
            'engine': 'lean4-model+correspondence',
            'level_claimed': {'category': 'proof', 'text': text, 'design_ref': ref},
            'level_note': note,
            'technique': tech,
        })
    m = {
        'version': 1,
        'setup_cmd': 'python3 tools/gen_source_lean.py && cd lean && lake build',
        'hooks': {
            'guard': 'OPTIBUS_PLAYBACK_VERIF',
            'enable': 'none needed: no hook was added to /repo; the harness controls boto3, clocks, locks and the PRNG from outside',
            'baseline_off_cmd': 'cd /repo && /venv/bin/python -m pytest -ra -q -p no:cacheprovider --timeout=900 --continue-on-collection-errors',
            'source_commits': [],
            'add_only': True,
        },
        'engines': [{
            'name': 'lean4-model+correspondence',
            'path': 'checks/check.py',
            'serves_properties': sorted(CLAIMED),
            'kind_free_text': 'Lean 4 theorems about a hand-written executable model (lean/), tied to /repo on every run by a '
                              'differential correspondence check (harness/) that runs model and real code on the same cases, and by '
                              'a translator (tools/gen_source_lean.py) that regenerates the decision atoms of the model (comparison '
                              'operators, operator table, constants) from the source so that the theorems are re-checked against them',
        }],
        'checks': checks,
        'not_applicable': [{'property_id': pid, 'reason': NOT_YET} for pid in ALL if pid not in CLAIMED],
        'notes': 'Exit 2 = infrastructure error (never a VIOLATION). known_findings.json lists recorded and fixed defects.',
    }
    with open(os.path.join(VERIF, 'MANIFEST.json'), 'w') as f:
        json.dump(m, f, indent=1)
        f.write('\n')


if __name__ == '__main__':
    main()
