#!/usr/bin/env python3
"""Union over evidence/*.json of the repository lines the checks executed: per file, the executable lines no check reached."""
import glob
import json
import os
import sys

VERIF = os.path.dirname(os.path.dirname(os.path.abspath(__file__)))
sys.path.insert(0, VERIF)
from harness import covprobe  # noqa: E402

REPO = os.environ.get('VERIF_REPO', '/repo')
missed, seen_files = {}, set()
for p in sorted(glob.glob(os.path.join(VERIF, 'evidence', 'C*.json'))):
    ev = json.load(open(p))
    for f, r in (ev['coverage'].get('repo_lines_executed') or {}).items():
        seen_files.add(f)
        m = set(x for x in r['missed'] if isinstance(x, int))
        if '...' in r['missed']:
            continue            # truncated list: this check's contribution to the file is not usable for an intersection
        missed[f] = m if f not in missed else (missed[f] & m)
tot_e = tot_m = 0
for root, _, files in os.walk(os.path.join(REPO, 'playback')):
    for fn in files:
        if fn.endswith('.py') and fn != '__init__.py':
            rel = os.path.relpath(os.path.join(root, fn), REPO)
            ex = covprobe.executable_lines(os.path.join(root, fn))
            m = sorted(missed.get(rel, ex)) if rel in seen_files else sorted(ex)
            tot_e += len(ex)
            tot_m += len(m)
            print('%-75s %4d/%4d  missed: %s' % (rel, len(ex) - len(m), len(ex), m))
print('TOTAL executed by at least one check: %d/%d executable lines' % (tot_e - tot_m, tot_e))
