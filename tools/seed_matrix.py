#!/usr/bin/env python3
"""Prints the markdown table of DESIGN.md section 14 from /verif/seeded/*/meta.json."""
import glob
import json
import os

VERIF = os.path.dirname(os.path.dirname(os.path.abspath(__file__)))
rows = []
for d in sorted(glob.glob(os.path.join(VERIF, 'seeded', '*'))):
    m = json.load(open(os.path.join(d, 'meta.json')))
    checks = []
    for prop, runs in sorted(m.get('checks_run', {}).items()):
        r = runs[-1]
        if r['exit'] == 1:
            kind = 'failing input' if 'no-failing-input-found' not in r['first'] else 'correspondence only'
            checks.append('%s: VIOLATION (%s)' % (prop, kind))
        elif r['exit'] == 0:
            checks.append('%s: not detected' % prop)
        else:
            checks.append('%s: exit %s' % (prop, r['exit']))
    c = m.get('confirmed', {})
    ok = c.get('applies') and c.get('demo_on_repo') == 0 and c.get('demo_on_patched') == 1
    rows.append('| %s | %s | %s | %s | %s |' % (os.path.basename(d), (m.get('summary') or '').replace('|', '/').replace('\n', ' ')[:200],
                                             (m.get('needs') or '').replace('|', '/').replace('\n', ' ')[:160] if isinstance(m.get('needs'), str) else str(m.get('needs'))[:160],
                                             'yes' if ok else 'NO', '; '.join(checks)))
print('| seed | change | needs | confirmed (suite 105/105, demo 0 / 1) | checks |')
print('|---|---|---|---|---|')
print('\n'.join(rows))
