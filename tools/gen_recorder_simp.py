#!/usr/bin/env python3
"""Generates lean/PlaybackProofs/RecorderSimp.lean: which state components each recorder helper leaves untouched."""
import os
fields = ['enabled','active','forced','counter','playback','playbackOutputs','inInt','draws','drawn','clock','nextId','store','log','journal']
helpers = {
 'addJournal': ('(s : St) (e : String × Args)', 's e', ['journal'], 'simp only [addJournal]'),
 'addLog': ('(s : St) (e : Ev)', 's e', ['log'], 'simp only [addLog]'),
 'bump': ('(s : St) (a : String)', 's a', ['counter'], 'simp only [bump]'),
 'setInt': ('(s : St) (b : Bool)', 's b', ['inInt'], 'simp only [setInt]'),
 'resetActive': ('(s : St)', 's', ['active','forced','counter'], 'simp only [resetActive]'),
 'doDiscard': ('(s : St)', 's', ['active','forced','counter','log'], 'unfold doDiscard; split <;> simp only [resetActive, addLog]'),
 'doForce': ('(s : St)', 's', ['forced'], 'unfold doForce; split <;> (try split) <;> rfl'),
 'write': ('(s : St) (k : Key) (v : RVal)', 's k v', ['active'], 'unfold write; split <;> rfl'),
 'pushPlayback': ('(s : St) (k : Key) (v : RVal)', 's k v', ['playbackOutputs'], 'simp only [pushPlayback]'),
 'doRecordData': ('(s : St) (key : String) (v : Val)', 's key v', ['active'], 'unfold doRecordData; split <;> (try (unfold write; split)) <;> rfl'),
 'recordOutput': ('(s : St) (cfg : OutCfg) (n : Nat) (args : Args)', 's cfg n args', ['active','forced','counter','log','playbackOutputs'],
    'unfold recordOutput; split <;> (try split) <;> simp'),
 'afterInput': ('(cfg : InCfg) (args : Args) (k0 : Key) (s : St) (o : Out)', 'cfg args k0 s o', ['active','forced','counter','log'],
    'unfold afterInput; split <;> simp'),
 'afterOutput': ('(alias : String) (n : Nat) (s : St) (o : Out)', 'alias n s o', ['active'],
    'unfold afterOutput; split <;> simp'),
}
out = ['import PlaybackModel.Recorder', '/-! Generated projection lemmas: which state components each helper leaves untouched (tools/gen_recorder_simp.py). -/',
       'namespace PlaybackModel.Recorder', '']
for h,(binders, app, changed, tac) in helpers.items():
    for f in fields:
        if f in changed: continue
        out.append('@[simp] theorem %s_%s %s : (%s %s).%s = s.%s := by\n  %s' % (h, f, binders, h, app, f, f, tac))
out.append('')
out.append('end PlaybackModel.Recorder')
open(os.path.join(os.path.dirname(os.path.dirname(os.path.abspath(__file__))),'lean/PlaybackProofs/RecorderSimp.lean'),'w').write('\n'.join(out)+'\n')
