#!/usr/bin/env python3
"""Takes a candidate seeded change delivered by a sub-agent (<dir> with patch.diff, demo.py, meta.json), gives it the next
free id for its property, confirms it in a scratch worktree (applies, pinned suite 105/105, demo 0 on /repo and 1 on the
patched tree) and runs the property's check (plus --also) against it.  Kept under /verif/seeded/<id>/ only if confirmed.

usage: seed_intake.py <candidate dir> [--also C04,C09] [--seedvals 0,1] [--tier quick]"""
import argparse
import json
import os
import shutil
import subprocess
import sys
import tempfile

VERIF = os.path.dirname(os.path.dirname(os.path.abspath(__file__)))

ap = argparse.ArgumentParser()
ap.add_argument('cand')
ap.add_argument('--also', default='')
ap.add_argument('--seedvals', default='0,1')
ap.add_argument('--tier', default='quick')
args = ap.parse_args()
meta = json.load(open(os.path.join(args.cand, 'meta.json')))
prop = meta['property'][:3]
n = 1
while os.path.exists(os.path.join(VERIF, 'seeded', '%s-%d' % (prop, n))):
    n += 1
name = '%s-%d' % (prop, n)
tmp = tempfile.mkdtemp(prefix='intake-')
stage = os.path.join(tmp, name)
shutil.copytree(args.cand, stage)
props = ','.join([prop] + [p for p in args.also.split(',') if p])
p = subprocess.run([sys.executable, os.path.join(VERIF, 'tools', 'seed_check.py'), stage, '--props', props, '--baseline',
                    '--seedvals', args.seedvals, '--tier', args.tier], capture_output=True, text=True)
try:
    out = json.loads(p.stdout)
except Exception:
    print('seed_check failed:', p.stdout[-2000:], p.stderr[-2000:])
    sys.exit(2)
ok = out.get('applies') and out.get('baseline_ok') and out.get('demo_on_repo') == 0 and out.get('demo_on_patched') == 1
print(name, 'confirmed' if ok else 'NOT CONFIRMED', {k: out.get(k) for k in ('applies', 'baseline_ok', 'demo_on_repo', 'demo_on_patched')})
for pr, runs in out.get('checks', {}).items():
    for r in runs:
        print('   %s seed %s: exit %s %s | %s' % (pr, r['verif_seed'], r['exit'], r['first'][-70:], r['detail'][:220]))
if ok:
    dst = os.path.join(VERIF, 'seeded', name)
    os.makedirs(dst)
    for f in ('patch.diff', 'demo.py'):
        shutil.copy(os.path.join(stage, f), os.path.join(dst, f))
    meta['confirmed'] = {k: out.get(k) for k in ('applies', 'baseline_ok', 'demo_on_repo', 'demo_on_patched')}
    meta['checks_run'] = out['checks']
    meta['round'] = 9
    meta['what_was_run'] = ('tools/seed_intake.py -> tools/seed_check.py: patch applied in a scratch git worktree of /repo, pinned suite '
                            'compared with the baseline, demo.py run on /repo and on the patched tree, checks run with VERIF_REPO=<worktree>')
    json.dump(meta, open(os.path.join(dst, 'meta.json'), 'w'), indent=1)
else:
    print(json.dumps(out, indent=1)[:3000])
shutil.rmtree(tmp, ignore_errors=True)
