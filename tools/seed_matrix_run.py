#!/usr/bin/env python3
"""Re-runs every kept seeded change (or those named on the command line) against the current checks, three at a time, and
stores the results in seeded/<id>/meta.json.  Do not rebuild lean/ while this runs (a check that meets a half-built driver
exits 2).   usage: seed_matrix_run.py [--only-exit2] [ids...]"""
import json
import os
import subprocess
import sys
from concurrent.futures import ThreadPoolExecutor

VERIF = os.path.dirname(os.path.dirname(os.path.abspath(__file__)))
args = [a for a in sys.argv[1:] if not a.startswith('--')]
only2 = '--only-exit2' in sys.argv
jobs = []
for s in sorted(os.listdir(os.path.join(VERIF, 'seeded'))):
    if args and s not in args:
        continue
    m = json.load(open(os.path.join(VERIF, 'seeded', s, 'meta.json')))
    props = sorted(set(m.get('checks_run', {})) | {s[:3]})
    if only2:
        props = [p for p in props if any(r['exit'] not in (0, 1) for r in m.get('checks_run', {}).get(p, [{'exit': 2}]))]
        if not props:
            continue
    jobs.append((s, props))


def run(job):
    s, props = job
    p = subprocess.run([sys.executable, os.path.join(VERIF, 'tools', 'seed_check.py'), os.path.join(VERIF, 'seeded', s),
                        '--props', ','.join(props), '--keep'], capture_output=True, text=True)
    try:
        d = json.loads(p.stdout)
        return s, {k: [r['exit'] for r in v] for k, v in d['checks'].items()}
    except Exception:
        return s, 'FAILED: ' + (p.stdout + p.stderr)[-300:]


os.environ['VERIF_KEEP_LEAN_COPIES'] = '1'      # concurrent seed checks share private Lean copies: removed once, at the end
with ThreadPoolExecutor(int(os.environ.get("SEED_MATRIX_JOBS", "3"))) as ex:
    for s, res in ex.map(run, jobs):
        print(s, res, flush=True)
import shutil
for d in os.listdir(os.path.join(VERIF, 'replays')):
    if d.startswith('lean-'):
        shutil.rmtree(os.path.join(VERIF, 'replays', d), ignore_errors=True)
