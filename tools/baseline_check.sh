#!/bin/bash
# Runs the repository's pinned baseline suite (guard off) in $1 (default /repo) and compares the passing set to /root/.vp/BASELINE.json
set -u
OUT=$(mktemp /tmp/baseline.XXXXXX.xml)
cd "${1:-/repo}" && PYTHONPATH="${1:-/repo}" /venv/bin/python -m pytest -ra -q -p no:cacheprovider --timeout=900 --continue-on-collection-errors --junitxml=$OUT >/dev/null 2>&1
/venv/bin/python - "$OUT" <<'PY'
import sys, json, xml.etree.ElementTree as ET
base=set(json.load(open('/root/.vp/BASELINE.json'))['stable_pass'])
t=ET.parse(sys.argv[1]); ok=set()
for tc in t.iter('testcase'):
    if not any(c.tag in('failure','error','skipped') for c in tc):
        ok.add(tc.get('classname')+'::'+tc.get('name'))
missing=sorted(base-ok)
print('baseline tests passing: %d/%d'%(len(base&ok),len(base)))
for m in missing: print('  MISSING',m)
sys.exit(1 if missing else 0)
PY
rc=$?
rm -f $OUT
exit $rc
