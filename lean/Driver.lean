import Drive.Json
import Drive.C14
import Drive.Async
import Drive.Equalizer
import Drive.Studio
import Drive.S3
import Drive.Lookup
import Drive.Codec
import Drive.Files
import Drive.Heap
import Drive.Recorder
import Drive.Threads
/-! Line-protocol driver: one JSON object per line on stdin (`{"m": <handler>, …}`), one JSON value per line on
stdout (`{"ok": …}` or `{"err": …}`).  Runs the executable definitions of the model. -/
open Lean

def allHandlers : List (String × Drive.Handler) :=
  Drive.C14.handlers ++ Drive.Async.handlers ++ Drive.Equalizer.handlers ++ Drive.Studio.handlers ++
  Drive.S3.handlers ++ Drive.Lookup.handlers ++ Drive.Codec.handlers ++ Drive.Files.handlers ++
  Drive.Heap.handlers ++ Drive.Recorder.handlers ++ Drive.Threads.handlers

def dispatch (line : String) : Json :=
  match Json.parse line with
  | .error e => Json.mkObj [("err", Json.str s!"parse: {e}")]
  | .ok j =>
    match j.getObjValAs? String "m" with
    | .error _ => Json.mkObj [("err", Json.str "no handler name")]
    | .ok m =>
      match allHandlers.lookup m with
      | none => Json.mkObj [("err", Json.str s!"unknown handler {m}")]
      | some h =>
        match h j with
        | .ok r => Json.mkObj [("ok", r)]
        | .error e => Json.mkObj [("err", Json.str e)]

partial def loop (hin : IO.FS.Stream) (hout : IO.FS.Stream) : IO Unit := do
  let line ← hin.getLine
  if line.isEmpty then return ()
  let t := line.trimAscii.toString
  if !t.isEmpty then
    hout.putStrLn (dispatch t).compress
  loop hin hout

def main : IO Unit := do
  let hin ← IO.getStdin
  let hout ← IO.getStdout
  loop hin hout
  hout.flush
