import PlaybackProofs.Heap
/-!
# C11 — Recorded data cannot be altered through the values handed out

Property theorems only; the heap model is `PlaybackModel/Heap.lean`, helper lemmas are in `PlaybackProofs/Heap.lean`.
The client is an ARBITRARY list of operations (`fetch`, `getData`, `getMeta`, `setData`, `new`, `mutate`, `replay`,
`recordIn`, `recordOut`, `save`); `mutate` and the operations taking client addresses act only on addresses the client
has been handed or has allocated (`St.known`) - that is the model's reading of "through the values handed out".
`cfg.direct = false` is the code as it is (`get_data` = `pickle_copy(get_data_direct)`).
-/
namespace Properties.C11
open PlaybackModel.Heap

/-- **Frame.**  Writing a cell that is not visited when reading from `root` does not change what is read. -/
theorem C11_heap_frame (h : Heap) (x : Nat) (c : Cell) (f : Nat) (root : Nat) (hx : x ∉ reach h f root) :
    hread (write h x c) f root = hread h f root :=
  hread_frame h x c f root hx

/-- **Copies are fresh.**  `pickle_copy` only appends cells; the copy's address and everything reachable from it lie in
the appended range, that range points only into itself, the old cells are untouched, and the copy reads as the original. -/
theorem C11_copy_fresh (h : Heap) (a : Nat) :
    (∃ e, (copyAt h a).1 = h ++ e) ∧ h.length ≤ (copyAt h a).2 ∧ (copyAt h a).2 < (copyAt h a).1.length ∧
    Closed (copyAt h a).1 h.length (copyAt h a).1.length ∧
    (∀ f, ∀ x ∈ reach (copyAt h a).1 f (copyAt h a).2, h.length ≤ x ∧ x < (copyAt h a).1.length) ∧
    (∀ t, Reads h a t → readD (copyAt h a).1 (copyAt h a).2 = t) := by
  have ok := alloc_ok (readD h a) h
  refine ⟨ok.ext, ok.lo, ok.hi, ok.closed, ?_, ?_⟩
  · intro f x hx
    exact reach_closed _ _ _ ok.closed f _ ok.lo ok.hi x hx
  · intro t ht
    unfold copyAt
    rw [ht.readD]
    exact (alloc_reads h t).readD

/-- **Reads are stable.**  In every reachable state, whatever the client does next - EVERY list of operations - each cell
of every private block (the object graph of a fetched recording's data, a value captured with copy-on-interception)
reads exactly as before, at every depth. -/
theorem C11_reads_stable (cfg : Cfg) (hd : cfg.direct = false) (store : List Saved) (pre ops : List ClientOp)
    (b : Block) (hb : b ∈ (runClient cfg (init store) pre).owned) (root : Nat) (h1 : b.lo ≤ root) (h2 : root < b.hi)
    (f : Nat) :
    hread (runClient cfg (runClient cfg (init store) pre) ops).heap f root =
      hread (runClient cfg (init store) pre).heap f root :=
  reads_stable cfg hd _ (runClient_good cfg hd pre _ (inv_init store)).1 ops b hb root h1 h2 f

/-- … and the roots that `get_data` reads from on a freshly fetched recording object are such cells: for every key the
root lies in a private block and holds the stored text. -/
theorem C11_fetched_roots_private (st : St) (id : Nat) (sv : Saved) (hs : st.store[id]? = some sv) (k : String)
    (root : Nat) (hr : rootOf (fetch st id) st.recs.length k = some root) :
    (∃ b ∈ (fetch st id).owned, b.lo ≤ root ∧ root < b.hi) ∧
    viewData (fetch st id) st.recs.length k = storedTree sv k :=
  ⟨fetch_roots_private st id sv hs k root hr, (fetch_view st id sv hs k).1⟩

/-- **Reads are stable, at the level of the API.**  Fetch a recording in any reachable state; whatever the client does
next - every list of operations that does not itself overwrite a key of THAT recording object with `recs[r][k] = …` -
`get_data(k)` on that object returns the same value as right after the fetch, namely the stored text. -/
theorem C11_get_data_stable (cfg : Cfg) (hd : cfg.direct = false) (store : List Saved) (pre ops : List ClientOp)
    (id : Nat) (sv : Saved) (k : String)
    (hs : (runClient cfg (init store) pre).store[id]? = some sv)
    (hops : ∀ op ∈ ops, touchesRec (runClient cfg (init store) pre).recs.length op = false) :
    viewData (runClient cfg (fetch (runClient cfg (init store) pre) id) ops) (runClient cfg (init store) pre).recs.length k =
      storedTree sv k ∧
    viewData (fetch (runClient cfg (init store) pre) id) (runClient cfg (init store) pre).recs.length k = storedTree sv k := by
  generalize hst : runClient cfg (init store) pre = st at hs hops
  have hi : Inv st := by rw [← hst]; exact (runClient_good cfg hd pre _ (inv_init store)).1
  have hg := fetch_good st id hi
  obtain ⟨hv, _, hlen, hroots⟩ := fetch_view st id sv hs k
  refine ⟨?_, hv⟩
  have hrecs := runClient_recs cfg st.recs.length ops (fetch st id) (by omega) hops
  have hroot : rootOf (runClient cfg (fetch st id) ops) st.recs.length k = rootOf (fetch st id) st.recs.length k := by
    unfold rootOf; rw [hrecs]
  unfold viewData at hv ⊢
  rw [hroot]
  cases hr : rootOf (fetch st id) st.recs.length k with
  | none => rw [hr] at hv; exact hv
  | some root =>
    obtain ⟨t, ht, hrd⟩ := hroots root hr
    obtain ⟨b, hb, h1, h2⟩ := fetch_roots_private st id sv hs k root hr
    obtain ⟨_, _, _, _, hl⟩ := runClient_good cfg hd ops _ hg.1
    rw [ht]
    simp only [Option.map_some, Option.some.injEq]
    exact readD_stable hrd hl (fun f => reads_stable cfg hd _ hg.1 ops b hb root h1 h2 f)

/-- **Fetches are independent.**  What a fresh `get_recording(id)` hands out, key by key, is the same after any list of
client operations as before (it is a function of the cassette's immutable text, which only grows). -/
theorem C11_fetches_independent (cfg : Cfg) (hd : cfg.direct = false) (store : List Saved) (pre ops : List ClientOp)
    (id : Nat) (hid : id < (runClient cfg (init store) pre).store.length) :
    fetchView (runClient cfg (runClient cfg (init store) pre) ops) id =
      fetchView (runClient cfg (init store) pre) id := by
  obtain ⟨_, _, _, ⟨e, he⟩, _⟩ := runClient_good cfg hd ops _ (runClient_good cfg hd pre _ (inv_init store)).1
  rw [fetchView_eq, fetchView_eq, he, store_prefix hid]

/-- **Replays are stable.**  The values a `play(id)` hands to the replayed code and to the comparison (copies of the
recorded inputs and outputs) are the same after any list of client operations - in particular after the replayed code
of an earlier replay mutated every value injected into it. -/
theorem C11_replay_stable (cfg : Cfg) (hd : cfg.direct = false) (store : List Saved) (pre ops : List ClientOp)
    (id : Nat) (hid : id < (runClient cfg (init store) pre).store.length) :
    replayView cfg (runClient cfg (runClient cfg (init store) pre) ops) id =
      replayView cfg (runClient cfg (init store) pre) id := by
  obtain ⟨_, _, _, ⟨e, he⟩, _⟩ := runClient_good cfg hd ops _ (runClient_good cfg hd pre _ (inv_init store)).1
  have h1 := replay_view cfg hd (runClient cfg (runClient cfg (init store) pre) ops) id
  have h2 := replay_view cfg hd (runClient cfg (init store) pre) id
  rw [he] at h1
  unfold storedReplay at h1 h2
  rw [store_prefix hid] at h1
  rw [← h2] at h1
  exact (List.map_inj_right (fun _ _ h => Option.some.inj h)).mp h1

/-- **Copy on interception.**  With `copy_data_on_intercepion` enabled, once an intercepted input value (or an output's
result) at client address `a` has been captured under key `k`, what `save` would write for that capture is the value as it
was at capture time - after EVERY list of later client operations (mutations of `a` and of everything reachable from it
included). -/
theorem C11_copy_on_interception (cfg : Cfg) (hd : cfg.direct = false) (hc : cfg.copyOnIntercept = true)
    (store : List Saved) (pre : List ClientOp) (k : String) (a : Nat)
    (ha : a ∈ (runClient cfg (init store) pre).known) :
    ∃ root, (recordIn cfg (runClient cfg (init store) pre) k a).active.lookup k = some root ∧
      ∀ ops, readD (runClient cfg (recordIn cfg (runClient cfg (init store) pre) k a) ops).heap root =
        .node "dict" ["value"] [readD (runClient cfg (init store) pre).heap a] := by
  generalize hst : runClient cfg (init store) pre = st at ha
  have hi : Inv st := by rw [← hst]; exact (runClient_good cfg hd pre _ (inv_init store)).1
  have hg := recordIn_good cfg st k a hi
  have hak : st.known.contains a = true := by simpa using ha
  refine ⟨(alloc st.heap (.node "dict" ["value"] [readD st.heap a])).2, ?_, ?_⟩
  · simp only [recordIn, hak, hc, if_true]
    exact lookup_assocSet _ _ _
  · intro ops
    have hown : (⟨st.heap.length, (alloc st.heap (.node "dict" ["value"] [readD st.heap a])).1.length⟩ : Block) ∈
        (recordIn cfg st k a).owned := by
      simp [recordIn, ha, hc]
    have ok := alloc_ok (.node "dict" ["value"] [readD st.heap a]) st.heap
    have hheap : (recordIn cfg st k a).heap = (alloc st.heap (.node "dict" ["value"] [readD st.heap a])).1 := by
      simp [recordIn, ha, hc]
    obtain ⟨_, _, _, _, hlen⟩ := runClient_good cfg hd ops _ hg.1
    refine readD_stable (h := (recordIn cfg st k a).heap) ?_ hlen ?_
    · rw [hheap]; exact alloc_reads _ _
    · intro f
      refine reads_stable cfg hd _ hg.1 ops _ hown _ ok.lo ?_ f
      exact ok.hi

/-! ### counterexamples (concrete, by evaluation) -/

def sv0 : Saved := { data := [("k", .node "list" [] [.atom "1"])], md := .atom "m" }
def asIs : Cfg := { copyOnIntercept := false, direct := false }
def directCfg : Cfg := { copyOnIntercept := false, direct := true }
def copyCfg : Cfg := { copyOnIntercept := true, direct := false }

/-- With `get_data := get_data_direct` the stability theorem fails: fetch, read key "k" (the stored list itself is handed
out), clear it in place - a second read on the same recording object sees the mutation.  The same script on the code as
it is leaves the second read unchanged. -/
theorem C11_direct_counterexample :
    let script : List ClientOp := [.fetch 0, .getData 0 "k", .mutate 1 (.node "list" [] [])]
    viewData (runClient directCfg (init [sv0]) [.fetch 0]) 0 "k" = some (.node "list" [] [.atom "1"]) ∧
    viewData (runClient directCfg (init [sv0]) script) 0 "k" = some (.node "list" [] []) ∧
    viewData (runClient asIs (init [sv0]) script) 0 "k" = some (.node "list" [] [.atom "1"]) := by
  decide

/-- Known finding K4 (`output-args-not-copied`) in the model: the ARGUMENTS of an output call are stored by reference
even with copy-on-interception, so mutating an argument after the call changes what is saved - whereas the same value
captured as an intercepted input is protected. -/
theorem C11_output_args_counterexample :
    let mk : List ClientOp := [.new (.node "list" [] [.atom "1"])]          -- the client builds l = [1] (address 1)
    let out : List ClientOp := mk ++ [.recordOut "o" [1] [] [], .mutate 1 (.node "list" [] [0, 0])]   -- out(l); l.append(1)
    let inp : List ClientOp := mk ++ [.recordIn "i" 1, .mutate 1 (.node "list" [] [0, 0])]
    activeView (runClient copyCfg (init []) out) "o" =
      some (.node "dict" ["args", "kwargs"] [.node "list" [] [.node "list" [] [.atom "1", .atom "1"]], .node "dict" [] []]) ∧
    activeView (runClient copyCfg (init []) inp) "i" = some (.node "dict" ["value"] [.node "list" [] [.atom "1"]]) := by
  decide

/-! ### the hypotheses are satisfiable -/

example : (runClient asIs (init [sv0]) [.fetch 0]).owned = [⟨0, 2⟩] ∧
    rootOf (runClient asIs (init [sv0]) [.fetch 0]) 0 "k" = some 1 ∧
    (0 : Nat) < (runClient asIs (init [sv0]) [.fetch 0]).store.length := by decide

example : touchesRec 0 (.mutate 3 (.node "list" [] [])) = false ∧ touchesRec 0 (.setData 1 "k" 3) = false := by decide

example : (1 : Nat) ∈ (runClient copyCfg (init []) [.new (.node "list" [] [.atom "1"])]).known := by decide

example : Reads [Cell.atom "1", .node "list" [] [0]] 1 (.node "list" [] [.atom "1"]) := ⟨2, by decide, by decide⟩

end Properties.C11
