import PlaybackProofs.Lex
import PlaybackProofs.Cassette
/-!
# C07 — Stored recordings round-trip through every cassette

Property theorems only; the model is `PlaybackModel/Cassette.lean` over the codec model `PlaybackModel/Codec.lean`,
helper lemmas in `PlaybackProofs/Cassette.lean`.  `z : Zip` is zlib as a parameter (`Lawful`: decompress ∘ compress = id).

What comes back from a fetch is `r.canon`: the same id, and data / metadata with every dict sorted by key
(`decode` builds dicts in sorted order; a Python dict compares equal regardless of order).  `C07_roundtrip_keys` and
`C07_roundtrip_data` restate this per key; `C07_roundtrip_exact` is the identity for recordings already in that form.
-/
namespace Properties.C07
open PlaybackModel.Codec PlaybackModel.Cassette

/-- A recording fetched by id after it was saved — into any store content `s`, i.e. after any other saves — is the
recording that was saved, for every cassette kind. -/
theorem C07_roundtrip (z : Zip) (hz : z.Lawful) (c : Kind) (s : Store) (r : Recording) (h : r.WF c) :
    get z c (save z c s r) r.id = .ok r.canon ∧ r.canon.id = r.id ∧
      r.canon.data = sortDictsF r.data ∧ r.canon.metadata = sortDictsF r.metadata := by
  obtain ⟨h1, h2, _, h4, h5, h6⟩ := h
  refine ⟨get_save_same z hz c s r ?_, rfl, canonF_eq_sortDictsF _ h1 h2, canonF_eq_sortDictsF _ h4 h5⟩
  cases c <;> simp_all

/-- … it has the same set of keys … -/
theorem C07_roundtrip_keys (c : Kind) (r : Recording) (h : r.WF c) (k : String) :
    k ∈ r.canon.data.keys ↔ k ∈ r.data.keys :=
  canonF_keys k r.data h.2.1

/-- … and under every key the stored value, round-tripped (dicts inside it sorted by key). -/
theorem C07_roundtrip_data (c : Kind) (r : Recording) (h : r.WF c) (k : String) :
    r.canon.data.lookup k = (r.data.lookup k).map canon :=
  canonF_lookup k r.data h.2.1 h.2.2.1

/-- For a recording whose dicts are already in key order the fetched recording is literally the saved one. -/
theorem C07_roundtrip_exact (z : Zip) (hz : z.Lawful) (c : Kind) (s : Store) (r : Recording) (h : r.WF c)
    (hd : (Val.dict r.data).Canonical) (hm : (Val.dict r.metadata).Canonical) :
    get z c (save z c s r) r.id = .ok r := by
  obtain ⟨g, _, e1, e2⟩ := C07_roundtrip z hz c s r h
  rw [g]
  have d : sortDictsF r.data = r.data := by
    have := sortDicts_canonical (.dict r.data) hd
    simpa [sortDicts] using this
  have m : sortDictsF r.metadata = r.metadata := by
    have := sortDicts_canonical (.dict r.metadata) hm
    simpa [sortDicts] using this
  cases r
  simp only [Recording.canon] at *
  simp_all

def sampleRecording : Recording :=
  ⟨"Op/0123456789abcdef0123456789abcdef",
   .cons "input: f args=[\"x\"], kwargs=[]" (.tuple (.cons (.int 1) (.cons (.bytes "=FF") .nil)))
     (.cons "output: g #1.result" (.obj "m.C" (.cons "a" .none .nil)) .nil),
   .cons "duration" (.float "0.5") .nil⟩

example : ∀ c, sampleRecording.WF c := by
  intro c
  refine ⟨?_, ?_, ?_, ?_, ?_, ?_⟩
  · simp [sampleRecording, Fields.WF, Val.WF, Vals.WF, Fields.NoReserved, Fields.NonEmpty, isReserved]
  · simp only [sampleRecording, Fields.NoReserved]; decide
  · simp only [sampleRecording, Fields.DistinctKeys, Fields.keys]; decide
  · simp [sampleRecording, Fields.WF, Val.WF]
  · simp only [sampleRecording, Fields.NoReserved]; decide
  · cases c
    · trivial
    · trivial
    · simp only [sampleRecording, Fields.keys]; decide

example : Zip.id.Lawful := fun _ => rfl

/-- Metadata fetched on its own agrees with the metadata of the full recording. -/
theorem C07_metadata_agrees (z : Zip) (hz : z.Lawful) (c : Kind) (s : Store) (r : Recording) (h : r.WF c) :
    getMetadata z c (save z c s r) r.id = .ok r.canon.metadata ∧
    ∃ r', get z c (save z c s r) r.id = .ok r' ∧ r'.metadata = r.canon.metadata :=
  ⟨getMetadata_save_same z hz c s r, r.canon, (C07_roundtrip z hz c s r h).1, rfl⟩

/-- Frame: saving another recording (before: any `s`; after: this theorem) does not change what a fetch of `id`
returns — full recording and metadata alike. -/
theorem C07_frame (z : Zip) (c : Kind) (s : Store) (r : Recording) (id : String) (h : Apart c id r.id) :
    get z c (save z c s r) id = get z c s id ∧ getMetadata z c (save z c s r) id = getMetadata z c s id :=
  ⟨get_save_frame z c s r id h, getMetadata_save_frame z c s r id h⟩

/-- Any sequence of saves of other recordings before and after leaves the round trip intact. -/
theorem C07_roundtrip_among_others (z : Zip) (hz : z.Lawful) (c : Kind) (before after : List Recording) (r : Recording)
    (h : r.WF c) (ha : ∀ o ∈ after, Apart c r.id o.id) :
    get z c (saveAll z c (save z c (saveAll z c [] before) r) after) r.id = .ok r.canon ∧
    getMetadata z c (saveAll z c (save z c (saveAll z c [] before) r) after) r.id = .ok r.canon.metadata := by
  rw [get_saveAll_frame z c r.id after _ ha, getMetadata_saveAll_frame z c r.id after _ ha]
  exact ⟨(C07_roundtrip z hz c _ r h).1, getMetadata_save_same z hz c _ r⟩

example : Apart .file "Op/0123456789abcdef0123456789abcdef" "Op/1123456789abcdef0123456789abcdef" := by
  refine ⟨by decide, ?_, ?_⟩
  · exact ⟨"Op".toList, "0123456789abcdef0123456789abcdef".toList, by decide, by decide, by decide, by decide⟩
  · exact ⟨"Op".toList, "1123456789abcdef0123456789abcdef".toList, by decide, by decide, by decide, by decide⟩

/-- Fetching an id that was never saved signals `NoSuchRecording` — full recording and metadata, every cassette. -/
theorem C07_unknown (z : Zip) (c : Kind) (history : List Recording) (id : String)
    (h : ∀ r ∈ history, Apart c id r.id) :
    get z c (saveAll z c [] history) id = .error (.noSuchRecording id) ∧
    getMetadata z c (saveAll z c [] history) id = .error (.noSuchRecording id) := by
  rw [get_saveAll_frame z c id history [] h, getMetadata_saveAll_frame z c id history [] h]
  cases c <;> simp [PlaybackModel.Cassette.get, getMetadata, Except.map]

/-- Defect F3 (repaired by f421e79) in the model: the unrepaired in-memory lookup answered an unknown id with `None`. -/
theorem C07_unknown_unfixed_counterexample : getMemoryUnfixed [] "nope" = .ok none := rfl

/-- Distinct cassette-made ids get distinct files. -/
theorem C07_file_name_injective (i j : String) (hi : IdWF i) (hj : IdWF j) (h : fileName i = fileName j) : i = j :=
  fileName_inj i j hi hj h

/-- … while hand-made ids may collide (outside `IdWF`): `a/b` and `a_b` share a file. -/
theorem C07_file_name_collision_counterexample : fileName "a/b" = fileName "a_b" ∧ "a/b" ≠ "a_b" := by
  refine ⟨?_, by decide⟩
  have e1 : "a/b".toList = ['a', '/', 'b'] := by decide
  have e2 : "a_b".toList = ['a', '_', 'b'] := by decide
  simp [fileName, replaceSlash, e1, e2]

/-- Known finding K2 in the model: on S3 a data key literally named `_metadata` is overwritten by the metadata on
save and is missing from the fetched recording. -/
theorem C07_s3_metadata_key_counterexample (z : Zip) (hz : z.Lawful) (kp : String) (s : Store) :
    ∃ r : Recording, r.data.lookup "_metadata" = some (.int 1) ∧
      get z (.s3 kp) (save z (.s3 kp) s r) r.id = .ok ⟨r.id, .nil, r.metadata⟩ := by
  refine ⟨⟨"Op/20260101/0123456789abcdef0123456789abcdef", .cons "_metadata" (.int 1) .nil, .nil⟩, ?_, ?_⟩
  · simp [Fields.lookup]
  · have a : fullKey kp "Op/20260101/0123456789abcdef0123456789abcdef" ≠
        metaKey kp "Op/20260101/0123456789abcdef0123456789abcdef" := fullKey_ne_metaKey kp _ _
    have hk : isReserved "_metadata" = false := by decide
    simp [PlaybackModel.Cassette.get, save, a, hz _, decodeToks_encToks, s3FullVal, Fields.set, canon, canonF, hk, Fields.insert,
      s3RecordingOfVal, Fields.pop]

/-- **The stored TEXT carries exactly the stored tokens.**  The theorems above read blobs as token streams; what a cassette
physically writes is their text (`render`).  Lexing that text character by character (`decodeText`: string escapes incl.
surrogate pairs, numbers, punctuation) gives back precisely what the token-level decoder sees - for the in-memory / file
object form, for the S3 full form and for the S3 metadata object alike.  Premise: float texts inside the recording are well
formed `repr`s. -/
theorem C07_stored_text_decodes (v : Val) (hf : ∀ t ∈ encToks v, t.WF) :
    decodeText (encodeText v) = decodeToks (encToks v) :=
  decodeText_eq_decodeToks v hf

example : ∀ t ∈ encToks (recordingVal ⟨"Op/1", .cons "k" (.float "0.5") .nil, .cons "m" (.str "x\ny") .nil⟩), t.WF := by decide

end Properties.C07
