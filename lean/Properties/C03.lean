import PlaybackProofs.RecorderSent
import PlaybackProofs.OutKey
import PlaybackProofs.OutDiff
import PlaybackProofs.OutDiffReplay
/-!
# C03 — Captured outputs are exactly what the executing code sent

One entry per intercepted output call, keyed by alias and per-alias ordinal starting at 1, carrying the call's positional
arguments (the model's `Args` never contain the instance) and keyword arguments — or what the output data handler
prepared —, plus one entry for the operation's return value / exception.
-/
namespace Properties.C03
open PlaybackModel.Recorder PlaybackModel.OutKey

/-- While recording, an intercepted output call with alias `al`, made when `al` was called `c` times before, adds
exactly the entry `(al, c+1) ↦ sent arguments` to the recording and makes `c+1` the alias' count. -/
theorem C03_recorded_entry (s : St) (a : Active) (cfg : OutCfg) (args : Args) (v : RVal)
    (hp : s.playback = none) (ha : s.active = some a) (hv : outValue cfg args = some v) :
    (recordOutput (bump s cfg.alias) cfg (cnt s.counter cfg.alias + 1) args).active
      = some { a with data := (.outArgs cfg.alias (cnt s.counter cfg.alias + 1), v) :: a.data } ∧
    cnt (recordOutput (bump s cfg.alias) cfg (cnt s.counter cfg.alias + 1) args).counter cfg.alias
      = cnt s.counter cfg.alias + 1 ∧
    ∀ al, al ≠ cfg.alias →
      cnt (recordOutput (bump s cfg.alias) cfg (cnt s.counter cfg.alias + 1) args).counter al = cnt s.counter al := by
  have h1 : recordOutput (bump s cfg.alias) cfg (cnt s.counter cfg.alias + 1) args
      = write (bump s cfg.alias) (.outArgs cfg.alias (cnt s.counter cfg.alias + 1)) v := by
    simp [recordOutput, hv, inPlaybackMode, hp]
  rw [h1]
  refine ⟨by simp [write_active, ha], by simp [cnt_bump], ?_⟩
  intro al hne
  simp only [write_counter, cnt_bump]
  rw [if_neg (fun h => hne h.symm)]

/-- While replaying, the same call appends exactly that entry to the outputs captured by the replay. -/
theorem C03_playback_entry {r : Recording} {t : St} (h : Replaying r t) (cfg : OutCfg) (args : Args) (v : RVal)
    (hv : outValue cfg args = some v) :
    (recordOutput (bump t cfg.alias) cfg (cnt t.counter cfg.alias + 1) args).playbackOutputs
      = t.playbackOutputs ++ [(.outArgs cfg.alias (cnt t.counter cfg.alias + 1), v)] := by
  have := (replay_out_state h cfg args).2
  rw [hv] at this
  exact this

/-- What is stored is the call's arguments as sent (no data handler) … -/
theorem C03_value_is_sent (cfg : OutCfg) (args : Args) (h : cfg.prepare = none) :
    outValue cfg args = some (.sent args.pos args.kw) := by
  simp [outValue, h]

/-- … or what the output data handler prepared from them. -/
theorem C03_value_is_prepared (cfg : OutCfg) (args : Args) (f : Args → Option Val) (v : Val) (h : cfg.prepare = some f)
    (hv : f args = some v) : outValue cfg args = some (.prepared v) := by
  simp [outValue, h, hv]

/-- Ordinals start at 1 in every operation and every replay: both start from an idle recorder, whose counters are empty. -/
theorem C03_ordinals_start_at_one (s : St) (h : s.Idle) (al : String) : cnt s.counter al + 1 = 1 := by
  rw [h.2.2.1]; rfl

/-- The outputs attached to a recording are exactly its entries of the output-arguments shape, in their order. -/
theorem C03_extraction_exact (d : Data) :
    extractOutputs d = d.filter (fun kv => match kv.1 with | .outArgs _ _ => true | _ => false) := by
  induction d with
  | nil => rfl
  | cons kv rest ih =>
    obtain ⟨k, v⟩ := kv
    cases k <;> simp [extractOutputs, ih]

/-- The text of output keys identifies (alias, ordinal): for ANY two aliases and ordinals (more than nine calls
included, aliases containing `#`, digits or spaces included) equal key texts mean equal alias and equal ordinal. -/
theorem C03_outkey_injective (a a' : List Char) (n n' : Nat) (h : outKeyChars a n = outKeyChars a' n') :
    a = a' ∧ n = n' :=
  outKeyChars_injective a a' n n' h

/-- Whole-run statement (from C01's induction): replaying `p` against the final data of its own record run captures,
in call order, exactly the output entries the record run added. -/
theorem C03_replay_outputs_are_recorded_outputs (w : Key → RVal) (p : Prog) (hF : p.Faithful w) (hN : p.NoPlayData)
    (s t : St) (a aF : Active) (r : Recording) (o : Out)
    (hp : s.playback = none) (he : s.enabled = true) (hi : s.inInt = false) (ha : s.active = some a)
    (hact : (exec s p).1.active = some aF) (hend : (exec s p).2 = .out o)
    (tp : t.playback = some r) (tr : RecExt r aF) (ti : t.inInt = false) (ta : t.active = none)
    (tc : t.counter = s.counter) :
    ∃ outs, extractOutputs aF.data = outs.reverse ++ extractOutputs a.data ∧
            (exec t p).1.playbackOutputs = t.playbackOutputs ++ outs :=
  (replay_core w p hF hN s t a aF r o hp he hi ha hact hend tp tr ti ta tc).2.2.2

/-- **Recorded outputs are exactly what the program sent.**  `planOutputs c p` lists the output calls the program itself
makes (as the undecorated twin would: the path follows what the wrapped bodies return; calls made from inside a wrapped body
are not interceptions), each keyed by alias and per-alias ordinal counted from `c`, with the arguments it sends.  If the
recording survives the program, the outputs attached to it are exactly those, in call order, after what it held before. -/
theorem C03_recorded_is_sent (p : Prog)
    (hwf : p.All (fun cfg args _ => InputKeyShape cfg args) (fun _ _ _ => True))
    (s : St) (a aF : Active) (hp : s.playback = none) (he : s.enabled = true) (hi : s.inInt = false)
    (ha : s.active = some a) (hact : (exec s p).1.active = some aF) :
    extractOutputs aF.data = (planOutputs s.counter p).reverse ++ extractOutputs a.data :=
  recorded_is_sent p hwf s a aF hp he hi ha hact

/-- The operation's own result is the last captured output, in recording and in replay alike. -/
theorem C03_operation_output (s : St) (p : Prog) (v : Val) (h : (exec s p).2 = .out (.ret v)) :
    (execOperationFunc s p).1 =
      (if inPlaybackMode (exec s p).1 then pushPlayback (exec s p).1 (.outArgs opAlias 1) (.sent [v] [])
       else write (exec s p).1 (.outArgs opAlias 1) (.sent [v] [])) := by
  unfold execOperationFunc
  generalize exec s p = r at h
  obtain ⟨s1, e⟩ := r
  simp only at h
  subst h
  rfl

/-- Under the key (alias, n) of the outputs a run produces lies what its n-th call on that alias sent (nothing when there were
fewer calls or that call's capture failed): the numbering is per alias, starts at 1 and counts calls. -/
theorem C03_entry_is_nth_send (p : Prog) (a : String) (n : Nat) :
    getD (planOutputs [] p) (.outArgs a (n + 1)) = ((proj a (sendsOf p))[n]?).bind id := by
  rw [planOutputs_eq_numberK, getD_numberK]; simp [cnt]

/-- "Any change in what replayed code sends appears as a difference at exactly the affected entries and nowhere else": the
outputs of two runs (any two programs - the recorded one and its edit) differ under a key iff the key is an output key
(alias, n) and the n-th calls on that alias sent different things (a value changed, or one run made fewer calls). A dropped,
added or reordered call on one alias therefore never shows under another alias's keys. -/
theorem C03_difference_exact (p p' : Prog) (k : Key) :
    getD (planOutputs [] p) k ≠ getD (planOutputs [] p') k ↔
      ∃ a n, k = .outArgs a (n + 1) ∧
        ((proj a (sendsOf p))[n]?).bind id ≠ ((proj a (sendsOf p'))[n]?).bind id := by
  rw [planOutputs_eq_numberK, planOutputs_eq_numberK]; exact numberK_difference_exact _ _ k

/-- One changed value, everything else as recorded: the two runs differ under exactly one key, that call's alias with its
per-alias ordinal (the number of earlier calls on the same alias plus one). -/
theorem C03_single_changed_value (p p' : Prog) (pre post : List (String × Option RVal)) (a : String) (v v' : RVal)
    (hp : sendsOf p = pre ++ (a, some v) :: post) (hp' : sendsOf p' = pre ++ (a, some v') :: post) (hv : v ≠ v') (k : Key) :
    getD (planOutputs [] p) k ≠ getD (planOutputs [] p') k ↔ k = .outArgs a ((proj a pre).length + 1) := by
  rw [planOutputs_eq_numberK, planOutputs_eq_numberK, hp, hp']; exact numberK_single_edit pre post a v v' hv k

/-- One entry per call: the outputs of a run hold pairwise distinct keys (no call's entry is overwritten by another's) and as
many entries as the run made output calls whose value could be captured. -/
theorem C03_one_entry_per_call (p : Prog) :
    ((planOutputs [] p).map (·.1)).Nodup ∧
    (planOutputs [] p).length = ((sendsOf p).filter (fun x => x.2.isSome)).length := by
  rw [planOutputs_eq_numberK]; exact ⟨numberK_nodup _ _, numberK_length _ _⟩

/-- The same on the recording itself: in the outputs extracted from the recording a run leaves (started fresh: no outputs
yet, counters empty; the recording survived, i.e. was not discarded) the key (alias, n) holds what the n-th call on that alias
sent. Two recordings therefore differ under an output key iff those n-th sends differ (`C03_difference_exact`). -/
theorem C03_recording_lookup_is_planned (p : Prog)
    (hwf : p.All (fun cfg args _ => InputKeyShape cfg args) (fun _ _ _ => True))
    (s : St) (a aF : Active) (hp : s.playback = none) (he : s.enabled = true) (hi : s.inInt = false)
    (ha : s.active = some a) (hact : (exec s p).1.active = some aF)
    (hc : s.counter = []) (h0 : extractOutputs a.data = []) (k : Key) :
    getD (extractOutputs aF.data) k = getD (planOutputs [] p) k := by
  rw [recorded_is_sent p hwf s a aF hp he hi ha hact, h0, hc, List.append_nil]
  exact getD_reverse_of_nodup _ (by rw [planOutputs_eq_numberK]; exact numberK_nodup _ _) k

/-- Replay side, whole run: what a replay of ANY program `p'` against ANY recording `r` captures is the recorder numbering of
the output calls `p'` makes along its replay path (each interception answered from `r` or by the missing-key policy; no site
opted in to run-original, so no body runs) - one entry per call whose value could be captured, appended in call order. -/
theorem C03_playback_outputs_are_sent (r : Recording) (p' : Prog)
    (hq : p'.All (fun cfg _ _ => cfg.runOriginal = false) (fun _ _ _ => True)) (t : St) (h : Replaying r t) :
    (exec t p').1.playbackOutputs = t.playbackOutputs ++ numberK t.counter (replaySends r t.counter p') :=
  replay_outputs_are_sent r p' hq t h

/-- The comparison a user makes - recorded outputs of `p` against the outputs captured while `p'` is replayed (from a fresh
replay state: no outputs yet, counters empty) - differs under a key iff the key is (alias, n) and the n-th call on that alias
in the recorded run and the n-th call on that alias in the replayed run sent different things (or only one of them happened). -/
theorem C03_replay_difference_exact (r : Recording) (p p' : Prog)
    (hq : p'.All (fun cfg _ _ => cfg.runOriginal = false) (fun _ _ _ => True)) (t : St) (h : Replaying r t)
    (h0 : t.playbackOutputs = []) (hc : t.counter = []) (k : Key) :
    getD (planOutputs [] p) k ≠ getD (exec t p').1.playbackOutputs k ↔
      ∃ a n, k = .outArgs a (n + 1) ∧
        ((proj a (sendsOf p))[n]?).bind id ≠ ((proj a (replaySends r [] p'))[n]?).bind id := by
  rw [replay_outputs_are_sent r p' hq t h, h0, hc, planOutputs_eq_numberK, List.nil_append]
  exact numberK_difference_exact _ _ k

/-! Non-vacuity -/
example : Replaying ⟨0, [], default⟩ { playback := some ⟨0, [], default⟩ } ∧
    ({ playback := some ⟨0, [], default⟩ } : St).playbackOutputs = [] ∧
    ({ playback := some ⟨0, [], default⟩ } : St).counter = [] := ⟨⟨rfl, rfl, rfl⟩, rfl, rfl⟩
example : sendsOf (.callOut { name := "g", alias := "g", prepare := none, failOnMissing := true, default := .atom "" }
    ⟨[.atom "1"], []⟩ (.done (.out (.ret (.atom "r")))) (fun _ => .done (.out (.ret (.atom "x")))))
    = [] ++ ("g", some (.sent [.atom "1"] [])) :: [] := by
  simp [sendsOf, outValue, bodyEnd, runPlain]
example : planOutputs [] (.callOut { name := "g", alias := "g", prepare := none, failOnMissing := true, default := .atom "" }
    ⟨[.atom "1"], []⟩ (.done (.out (.ret (.atom "r"))))
    (fun _ => .callOut { name := "g", alias := "g", prepare := none, failOnMissing := true, default := .atom "" }
      ⟨[.atom "2"], []⟩ (.done (.out (.exc "E"))) (fun _ => .done (.out (.ret (.atom "x"))))))
    = [(.outArgs "g" 1, .sent [.atom "1"] []), (.outArgs "g" 2, .sent [.atom "2"] [])] := by
  simp [planOutputs, outValue, bodyEnd, runPlain, cnt, bumpC]
example : outKeyChars "send".toList 12 = "output: send #12".toList := by decide
example : outValue { name := "g", alias := "g", prepare := none, failOnMissing := true, default := .atom "" } ⟨[.atom "1"], []⟩
    = some (.sent [.atom "1"] []) := rfl

end Properties.C03
