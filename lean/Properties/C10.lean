import PlaybackProofs.Lookup
/-!
# C10 — Lookup returns exactly the matching recordings, identically on all cassettes

Property theorems only; models `PlaybackModel/Lookup.lean` (in-memory, file, `find_matching_recording_ids`) and
`PlaybackModel/S3.lean` (S3), helper lemmas `PlaybackProofs/Lookup.lean`, `PlaybackProofs/S3.lean`; the metadata matcher
is the C14 model.

`Store` is one of the three cassettes with its contents (`mem saved` in insertion order, `file dir` in ANY directory
order, `s3 c b` any bucket - foreign objects and other cassettes included); `st.saved` are the recordings it holds,
`st.view` how its filter reads stored metadata (decoded in memory / file; the raw JSON text on S3 - known finding K3).
`Env` carries the external nondeterminism: `fnmatch`, `random.shuffle` (any permutation: `env.Fair`) and the
`random.choice` stream (any).  `st.WF`: ids are `category/rest` with slash-free categories and pairwise distinct; the
directory has one file per recording, named after its id (ids may hold dots: F14).
-/
namespace Properties.C10
open PlaybackModel.MetaFilter PlaybackModel.S3 PlaybackModel.Lookup

/-- Lookup never raises, on any cassette. -/
theorem C10_total (env : Env) (henv : env.Fair) (st : Store) (hwf : st.WF) (cat : String) (hq : noChar '/' cat)
    (f : Meta) (lim : Option Nat) (random : Bool) : ∃ l, list env st cat f lim random = .ok l := by
  obtain ⟨l, hl, _⟩ := list_selection env henv st hwf cat hq f lim random
  exact ⟨l, hl⟩

/-- Only ids of saved recordings of exactly that category whose metadata satisfies the filter. -/
theorem C10_sound (env : Env) (henv : env.Fair) (st : Store) (hwf : st.WF) (cat : String) (hq : noChar '/' cat)
    (f : Meta) (lim : Option Nat) (random : Bool) (l : List String) (hl : list env st cat f lim random = .ok l)
    (id : String) (hid : id ∈ l) :
    ∃ r ∈ st.saved, r.id = id ∧ category id = cat ∧ matchMeta env.glob f (st.view r.md) = .ok true := by
  obtain ⟨l', hl', hsel⟩ := list_selection env henv st hwf cat hq f lim random
  rw [hl] at hl'; cases hl'
  obtain ⟨r, hr, rfl, hc, hm⟩ := mem_expected.1 (hsel.subset id hid)
  exact ⟨r, hr, rfl, hc, hm⟩

/-- Without a limit, all of them. -/
theorem C10_complete (env : Env) (henv : env.Fair) (st : Store) (hwf : st.WF) (cat : String) (hq : noChar '/' cat)
    (f : Meta) (random : Bool) (l : List String) (hl : list env st cat f none random = .ok l) :
    ∀ r ∈ matching env.glob st.view st.saved cat f, r.id ∈ l := by
  obtain ⟨l', hl', hsel⟩ := list_selection env henv st hwf cat hq f none random
  rw [hl] at hl'; cases hl'
  intro r hr
  exact hsel.perm_of_none.mem_iff.2 (List.mem_map.2 ⟨r, hr, rfl⟩)

/-- No duplicates. -/
theorem C10_nodup (env : Env) (henv : env.Fair) (st : Store) (hwf : st.WF) (cat : String) (hq : noChar '/' cat)
    (f : Meta) (lim : Option Nat) (random : Bool) (l : List String) (hl : list env st cat f lim random = .ok l) :
    l.Nodup := by
  obtain ⟨l', hl', hsel⟩ := list_selection env henv st hwf cat hq f lim random
  rw [hl] at hl'; cases hl'
  exact hsel.nodup (expected_nodup env st hwf cat f)

/-- With a limit, `min(limit, matches)` of them (and `limit = 0` means none); without, as many as match. -/
theorem C10_count (env : Env) (henv : env.Fair) (st : Store) (hwf : st.WF) (cat : String) (hq : noChar '/' cat)
    (f : Meta) (lim : Option Nat) (random : Bool) (l : List String) (hl : list env st cat f lim random = .ok l) :
    l.length = (match lim with
      | some n => min n (matching env.glob st.view st.saved cat f).length
      | none => (matching env.glob st.view st.saved cat f).length) := by
  obtain ⟨l', hl', hsel⟩ := list_selection env henv st hwf cat hq f lim random
  rw [hl] at hl'; cases hl'
  rw [hsel.2, expected, List.length_map]
  cases lim <;> rfl

/-- what `get_recording` needs beyond lookup: on S3 the C15 invariant "discoverable ⇒ fetchable" -/
def Store.Consistent : Store → Prop
  | .s3 c b => Complete c b
  | .mem _ => True
  | .file dir => ∀ e ∈ dir, e.1 = fileName e.2.id

/-- Each returned id is fetchable. -/
theorem C10_fetchable (env : Env) (henv : env.Fair) (st : Store) (hwf : st.WF) (hcons : Store.Consistent st)
    (cat : String) (hq : noChar '/' cat) (f : Meta) (lim : Option Nat) (random : Bool) (l : List String)
    (hl : list env st cat f lim random = .ok l) (id : String) (hid : id ∈ l) : st.fetchable id = true := by
  obtain ⟨r, hr, rfl, _, _⟩ := C10_sound env henv st hwf cat hq f lim random l hl id hid
  cases st with
  | mem saved => exact List.any_eq_true.2 ⟨r, hr, by simp⟩
  | file dir =>
    obtain ⟨e, he, rfl⟩ := List.mem_map.1 hr
    exact List.any_eq_true.2 ⟨e, he, by simp [hcons e he]⟩
  | s3 c b =>
    obtain ⟨e, he, rfl⟩ := List.mem_map.1 hr
    apply hcons
    show hasKey b (metaKey c (idOfKey c e.1)) = true
    rw [← key_of_mem_listPrefix he]
    exact hasKey_iff.2 ⟨e.2, (List.mem_filter.1 he).1⟩

/-- All cassette types return the same set for the same saved recordings (no limit; with a limit they return the same
NUMBER by `C10_count` but may legitimately pick different members).  The hypothesis `hnative` is known finding K3: the
S3 content filter reads the JSON text of the metadata, which differs from the decoded metadata for tuples and classes. -/
theorem C10_same_set (env env' : Env) (hglob : env'.glob = env.glob) (henv : env.Fair) (henv' : env'.Fair)
    (st st' : Store) (hwf : st.WF) (hwf' : st'.WF) (hsame : st.saved.Perm st'.saved)
    (hnative : ∀ r ∈ st.saved, jsonNativeFields r.md = true)
    (cat : String) (hq : noChar '/' cat) (f : Meta) (random random' : Bool) (l l' : List String)
    (hl : list env st cat f none random = .ok l) (hl' : list env' st' cat f none random' = .ok l') :
    l.Perm l' := by
  obtain ⟨l1, h1, hsel⟩ := list_selection env henv st hwf cat hq f none random
  obtain ⟨l2, h2, hsel'⟩ := list_selection env' henv' st' hwf' cat hq f none random'
  rw [hl] at h1; cases h1
  rw [hl'] at h2; cases h2
  refine hsel.perm_of_none.trans (List.Perm.trans ?_ hsel'.perm_of_none.symm)
  have hview : ∀ (s : Store) (md : Meta), jsonNativeFields md = true → s.view md = md := by
    intro s md h
    cases s <;> first | rfl | exact jsonViewFields_native md h
  unfold expected
  rw [matching_eq, matching_eq, hglob]
  have e1 : st.saved.filter (fun r => category r.id == cat && matchB env.glob f (st.view r.md)) =
      st.saved.filter (fun r => category r.id == cat && matchB env.glob f r.md) :=
    List.filter_congr (fun r hr => by rw [hview st _ (hnative r hr)])
  have e2 : st'.saved.filter (fun r => category r.id == cat && matchB env.glob f (st'.view r.md)) =
      st'.saved.filter (fun r => category r.id == cat && matchB env.glob f r.md) :=
    List.filter_congr (fun r hr => by rw [hview st' _ (hnative r (hsame.mem_iff.2 hr))])
  rw [e1, e2]
  exact (hsame.filter _).map _

/-- "The same saved recordings" on S3: after `save_recording` of every recording of `saved` (pairwise distinct ids) through
the cassette, starting from any bucket with nothing under its metadata root, the cassette discovers exactly `saved`. -/
theorem C10_s3_saved_after_saves (c : Cfg) (b0 : Bucket) (h0 : listPrefix b0 (metaRoot c) = []) (saved : List Rec)
    (hnd : (saved.map (·.id)).Nodup) : (Store.s3 c (bucketOfSaves c b0 saved)).saved.Perm saved :=
  s3Saved_bucketOfSaves c b0 h0 saved hnd

/-- Random listing (`random_results=True`): for EVERY choice stream and EVERY shuffle the result is sound, duplicate-free
and of the right size. -/
theorem C10_random (glob : String → String → Bool) (ch : Nat → Nat) (shufIds : List String → List String)
    (shufObjs : Bucket → Bucket) (hs1 : ∀ l, (shufIds l).Perm l) (hs2 : ∀ l, (shufObjs l).Perm l)
    (st : Store) (hwf : st.WF) (cat : String) (hq : noChar '/' cat) (f : Meta) (lim : Option Nat) :
    ∃ l, list ⟨glob, shufIds, shufObjs, ch⟩ st cat f lim true = .ok l ∧ l.Nodup ∧
      (∀ id ∈ l, ∃ r ∈ st.saved, r.id = id ∧ category id = cat ∧ matchMeta glob f (st.view r.md) = .ok true) ∧
      l.length = limLen lim (matching glob st.view st.saved cat f).length := by
  let env : Env := ⟨glob, shufIds, shufObjs, ch⟩
  have henv : env.Fair := ⟨hs1, hs2⟩
  obtain ⟨l, hl, hsel⟩ := list_selection env henv st hwf cat hq f lim true
  refine ⟨l, hl, hsel.nodup (expected_nodup env st hwf cat f), ?_, ?_⟩
  · intro id hid
    obtain ⟨r, hr, rfl, hc, hm⟩ := mem_expected.1 (hsel.subset id hid)
    exact ⟨r, hr, rfl, hc, hm⟩
  · rw [hsel.2, expected, List.length_map]

/-- The default lookup that skips incomplete recordings is the plain lookup with the filter extended by
`{incomplete: [False, None]}`, and (for a filter that does not itself name that key) it returns exactly the matching
recordings whose recorded flag is absent, `None` or `False`: it excludes the incomplete ones and only those. -/
theorem C10_skip_incomplete (env : Env) (henv : env.Fair) (st : Store) (hwf : st.WF) (cat : String)
    (hq : noChar '/' cat) (f : Meta) (hk : incompleteKey ∉ f.map (·.1)) (lim : Option Nat) (random : Bool) :
    findMatching env st cat f lim random true = list env st cat (lookupFilter f true) lim random ∧
    findMatching env st cat f lim random false = list env st cat f lim random ∧
    ∃ l, findMatching env st cat f none random true = .ok l ∧
      ∀ id, id ∈ l ↔ ∃ r ∈ st.saved, r.id = id ∧ category id = cat ∧
        matchMeta env.glob f (st.view r.md) = .ok true ∧ notIncomplete (st.view r.md) = true := by
  refine ⟨rfl, rfl, ?_⟩
  obtain ⟨l, hl, hsel⟩ := list_selection env henv st hwf cat hq (lookupFilter f true) none random
  refine ⟨l, hl, fun id => ?_⟩
  rw [hsel.perm_of_none.mem_iff, mem_expected]
  constructor
  · rintro ⟨r, hr, rfl, hc, hm⟩
    obtain ⟨h1, h2⟩ := (matchMeta_skip env.glob f _ hk).1 hm
    exact ⟨r, hr, rfl, hc, h1, h2⟩
  · rintro ⟨r, hr, rfl, hc, h1, h2⟩
    exact ⟨r, hr, rfl, hc, (matchMeta_skip env.glob f _ hk).2 ⟨h1, h2⟩⟩

/-- Categories that are prefixes of one another or contain underscores cannot be confused: the category of
`cat/rest` is `cat` (in-memory, file), `cat'/rest` lies under the key prefix `cat/` only if `cat' = cat` (S3), and the
file cassette's file-name pre-filter never rejects a file of the queried category. -/
theorem C10_category_exact (cat cat' rest : String) (h : noChar '/' cat) (h' : noChar '/' cat') :
    category (mkId cat rest) = cat ∧
    (startsWith (mkId cat' rest) (cat ++ "/") = true ↔ cat' = cat) ∧
    startsWith (fileName (mkId cat rest)) cat = true := by
  refine ⟨category_mkId rest h, startsWith_mkId_iff rest h' h, ?_⟩
  have := startsWith_fileName_category (mkId cat rest)
  rwa [category_mkId rest h] at this

/-- Known finding K3 in the model: a tuple-valued metadata entry matches the same tuple in memory and on file, and does
not on S3, whose filter sees `{"py/tuple": [1, 2]}`. -/
theorem C10_k3_counterexample (glob : String → String → Bool) :
    let md : Meta := [("t", .tuple [.num 1 0, .num 2 0])]
    let f : Meta := [("t", .tuple [.num 1 0, .num 2 0])]
    matchMeta glob f ((Store.mem []).view md) = .ok true ∧
    matchMeta glob f ((Store.s3 (mkCfg "" false false) []).view md) = .ok false := by
  constructor <;> rfl

/-- A realistic mutation of `find_matching_recording_ids` - the added filter as the scalar `False` instead of
`[False, None]` - loses every recording that predates the flag. -/
theorem C10_scalar_filter_counterexample (glob : String → String → Bool) :
    matchMeta glob (lookupFilter [] true) [] = .ok true ∧ matchMeta glob (lookupFilterScalar [] true) [] = .ok false := by
  constructor <;> rfl

/-! Non-vacuity: concrete well-formed stores of each kind, with prefix-related categories. -/

def exSaved : List Rec := [⟨"Op/u1", [("a", .num 1 0)]⟩, ⟨"OpB/u2", []⟩, ⟨"Op_x/u3", []⟩]
def exEnv : Env := ⟨fnmatch, id, id, id⟩

example : exEnv.Fair := ⟨fun _ => List.Perm.refl _, fun _ => List.Perm.refl _⟩

theorem exSaved_wf : WFIds exSaved := by
  intro r hr
  simp only [exSaved, List.mem_cons, List.not_mem_nil, or_false] at hr
  rcases hr with rfl | rfl | rfl
  · exact ⟨"Op", "u1", by decide, by decide⟩
  · exact ⟨"OpB", "u2", by decide, by decide⟩
  · exact ⟨"Op_x", "u3", by decide, by decide⟩

example : (Store.mem exSaved).WF := ⟨exSaved_wf, by decide, trivial⟩

example : (Store.file (dirOf exSaved)).WF := by
  refine ⟨exSaved_wf, by decide, by decide, ?_⟩
  intro e he
  simp only [dirOf, exSaved, List.map_cons, List.map_nil, List.mem_cons, List.not_mem_nil, or_false] at he
  rcases he with rfl | rfl | rfl <;> exact ⟨rfl, notAllDots_of_slash (by decide)⟩

/-- a category with dots (a qualified class name): the file cassette's directory is well-formed and the lookup finds the
recording (before F14 the listed name was cut at its first dot and this lookup raised `NoSuchRecording`) -/
def exDotted : List Rec := [⟨"svc.v2.Invoice/u4", []⟩, ⟨"svc/u5", []⟩]

theorem exDotted_wf : WFIds exDotted := by
  intro r hr
  simp only [exDotted, List.mem_cons, List.not_mem_nil, or_false] at hr
  rcases hr with rfl | rfl
  · exact ⟨"svc.v2.Invoice", "u4", by decide, by decide⟩
  · exact ⟨"svc", "u5", by decide, by decide⟩

example : (Store.file (dirOf exDotted)).WF := by
  refine ⟨exDotted_wf, by decide, by decide, ?_⟩
  · intro e he
    simp only [dirOf, exDotted, List.map_cons, List.map_nil, List.mem_cons, List.not_mem_nil, or_false] at he
    rcases he with rfl | rfl <;> exact ⟨rfl, notAllDots_of_slash (by decide)⟩

example : list exEnv (Store.file (dirOf exDotted)) "svc.v2.Invoice" [] none false = .ok ["svc.v2.Invoice/u4"] := by rfl
example : list exEnv (Store.file (dirOf exDotted)) "svc" [] none false = .ok ["svc/u5"] := by rfl

def exCfg : Cfg := mkCfg "xmetadata" false false
def exBucket : Bucket :=
  exSaved.foldl (fun b r => applyMutations b (saveSteps exCfg 0 ⟨r.id, "payload", r.md⟩)) [("foreign/x", ⟨"1", [], 0⟩)]

theorem exBucket_saved : s3Saved exCfg exBucket = exSaved := by rfl

example : (Store.s3 exCfg exBucket).WF := by
  refine ⟨?_, ?_, trivial⟩
  · show WFIds (s3Saved exCfg exBucket); rw [exBucket_saved]; exact exSaved_wf
  · show ((s3Saved exCfg exBucket).map (·.id)).Nodup; rw [exBucket_saved]; decide

example : Store.Consistent (Store.s3 exCfg exBucket) := by
  apply complete_events exCfg (exSaved.map (fun r => Event.save ⟨r.id, "payload", r.md⟩ 0)) (by simp [Event.ok, exSaved])
    6 [("foreign/x", ⟨"1", [], 0⟩)]
  intro id h
  exfalso
  have hk : "foreign/x" = metaKey exCfg id := by simpa [discoverable, hasKey] using h
  have hs := metaKey_under_metaRoot exCfg id
  rw [← hk] at hs
  revert hs
  decide

example : ∀ r ∈ exSaved, jsonNativeFields r.md = true := by decide
example : list exEnv (Store.mem exSaved) "Op" [("a", .num 1 0)] none false = .ok ["Op/u1"] := by rfl

/-- **The limit test of the code as it stands** (atoms regenerated from `iter_recording_ids` of the in-memory and the file
based cassette on every run): `limit is not None`, so a limit of 0 means "nothing", as on S3. -/
theorem C10_limit_test_as_in_source (lim : Option Nat) :
    PlaybackModel.Source.memLimitTest.limit lim = lim ∧ PlaybackModel.Source.fileLimitTest.limit lim = lim := by
  simp [PlaybackModel.Source.memLimitTest, PlaybackModel.Source.fileLimitTest, PlaybackModel.Atoms.NoneTest.limit]

end Properties.C10
