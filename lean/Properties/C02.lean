import PlaybackProofs.RecorderCore
import PlaybackProofs.ReplayEnd
/-!
# C02 — Replay answers every interception from the recording or an explicit policy

`Replaying r t`: recorder `t` is answering interceptions from recording `r` (outside any interception, nothing being
recorded — `play()` establishes this, whether recording is enabled or not: replay takes precedence in every decorator).
The decision table is stated row by row; `r` is an ARBITRARY recording (not necessarily one of the replayed program).
-/
namespace Properties.C02
open PlaybackModel.Recorder

/-- A key that cannot be built is a framework error handed to the caller, never a silent value. -/
theorem C02_key_error {r t} (h : Replaying r t) (cfg : InCfg) (args body k) (hk : cfg.keys args = none) :
    exec t (.callIn cfg args body k) = exec t (k (.exc "InputInterceptionKeyCreationError")) :=
  replay_in_key_error h cfg args body k hk

/-- Main alias first, then the fallback aliases in their documented order: the first key present wins, and the caller
gets what is recorded under THAT key (restored through the data handler; a recorded exception is raised). -/
theorem C02_recorded {r t} (h : Replaying r t) (cfg : InCfg) (args body k) (k0 : Key) (fb : List Key) (key : Key)
    (hk : cfg.keys args = some (k0, fb)) (hf : firstPresent r.data (k0 :: fb) = some key) :
    exec t (.callIn cfg args body k)
      = exec t (k (envelopeOut (cfg.restore args) ((getD r.data key).getD (.raw (.atom ""))))) ∧
    key ∈ k0 :: fb ∧ hasKey r.data key = true ∧
    (∀ pre post, k0 :: fb = pre ++ key :: post → key ∉ pre → ∀ k' ∈ pre, hasKey r.data k' = false) :=
  ⟨replay_in_recorded h cfg args body k k0 fb key hk hf, firstPresent_spec r.data (k0 :: fb) key hf⟩

/-- No entry under any possible key, run-original opted in: the original body runs (and is journalled). -/
theorem C02_run_original {r t} (h : Replaying r t) (cfg : InCfg) (args body k) (k0 : Key) (fb : List Key)
    (hk : cfg.keys args = some (k0, fb)) (hf : ∀ key ∈ k0 :: fb, hasKey r.data key = false)
    (hro : cfg.runOriginal = true) :
    ∃ ext, (exec t (.callIn cfg args body k)).1.journal = t.journal ++ (cfg.name, args) :: ext :=
  replay_in_run_original h cfg args body k k0 fb hk ((firstPresent_none r.data _).mpr hf) hro

/-- No entry, no run-original, a substitute configured (a constant — falsy ones included — or a callable applied to the
call's arguments): the substitute is the answer. -/
theorem C02_substitute {r t} (h : Replaying r t) (cfg : InCfg) (args body k) (k0 : Key) (fb : List Key)
    (f : Args → Out) (hk : cfg.keys args = some (k0, fb)) (hf : ∀ key ∈ k0 :: fb, hasKey r.data key = false)
    (hro : cfg.runOriginal = false) (hs : cfg.substitute = some f) :
    exec t (.callIn cfg args body k) = exec t (k (f args)) :=
  replay_in_substitute h cfg args body k k0 fb f hk ((firstPresent_none r.data _).mpr hf) hro hs

/-- No entry and no policy: a missing-key error, never an invented value. -/
theorem C02_missing {r t} (h : Replaying r t) (cfg : InCfg) (args body k) (k0 : Key) (fb : List Key)
    (hk : cfg.keys args = some (k0, fb)) (hf : ∀ key ∈ k0 :: fb, hasKey r.data key = false)
    (hro : cfg.runOriginal = false) (hs : cfg.substitute = none) :
    exec t (.callIn cfg args body k) = exec t (k (.exc "RecordingKeyError")) :=
  replay_in_missing h cfg args body k k0 fb hk ((firstPresent_none r.data _).mpr hf) hro hs

/-- Outputs: what is sent is captured under alias + next ordinal, and the recorded result of THAT ordinal is returned
(or its recorded exception raised). -/
theorem C02_output_recorded {r t} (h : Replaying r t) (cfg : OutCfg) (args body k) (rv : RVal)
    (hg : getD r.data (.outRes cfg.alias (cnt t.counter cfg.alias + 1)) = some rv) :
    exec t (.callOut cfg args body k)
      = exec (recordOutput (bump t cfg.alias) cfg (cnt t.counter cfg.alias + 1) args) (k (envelopeOut Out.ret rv)) :=
  replay_out_recorded h cfg args body k rv hg

/-- No recorded result: a missing-key error unless failing was switched off … -/
theorem C02_output_missing_fail {r t} (h : Replaying r t) (cfg : OutCfg) (args body k)
    (hg : getD r.data (.outRes cfg.alias (cnt t.counter cfg.alias + 1)) = none) (hf : cfg.failOnMissing = true) :
    exec t (.callOut cfg args body k)
      = exec (recordOutput (bump t cfg.alias) cfg (cnt t.counter cfg.alias + 1) args) (k (.exc "RecordingKeyError")) :=
  replay_out_missing_fail h cfg args body k hg hf

/-- … in which case the configured default result is returned. -/
theorem C02_output_missing_default {r t} (h : Replaying r t) (cfg : OutCfg) (args body k)
    (hg : getD r.data (.outRes cfg.alias (cnt t.counter cfg.alias + 1)) = none) (hf : cfg.failOnMissing = false) :
    exec t (.callOut cfg args body k)
      = exec (recordOutput (bump t cfg.alias) cfg (cnt t.counter cfg.alias + 1) args) (k (.ret cfg.default)) :=
  replay_out_missing_default h cfg args body k hg hf

/-- During replay no wrapped body is executed — for ANY replayed program and ANY recording — unless a site opted in
with run-original. -/
theorem C02_bodies_not_run (r : Recording) (p : Prog)
    (hq : p.All (fun cfg _ _ => cfg.runOriginal = false) (fun _ _ _ => True)) (t : St) (h : Replaying r t) :
    (exec t p).1.journal = t.journal :=
  (replay_no_bodies r p hq t h).1

/-- `play()` never creates, saves or aborts anything: the cassette sees exactly one `get`, the stored recordings are
unchanged — for every replayed program, present or missing id; the recording switch is unchanged unless the replayed code
itself calls `enable_recording()` / `disable_recording()` (`Prog.NoSwitch`). -/
theorem C02_cassette_untouched (ao : AliasOracle) (cfg : OpCfg) (s : St) (id : Nat) (p : Prog) (h : s.Idle) :
    (runPlay ao cfg s id p).1.log = s.log ++ [.get id] ∧ (runPlay ao cfg s id p).1.store = s.store ∧
    (p.NoSwitch → (runPlay ao cfg s id p).1.enabled = s.enabled) :=
  (runPlay_spec ao cfg s id p h).2

/-- An id that was never saved: `play()` raises `NoSuchRecording` and runs nothing. -/
theorem C02_missing_recording (ao : AliasOracle) (cfg : OpCfg) (s : St) (id : Nat) (p : Prog)
    (h : fetch s.store id = none) :
    (runPlay ao cfg s id p).2 = .raised "NoSuchRecording" ∧ (runPlay ao cfg s id p).1.journal = s.journal := by
  unfold runPlay; simp [h, addLog]

/-- Any number of replays of the same recording give the same answer: a replay leaves everything the interpreter can
depend on as it found it, so replaying again (with the same program) yields the same `Playback` / error - also when the
replayed code flips the recorder's enable switch (a replay never reads the switch: the core carries "recording mode", the
switch AND a recording in flight, not the raw switch). -/
theorem C02_replay_idempotent (ao : AliasOracle) (cfg : OpCfg) (s : St) (id : Nat) (p : Prog) (h : s.Idle) :
    (runPlay ao cfg (runPlay ao cfg s id p).1 id p).2 = (runPlay ao cfg s id p).2 :=
  (runPlay_core ao cfg id p _ _ (runPlay_restores_core ao cfg s id p h)).1

/-- … for any number of earlier replays (of any recordings, with any programs) in between. -/
theorem C02_replay_after_replays (ao : AliasOracle) (cfg : OpCfg) (id : Nat) (p : Prog)
    (others : List (OpCfg × Nat × Prog)) : ∀ s : St, s.Idle →
    (runPlay ao cfg (others.foldl (fun t o => (runPlay ao o.1 t o.2.1 o.2.2).1) s) id p).2 = (runPlay ao cfg s id p).2 := by
  induction others with
  | nil => intro s _; rfl
  | cons o rest ih =>
    intro s h
    simp only [List.foldl_cons]
    rw [ih _ (runPlay_spec ao o.1 s o.2.1 o.2.2 h).1]
    exact (runPlay_core ao cfg id p _ _ (runPlay_restores_core ao o.1 s o.2.1 o.2.2 h)).1

/-- "Each call is answered from the recording", whole run: how a replayed program ends is `replayEnd` - a function of the
recording, the starting output counters and the program alone, in which every input is answered by `inAnswerR` (the decision
table above: key error, first present key in fallback order, substitute, missing-key error), every output by `outAnswerR`
(recorded result, default, missing-key error) and `play_data` by `playDataR`. Nothing else the recorder or cassette holds
(journal, log, enable switch, stored recordings, sampling stream) can influence a replay. Premise: no site opted in to
run-original (then a body runs by request and its answer is the body's). -/
theorem C02_answered_from_recording (r : Recording) (p : Prog)
    (hq : p.All (fun cfg _ _ => cfg.runOriginal = false) (fun _ _ _ => True)) (t : St) (h : Replaying r t) :
    (exec t p).2 = replayEnd r t.counter p :=
  replay_end_is_answered r p hq t h

/-- … so two replays of one recording from recorder states that agree on nothing but the output counters end alike -/
theorem C02_replay_depends_on_recording_only (r : Recording) (p : Prog)
    (hq : p.All (fun cfg _ _ => cfg.runOriginal = false) (fun _ _ _ => True)) (t t' : St)
    (h : Replaying r t) (h' : Replaying r t') (hc : t.counter = t'.counter) :
    (exec t p).2 = (exec t' p).2 := by
  rw [replay_end_is_answered r p hq t h, replay_end_is_answered r p hq t' h', hc]

/-! Non-vacuity -/
example : Replaying ⟨0, [], default⟩ { playback := some ⟨0, [], default⟩ } := ⟨rfl, rfl, rfl⟩
example : firstPresent [(Key.input "b" true [] [], RVal.value (.atom "1"))]
    [Key.input "a" true [] [], Key.input "b" true [] []] = some (Key.input "b" true [] []) := by
  simp [firstPresent, hasKey, getD]

end Properties.C02
