import PlaybackProofs.RecorderTable
import PlaybackProofs.ThreadsReplay
/-!
# C01 — Replay on unchanged code reproduces the recorded run

Programs are interaction trees (any number and order of input/output calls, the same alias with different arguments,
bodies that are programs themselves).  Decorator kinds (instance / static / property / class-level), alias resolvers
and capture selections are the function `InCfg.keys`; data handlers are `prepare` / `restore`.  The premises of the
property are explicit hypotheses:

* `Prog.Faithful w p` — every intercepted input is a function of its key: what the recorder stores for the call is
  the world's envelope `w key`, and restoring that envelope gives back what the body returned (lawful data handler,
  value in the serializer's faithful domain).
* `Prog.NoPlayData p` — the operation's own control flow does not consume `play_data` (it answers `None` while
  recording and the recorded value while replaying, so such code is not "the same deterministic code").
* the fetched recording has the data that was saved (`rec'.data = rec.data`): the cassette round trip, C07.
-/
namespace Properties.C01
open PlaybackModel.Recorder

/-- **Replay of a saved, complete recording on the same code succeeds, executes no wrapped body, and captures exactly
the recorded outputs, one for one and in call order, the last one being the operation's return value / exception.**
Recorder `s` records, any idle recorder `s'` (same or another process) replays. -/
theorem C01_replay_faithful (ao : AliasOracle) (w : Key → RVal) (cfg cfg' : OpCfg) (s s' : St) (p : Prog)
    (rec rec' : Recording) (o : Out) (id : Nat)
    (hidle : s.Idle) (hen : s.enabled = true) (hsk : cfg.params.skipped = false)
    (hF : p.Faithful w) (hN : p.NoPlayData)
    (hres : (runOperation ao cfg s p).2 = .out o) (hord : ∀ t, o = .exc t → isFramework t = false)
    (hsaved : (runOperation ao cfg s p).1.store = rec :: s.store)
    (hidle' : s'.Idle) (hfetch : fetch s'.store id = some rec') (hrt : rec'.data = rec.data)
    (hdur : rec'.md.hasDuration = true) :
    (runPlay ao cfg' s' id p).2 = .played (extractOutputs rec'.data).reverse (extractOutputs rec'.data) ∧
    (runPlay ao cfg' s' id p).1.journal = s'.journal ∧
    (extractOutputs rec'.data).head? = some (.outArgs opAlias 1, .sent [opOutVal o] []) :=
  replay_faithful ao w cfg cfg' s s' p rec rec' o id hidle hen hsk hF hN hres hord hsaved hidle' hfetch hrt hdur

/-- **Every intercepted call is handed, during replay, the outcome it had while recording** — stated on the program:
running `p` against the final data of its own record run reaches the same result `o` (the continuation after each call
received the recorded value, or the recorded exception type was raised), with the per-alias output numbering in step and no
body executed.  `s` is the recording state, `t` the replaying state. -/
theorem C01_calls_replayed (w : Key → RVal) (p : Prog) (hF : p.Faithful w) (hN : p.NoPlayData)
    (s t : St) (a aF : Active) (r : Recording) (o : Out)
    (hp : s.playback = none) (he : s.enabled = true) (hi : s.inInt = false) (ha : s.active = some a)
    (hact : (exec s p).1.active = some aF) (hend : (exec s p).2 = .out o)
    (tp : t.playback = some r) (tr : RecExt r aF) (ti : t.inInt = false) (ta : t.active = none)
    (tc : t.counter = s.counter) :
    (exec t p).2 = .out o ∧ (exec t p).1.journal = t.journal ∧ (exec t p).1.counter = (exec s p).1.counter ∧
    ∃ outs, extractOutputs aF.data = outs.reverse ++ extractOutputs a.data ∧
            (exec t p).1.playbackOutputs = t.playbackOutputs ++ outs :=
  replay_core w p hF hN s t a aF r o hp he hi ha hact hend tp tr ti ta tc

/-- The call-level reading: an input whose key holds the world's envelope is answered with exactly what its body
returned while recording, whatever fallback keys are configured. -/
theorem C01_input_call_replayed (w : Key → RVal) (r : Recording) (t : St) (ht : Replaying r t)
    (cfg : InCfg) (args : Args) (body : Prog) (k : Out → Prog) (k0 : Key) (fb : List Key) (o : Out) (env : RVal)
    (hnode : FaithfulIn w cfg args body) (hk : cfg.keys args = some (k0, fb)) (hb : bodyEnd body = .out o)
    (henv : envelopeOf cfg args o = some env) (hrec : getD r.data k0 = some (w k0)) :
    exec t (.callIn cfg args body k) = exec t (k o) := by
  obtain ⟨hw, hback⟩ := hnode.2 k0 fb o env hk hb henv
  have hfp : firstPresent r.data (k0 :: fb) = some k0 := by simp [firstPresent, hasKey_of_getD hrec]
  rw [replay_in_recorded ht cfg args body k k0 fb k0 hk hfp, hrec, Option.getD_some, ← hw, hback]

/-- Interceptions nested in an interception record nothing: whatever a wrapped body does while it runs under the
interception flag (calls to other intercepted functions included), the recording's outputs, its per-alias numbering and
every entry written before are unchanged — only `record_data` keys can be added. -/
theorem C01_nested_records_nothing (body : Prog) (s : St) (a : Active) (hi : s.inInt = true) (hp : s.playback = none)
    (ha : s.active = some a) :
    ∀ a1, (exec s body).1.active = some a1 →
      extractOutputs a1.data = extractOutputs a.data ∧ (exec s body).1.counter = s.counter ∧
      (∀ k v, (∀ key, k ≠ .free key) → getD a.data k = some v → getD a1.data k = some v) := by
  intro a1 h1
  obtain ⟨e1, e2, _, _, e5⟩ := (exec_flagged_body body s a hi hp ha).2.2.2 a1 h1
  exact ⟨e1, e2, e5⟩

/-! Non-vacuity: a concrete program with two input calls on one alias, an output call and a result built from them
satisfies the premises, for the world that maps every key to the value `"1"`. -/
def exCfg : InCfg :=
  { name := "f", keys := fun a => some (.input "f" true a.pos [], []), prepare := none, restore := fun _ v => .ret v,
    runOriginal := false, substitute := none }
def exOut : OutCfg := { name := "g", alias := "g", prepare := none, failOnMissing := true, default := .atom "None" }
def exProg : Prog :=
  .callIn exCfg ⟨[.atom "x"], []⟩ (.done (.out (.ret (.atom "1")))) fun o1 =>
  .callIn exCfg ⟨[.atom "y"], []⟩ (.done (.out (.ret (.atom "1")))) fun _ =>
  .callOut exOut ⟨[.atom "z"], []⟩ (.done (.out (.exc "ValueError"))) fun _ =>
  .done (.out o1)

example : exProg.Faithful (fun _ => .value (.atom "1")) ∧ exProg.NoPlayData := by
  have hnode : ∀ args, FaithfulIn (fun _ => RVal.value (.atom "1")) exCfg args (.done (.out (.ret (.atom "1")))) := by
    intro args
    refine ⟨fun k0 fb h => ?_, fun k0 fb o env hk hb he => ?_⟩
    · simp only [exCfg, Option.some.injEq, Prod.mk.injEq] at h; exact ⟨_, _, _, _, h.1.symm⟩
    · simp only [bodyEnd, runPlain, End.out.injEq] at hb
      subst hb
      simp only [envelopeOf, exCfg, Option.some.injEq] at he
      subst he
      exact ⟨rfl, rfl⟩
  refine ⟨⟨hnode _, trivial, fun _ => ⟨hnode _, trivial, fun _ => ⟨trivial, trivial, fun _ => trivial⟩⟩⟩, ?_⟩
  intro _ _ _; trivial

/-! ## Worker threads inside the operation

The intercepted calls of the operation are made by threads (`prog t` is the straight-line program of thread `t`; thread
numbers are arbitrary, all but finitely many programs are empty), one atomic recorder step per call, under an ARBITRARY
schedule while recording and another ARBITRARY schedule while replaying.  Inputs are functions of their key (`w`); every
output alias is owned by the thread that uses it.  Not covered: two threads that may run concurrently sending on one
alias (the ordinal `_invoke_counter[alias] += 1` then depends on the schedule and the operation itself is not
deterministic); a thread that sends on an alias strictly before it starts / after it joins the thread owning it is
deterministic and is exercised by the correspondence check only. -/
section Threads
open PlaybackModel.ThreadsReplay

/-- The record run is schedule-independent: whatever the interleaving, once every thread has made its calls each call
was handed what its body produced, and the recording holds, under the per-alias ordinals, exactly what each thread sent. -/
theorem C01_threads_record_schedule_independent (w : String → String) (prog : Nat → List TCall) (sched : List Nat)
    (hc : Complete prog (runRecord w prog sched)) :
    (∀ t, ((runRecord w prog sched).seen t).reverse = specSeen w (prog t)) ∧
    (∀ t a n, PlaybackModel.ThreadsReplay.get (runRecord w prog sched).data (.outArgs t a n) =
      if 1 ≤ n ∧ n ≤ ordOf (prog t) a then (nthOut (prog t) a n).map (·.arg) else none) := by
  have h := recInv_run w prog sched
  refine ⟨fun t => ?_, fun t a n => ?_⟩
  · rw [h.seen_eq t, hc t, List.take_length, List.reverse_reverse]
  · rw [h.args_eq t a n, h.cnt_eq t a, hc t, List.take_length]

/-- **Replay with worker threads is faithful under every pair of interleavings**: record under schedule `s1`, replay the
recorded data under schedule `s2`; every call of every thread is handed, during replay, exactly what it was handed while
recording (same values, same order within the thread), and the outputs captured during replay are the recorded outputs
entry by entry. -/
theorem C01_threads_replay_faithful (w : String → String) (prog : Nat → List TCall) (s1 s2 : List Nat)
    (hc1 : Complete prog (runRecord w prog s1))
    (hc2 : Complete prog (runReplay (PlaybackModel.ThreadsReplay.get (runRecord w prog s1).data) prog s2)) :
    (∀ t, (runReplay (PlaybackModel.ThreadsReplay.get (runRecord w prog s1).data) prog s2).seen t = (runRecord w prog s1).seen t) ∧
    (∀ t a n, PlaybackModel.ThreadsReplay.get (runReplay (PlaybackModel.ThreadsReplay.get (runRecord w prog s1).data) prog s2).pb (.outArgs t a n)
              = PlaybackModel.ThreadsReplay.get (runRecord w prog s1).data (.outArgs t a n)) := by
  have h1 := recInv_run w prog s1
  have hR := holds_of_complete w prog _ h1 hc1
  have h2 := repInv_run w prog _ hR s2
  refine ⟨fun t => ?_, fun t a n => ?_⟩
  · rw [h2.seen_eq t, h1.seen_eq t, hc1 t, hc2 t]
  · rw [h2.pb_eq t a n, h1.args_eq t a n, h2.cnt_eq t a, h1.cnt_eq t a, hc1 t, hc2 t]

/-- … and no replayed call ever hits a missing key. -/
theorem C01_threads_no_missing_key (w : String → String) (prog : Nat → List TCall) (s1 s2 : List Nat)
    (hc1 : Complete prog (runRecord w prog s1))
    (hw : ∀ k, w k ≠ missing) (hres : ∀ t c, c ∈ prog t → c.res ≠ missing) :
    ∀ t, missing ∉ (runReplay (PlaybackModel.ThreadsReplay.get (runRecord w prog s1).data) prog s2).seen t := by
  intro t hm
  have h1 := recInv_run w prog s1
  have hR := holds_of_complete w prog _ h1 hc1
  have h2 := repInv_run w prog _ hR s2
  rw [h2.seen_eq t, List.mem_reverse] at hm
  simp only [specSeen, List.mem_map] at hm
  obtain ⟨c, hcm, hce⟩ := hm
  have hcm' : c ∈ prog t := List.mem_of_mem_take hcm
  by_cases hin : c.isIn = true
  · simp [hin] at hce; exact hw _ hce
  · simp [hin] at hce; exact hres t c hcm' hce

/-! Non-vacuity: two workers (an input and an output each, the input key shared) and the main thread, recorded under one
interleaving and replayed under another; both runs complete. -/
def exThreads : Nat → List TCall
  | 0 => [⟨true, "in k1", "", ""⟩, ⟨false, "out0", "a", "r0"⟩]
  | 1 => [⟨false, "out1", "b", "r1"⟩, ⟨true, "in k1", "", ""⟩, ⟨false, "out1", "c", "r2"⟩]
  | _ => []

example : (∀ t, (runRecord (fun k => "v:" ++ k) exThreads [0, 1, 1, 0, 1, 2]).pc t = (exThreads t).length) := by
  intro t
  match t with
  | 0 => rfl
  | 1 => rfl
  | (n + 2) => rfl

example : (runReplay (PlaybackModel.ThreadsReplay.get (runRecord (fun k => "v:" ++ k) exThreads [0, 1, 1, 0, 1, 2]).data)
    exThreads [1, 1, 1, 0, 0]).seen 1 = ["r2", "v:in k1", "r1"] := by decide

end Threads

end Properties.C01
