import PlaybackProofs.RecorderIdle
/-!
# C09 — The recorder returns to idle; every run is independent of history

`St.Idle`: neither recording nor replaying, no sticky forced sampling, per-alias output numbering restarted,
playback outputs empty, nested-interception flag clear.  A *run* is an operation (any class parameters: recorded,
skipped, recording disabled; any program: returns, raises, is interrupted anywhere, discards, is sampled out, hits
faults), a replay (missing id, missing key, playback function raising or interrupted), or toggling recording.
-/
namespace Properties.C09
open PlaybackModel.Recorder

/-- After any operation the recorder is idle. -/
theorem C09_idle_after_operation (ao : AliasOracle) (cfg : OpCfg) (s : St) (p : Prog) (h : s.Idle) :
    (runOperation ao cfg s p).1.Idle := by
  obtain ⟨ha, hf, hc, hp, hpo, hi⟩ := h
  by_cases hrec : s.enabled = true ∧ cfg.params.skipped = false
  · have := runOperation_recording_spec ao cfg s p hp hpo hrec.1 hrec.2 ha
    obtain ⟨_, _, _, h1, h2, h3, h4, h5, h6⟩ := this
    exact ⟨h1, h2, h3, h4, h5, by rw [h6]; exact hi⟩
  · have hro : runOperation ao cfg s p = exec s p := by
      unfold runOperation
      by_cases he : s.enabled = true
      · have : cfg.params.skipped = true := by
          cases hs : cfg.params.skipped
          · exact absurd ⟨he, hs⟩ hrec
          · rfl
        simp [inPlaybackMode, hp, he, this]
      · simp [inPlaybackMode, hp, he]
    rw [hro]
    have h1 := exec_inactive p s ha hf
    have h2 := exec_passthrough p s ha hp
    exact ⟨h1.1, h1.2.1, by rw [h2.1]; exact hc, by rw [(exec_frame p s).2.2.2.2.2.2]; exact hp,
      by rw [h2.2]; exact hpo, by rw [exec_inInt]; exact hi⟩

/-- After any replay the recorder is idle. -/
theorem C09_idle_after_play (ao : AliasOracle) (cfg : OpCfg) (s : St) (id : Nat) (p : Prog) (h : s.Idle) :
    (runPlay ao cfg s id p).1.Idle :=
  (runPlay_spec ao cfg s id p h).1

theorem C09_idle_after_run (ao : AliasOracle) (s : St) (r : Run) (h : s.Idle) : (execRun ao s r).1.Idle := by
  cases r with
  | op cfg p => exact C09_idle_after_operation ao cfg s p h
  | play cfg id p => exact C09_idle_after_play ao cfg s id p h
  | enable => exact idle_doSetEnabled true h
  | disable => exact idle_doSetEnabled false h

/-- After any history of runs the recorder is idle. -/
theorem C09_idle_after_history (ao : AliasOracle) (hist : List Run) : ∀ s : St, s.Idle → (execAll ao s hist).Idle := by
  induction hist with
  | nil => intro s h; exact h
  | cons r rest ih => intro s h; exact ih _ (C09_idle_after_run ao s r h)

/-- An idle recorder IS a fresh recorder, up to the components that legitimately persist. -/
theorem C09_idle_is_fresh (s : St) (h : s.Idle) : s = s.freshLike := by
  obtain ⟨h1, h2, h3, h4, h5, h6⟩ := h
  cases s
  simp only [St.freshLike] at *
  subst h1 h2 h3 h4 h5 h6
  rfl

/-- Therefore the result of any probe run (and the state it leaves) equals what a fresh recorder with the same
persistent components produces, whatever ran before. -/
theorem C09_history_independent (ao : AliasOracle) (hist : List Run) (probe : Run) (s0 : St) (h0 : s0.Idle) :
    execRun ao (execAll ao s0 hist) probe = execRun ao (execAll ao s0 hist).freshLike probe := by
  rw [← C09_idle_is_fresh _ (C09_idle_after_history ao hist s0 h0)]

/-! Non-vacuity: a fresh recorder is idle; a non-trivial history exists. -/
example : St.Idle {} := ⟨rfl, rfl, rfl, rfl, rfl, rfl⟩
example : ∃ hist : List Run, hist.length = 3 :=
  ⟨[.enable, .op { cls := "Op" } (.discard (.done (.interrupt "SystemExit"))), .play { cls := "Op" } 7 (.done (.out (.exc "ValueError")))], rfl⟩

end Properties.C09
