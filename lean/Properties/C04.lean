import PlaybackProofs.RecorderIdle
import PlaybackProofs.Threads
/-!
# C04 — Recording is transparent to the recorded service

`runPlain` is the undecorated twin (every wrapped body runs, nothing else happens).  Programs are arbitrary
interaction trees: any number and order of intercepted calls, bodies that are programs themselves (nested
interceptions, `discard` / `force` / `record_data` from inside a body), every tolerated fault placed anywhere:
key cannot be built (`cfg.keys args = none`), input/output data handler raises (`prepare … = none`), metadata
extractor fails (`OpCfg.extractor = some .fails`), the cassette's save raises or the value is not serialisable
(`OpCfg.saveFails`), sampling decisions (any `Params`, any draws), interrupts (`End.interrupt`).
-/
namespace Properties.C04
open PlaybackModel.Recorder

/-- Every intercepted call and every statement behaves as in the twin, in ANY recorder state outside replay:
recording or not, inside another interception or not, recording already discarded or not.  Same result (value,
exception type or interrupt) and the same bodies executed, once each, with the same arguments, in the same order. -/
theorem C04_interceptions_transparent (p : Prog) (s : St) (h : s.playback = none) :
    (exec s p).2 = (runPlain s.journal p).2 ∧ (exec s p).1.journal = (runPlain s.journal p).1 :=
  ⟨(exec_transparent p s h).1, (exec_transparent p s h).2.1⟩

/-- A decorated operation with recording enabled returns/raises exactly what the undecorated operation does and
executes the same bodies, whatever happens inside the recording machinery. -/
theorem C04_transparent (ao : AliasOracle) (cfg : OpCfg) (s : St) (p : Prog)
    (hidle : s.Idle) (hen : s.enabled = true) (hsk : cfg.params.skipped = false) :
    (runOperation ao cfg s p).2 = (runPlain s.journal p).2 ∧
    (runOperation ao cfg s p).1.journal = (runPlain s.journal p).1 := by
  obtain ⟨ha, _, _, hp, hpo, _⟩ := hidle
  have := runOperation_recording_spec ao cfg s p hp hpo hen hsk ha
  exact ⟨this.1, this.2.1⟩

/-- With recording disabled, or for a class marked `skipped`, the decorators are pure pass-through: same result,
same bodies, and the cassette is never touched (no call logged, stored recordings unchanged). -/
theorem C04_disabled_passthrough (ao : AliasOracle) (cfg : OpCfg) (s : St) (p : Prog)
    (hidle : s.Idle) (hoff : s.enabled = false ∨ cfg.params.skipped = true) :
    (runOperation ao cfg s p).2 = (runPlain s.journal p).2 ∧
    (runOperation ao cfg s p).1.journal = (runPlain s.journal p).1 ∧
    (runOperation ao cfg s p).1.log = s.log ∧ (runOperation ao cfg s p).1.store = s.store := by
  obtain ⟨ha, hf, _, hp, _, _⟩ := hidle
  have hro : runOperation ao cfg s p = exec s p := by
    unfold runOperation
    rcases hoff with h | h <;> simp [inPlaybackMode, hp, h]
  rw [hro]
  exact ⟨(exec_transparent p s hp).1, (exec_transparent p s hp).2.1, (exec_inactive p s ha hf).2.2,
    (exec_frame p s).2.1⟩

/-- Known finding K6 (the documented assertion): an operation started while another recording of the same recorder is
active raises `AssertionError` into the service instead of behaving like the twin. -/
theorem C04_nested_operation_counterexample (ao : AliasOracle) :
    ∃ (cfg : OpCfg) (s : St) (p : Prog), s.playback = none ∧ s.enabled = true ∧
      (runOperation ao cfg s p).2 ≠ (runPlain s.journal p).2 :=
  ⟨{ cls := "Op" }, { enabled := true, active := some { id := 0, data := [], params := {} } },
   .done (.out (.ret (.atom "1"))), rfl, rfl, by simp [runOperation, inPlaybackMode, runPlain]⟩

/-! ### interceptions in flight on worker threads while the recording is discarded or finalised

`PlaybackModel.Threads`: every read and write of the shared recorder object is its own step; a schedule is an arbitrary list of
thread ids (0 = the operation's main thread, which discards or runs the `finally` block field by field; i+1 = worker i, which
makes intercepted calls).  **Partial**: the theorem quantifies over all schedules of the MODEL's micro-steps; which switch
points CPython really offers is explored by the scheduler-driven tie only. -/
open PlaybackModel.Threads in
/-- Under every schedule the repaired interception code never raises, and each worker is handed exactly the outcomes of
its wrapped bodies, in order — whatever the main thread (or another worker's failing capture) does to the recording
meanwhile. -/
theorem C04_threads (sys : Sys) (sched : List Nat) :
    ∃ sys', runSched stepWorker sys sched = .ok sys' ∧
      sys'.workers.map Worker.plan = sys.workers.map Worker.plan ∧
      ∀ w ∈ sys'.workers, w.todo = [] → w.handed = w.plan := by
  obtain ⟨sys', h1, h2⟩ := runSched_ok sched sys
  refine ⟨sys', h1, h2, ?_⟩
  intro w _ hw
  simp [Worker.handed, Worker.plan, hw]

open PlaybackModel.Threads in
/-- The code before the `fix:` commit (F1) raises into the worker's caller: the main thread discards between the worker's
snapshot and its use of the recording parameters. -/
theorem C04_threads_unfixed_counterexample :
    runSched stepWorkerUnfixed
      { shared := { enabled := true, active := some 0, copyFlag := some false, forced := false, counterReset := 0,
                    recs := [⟨[], false⟩], aborts := [], saves := [] },
        main := { pc := .discardRead, keep := true },
        workers := [{ todo := [⟨some 1, .ret 5, false⟩], pc := .start, recSnap := none, parSnap := none, keyEff := none,
                      toAbort := none, results := [] }] }
      [1, 1, 0, 0, 0, 0, 1] = .error .attributeError := by rfl

open PlaybackModel.Threads in
/-- … and the same schedule on the repaired code hands the worker its body's value. -/
theorem C04_threads_fixed_on_witness :
    (runSched stepWorker
      { shared := { enabled := true, active := some 0, copyFlag := some false, forced := false, counterReset := 0,
                    recs := [⟨[], false⟩], aborts := [], saves := [] },
        main := { pc := .discardRead, keep := true },
        workers := [{ todo := [⟨some 1, .ret 5, false⟩], pc := .start, recSnap := none, parSnap := none, keyEff := none,
                      toAbort := none, results := [] }] }
      [1, 1, 0, 0, 0, 0, 1, 1, 1]).toOption.map (fun sys => sys.workers.map (·.results)) = some [[.ret 5]] := by decide

/-! Non-vacuity: an idle, enabled recorder and a program with a failing key, a failing handler, a discard from a body
and an interrupt. -/
example : (St.Idle { enabled := true }) ∧ ({ enabled := true } : St).enabled = true := ⟨⟨rfl, rfl, rfl, rfl, rfl, rfl⟩, rfl⟩

example : ∃ p : Prog, ∃ cfg : InCfg, cfg.keys ⟨[], []⟩ = none ∧
    p = .callIn cfg ⟨[], []⟩ (.discard (.done (.interrupt "KeyboardInterrupt"))) (fun _ => .done (.out (.exc "ValueError"))) :=
  ⟨_, ⟨"f", fun _ => none, some (fun _ _ => none), fun _ v => .ret v, false, none⟩, rfl, rfl⟩

end Properties.C04
