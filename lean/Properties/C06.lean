import PlaybackProofs.Keys
import PlaybackProofs.Escape
import PlaybackProofs.Lex
/-!
# C06 — Input lookup keys identify calls by alias and captured argument values only

Property theorems only; the model is `PlaybackModel/Codec.lean` (jsonpickle 0.9.3 over json, token level) and
`PlaybackModel/Keys.lean` (`_format_alias`, `_input_interception_key`), the helper lemmas are in
`PlaybackProofs/Codec.lean` and `PlaybackProofs/Keys.lean`.

Reading of the statement: a key is a function of (resolved alias, captured arguments); it is insensitive to dict
insertion order, to arguments excluded from capture and — for set-free arguments — to the iteration order of the
encoding process (hash seed); it is injective on (alias, captured arguments up to dict order).  Injectivity is proved
on the token stream (alias characters, the two separators, JSON tokens); that distinct token streams render to distinct
texts is `json.dumps` lexing (trusted, exercised by the exact-text tie), except for the alias boundary (`C06_alias_split`).
-/
namespace Properties.C06
open PlaybackModel.Codec PlaybackModel.Keys

/-- "equal up to dict order": equal once every dict / object state is sorted by key -/
def DictEq (v v' : Val) : Prop := sortDicts v = sortDicts v'

/-- The key depends only on the resolved alias and on what capture selects. -/
theorem C06_depends_only_on_captured (alias alias' : String) (sel sel' : Sel) (st st' : Bool) (a a' : Vals)
    (kw kw' : Fields) (hc : capture sel st a kw = capture sel' st' a' kw') (ha : alias = alias') :
    inputKey alias sel st a kw = inputKey alias' sel' st' a' kw' := by
  simp [inputKey, hc, ha]

example : capture (.only [⟨some 1, some "x"⟩]) false (.cons .none (.cons (.int 1) (.cons (.int 7) .nil))) .nil =
    capture (.only [⟨some 1, some "x"⟩]) false (.cons (.str "self") (.cons (.int 1) (.cons (.int 8) .nil))) .nil := by
  simp [capture, captureLoop, Vals.get?, Fields.lookup, Vals.snoc]

/-- Arguments excluded from capture are irrelevant: two calls that agree on every captured name (as looked up in the
keyword arguments) and on every captured position have the same key, whatever else was passed. -/
theorem C06_excluded_args_irrelevant (alias : String) (l : List CapturedArg) (st st' : Bool) (a a' : Vals)
    (kw kw' : Fields)
    (h : ∀ c ∈ l, c.name.bind kw.lookup = c.name.bind kw'.lookup ∧ ∀ p, c.position = some p → a.get? p = a'.get? p) :
    inputKey alias (.only l) st a kw = inputKey alias (.only l) st' a' kw' := by
  simp [inputKey, capture, captureLoop_congr a a' kw kw' l .nil .nil h]

example : ∀ c ∈ [(⟨some 0, some "x"⟩ : CapturedArg)],
    c.name.bind (Fields.cons "z" (.int 1) .nil).lookup = c.name.bind (Fields.cons "z" (.int 2) .nil).lookup ∧
    ∀ p, c.position = some p → (Vals.cons (.int 5) (.cons (.int 1) .nil)).get? p = (Vals.cons (.int 5) .nil).get? p := by
  intro c hc
  simp only [List.mem_singleton] at hc
  subst hc
  simp [Fields.lookup, Vals.get?]

/-- The encoding of a dict does not depend on the insertion order of its items. -/
theorem C06_dict_order_irrelevant (l l' : Fields) (hp : Fields.Perm l l') (hd : l.DistinctKeys) :
    encToks (.dict l) = encToks (.dict l') := by
  simp [encToks, flatten, flattenF_perm hp hd]

/-- … the same inside any argument position (here: as an attribute-carrying object's state) … -/
theorem C06_dict_order_irrelevant_obj (c : String) (k : String) (v : Val) (l l' : Fields)
    (hp : Fields.Perm (.cons k v l) l') (hd : (Fields.cons k v l).DistinctKeys) (hne : l'.NonEmpty) :
    encToks (.obj c (.cons k v l)) = encToks (.obj c l') := by
  cases l' with
  | nil => exact absurd hne (by simp [Fields.NonEmpty])
  | cons k' v' l'' => simp [encToks, flatten, stateJ, flattenF_perm hp hd]

/-- … and the key text does not depend on the order in which keyword arguments were passed. -/
theorem C06_kwargs_order_irrelevant (alias : String) (a : Val) (kw kw' : Fields) (hp : Fields.Perm kw kw')
    (hd : kw.DistinctKeys) : keyText alias a kw = keyText alias a kw' := by
  simp [keyText, kwargsVal, Fields.sort_perm hp hd]

example : Fields.Perm (.cons "b" (.int 1) (.cons "a" (.int 2) .nil)) (.cons "a" (.int 2) (.cons "b" (.int 1) .nil)) ∧
    (Fields.cons "b" (.int 1) (.cons "a" (.int 2) .nil)).DistinctKeys :=
  ⟨Fields.Perm.swap _ _ _ _ _, by simp [Fields.DistinctKeys, Fields.keys]⟩

/-- Token-level round trip of the codec: decoding what was encoded (followed by anything) gives back the value, for
faithful values in the form `decode` returns (dict keys increasing). -/
theorem C06_codec_roundtrip (v : Val) (hw : v.WF) (hc : v.Canonical) (rest : List Tok) :
    decToks (encToks v ++ rest) = some (v, rest) := by
  rw [decToks_encToks, canon_id v hw hc]

/-- … and for any faithful value, in whatever order its dicts were built, up to that order. -/
theorem C06_codec_roundtrip_unordered (v : Val) (hw : v.WF) (rest : List Tok) :
    decToks (encToks v ++ rest) = some (sortDicts v, rest) := by
  rw [decToks_encToks, canon_eq_sortDicts v hw]

example : (Val.dict (.cons "a" (.tuple (.cons (.int 1) .nil)) (.cons "b" (.obj "m.C" (.cons "x" .none .nil)) .nil))).WF ∧
    (Val.dict (.cons "a" (.tuple (.cons (.int 1) .nil)) (.cons "b" (.obj "m.C" (.cons "x" .none .nil)) .nil))).Canonical := by
  refine ⟨?_, ?_⟩
  · simp [Val.WF, Vals.WF, Fields.WF, Fields.NoReserved, Fields.NonEmpty, isReserved]
  · simp only [Val.Canonical, Vals.Canonical, Fields.Canonical, Fields.Sorted, and_self, and_true, true_and]
    decide

/-- Injectivity: different aliases or different captured arguments never share a key.  Equal token-level keys force
equal aliases and captured positional and keyword arguments that are equal up to dict order. -/
theorem C06_injective (alias alias' : String) (a a' : Val) (kw kw' : Fields)
    (ha : a.WF) (ha' : a'.WF) (hk : kw.WF ∧ kw.NoReserved) (hk' : kw'.WF ∧ kw'.NoReserved)
    (h : inputKeyToks alias a kw = inputKeyToks alias' a' kw') :
    alias = alias' ∧ DictEq a a' ∧ DictEq (.dict kw) (.dict kw') := by
  obtain ⟨h1, h2, h3⟩ := inputKeyToks_inj h
  refine ⟨h1, ?_, ?_⟩
  · have := encToks_inj h2
    rwa [canon_eq_sortDicts a ha, canon_eq_sortDicts a' ha'] at this
  · have := canon_kwargs_of_enc hk.2 hk'.2 h3
    rwa [canon_eq_sortDicts (.dict kw) (by simpa [Val.WF] using hk),
      canon_eq_sortDicts (.dict kw') (by simpa [Val.WF] using hk')] at this

/-- … conversely ("structurally equal arguments give the same key"): equal aliases and captured arguments that are
equal up to dict order — at any depth — give the same key text. -/
theorem C06_structurally_equal_same_key (alias : String) (a a' : Val) (kw kw' : Fields)
    (hd : a.Distinct) (hd' : a'.Distinct) (h : DictEq a a')
    (hk : (Val.dict kw).Distinct) (hk' : (Val.dict kw').Distinct) (hkw : DictEq (.dict kw) (.dict kw')) :
    keyText alias a kw = keyText alias a' kw' := by
  have e1 : encToks a = encToks a' := encToks_of_sortDicts_eq hd hd' h
  have e2 : encToks (kwargsVal kw) = encToks (kwargsVal kw') := by
    have hs : sortDictsF kw = sortDictsF kw' := by simpa [DictEq, sortDicts] using hkw
    have m : ∀ fs : Fields, sortDictsF fs = mapF sortDicts fs.sort := by
      intro fs
      exact sortDictsF_eq_map_sort fs
    have d1 := kwPairs_sort_distinct kw (by simpa [Val.Distinct] using hk)
    have d2 := kwPairs_sort_distinct kw' (by simpa [Val.Distinct] using hk')
    apply encToks_of_sortDicts_eq d1 d2
    simp only [kwargsVal, sortDicts, sortDictsL_kwPairs, ← m, hs]
  simp [keyText, encodeText, e1, e2]

example : (Val.tuple (.cons (.dict (.cons "b" (.int 1) (.cons "a" (.int 2) .nil))) .nil)).Distinct ∧
    DictEq (.tuple (.cons (.dict (.cons "b" (.int 1) (.cons "a" (.int 2) .nil))) .nil))
           (.tuple (.cons (.dict (.cons "a" (.int 2) (.cons "b" (.int 1) .nil))) .nil)) := by
  refine ⟨by simp [Val.Distinct, Vals.Distinct, Fields.Distinct, Fields.DistinctKeys, Fields.keys], ?_⟩
  have h1 : "a" < "b" := by decide
  have h2 : ¬ "b" < "a" := by decide
  simp [DictEq, sortDicts, sortDictsL, sortDictsF, Fields.insert, h1, h2]

example : (Val.tuple (.cons (.int 1) .nil)).WF ∧ (Fields.cons "k" (.str "v") .nil).WF ∧
    (Fields.cons "k" (.str "v") .nil).NoReserved := by
  simp [Val.WF, Vals.WF, Fields.WF, Fields.NoReserved, isReserved]

/-- The alias part of a key text is delimited: with no `=` in the resolved aliases, equal key texts have equal
aliases and equal argument parts (on the characters of the real key text). -/
theorem C06_alias_split (alias alias' : String) (a a' : Val) (kw kw' : Fields)
    (hw : AliasWF alias.toList) (hw' : AliasWF alias'.toList) (h : keyText alias a kw = keyText alias' a' kw') :
    alias = alias' ∧
      encodeText a ++ ", kwargs=" ++ encodeText (kwargsVal kw) = encodeText a' ++ ", kwargs=" ++ encodeText (kwargsVal kw') := by
  have h' := congrArg String.toList h
  rw [keyText_toList, keyText_toList] at h'
  have h2 := List.append_cancel_left h'
  have e : " args=".toList = [' ', 'a', 'r', 'g', 's', '='] := by decide
  rw [e] at h2
  have h3 : (alias.toList ++ [' ', 'a', 'r', 'g', 's']) ++ '=' :: (encodeText a ++ ", kwargs=" ++ encodeText (kwargsVal kw)).toList
      = (alias'.toList ++ [' ', 'a', 'r', 'g', 's']) ++ '=' :: (encodeText a' ++ ", kwargs=" ++ encodeText (kwargsVal kw')).toList := by
    simpa [List.append_assoc] using h2
  have n1 : '=' ∉ alias.toList ++ [' ', 'a', 'r', 'g', 's'] := by
    simp only [List.mem_append, not_or]; exact ⟨hw, by decide⟩
  have n2 : '=' ∉ alias'.toList ++ [' ', 'a', 'r', 'g', 's'] := by
    simp only [List.mem_append, not_or]; exact ⟨hw', by decide⟩
  obtain ⟨e1, e2⟩ := split_first_eq _ _ _ _ n1 n2 h3
  exact ⟨String.toList_inj.mp (List.append_cancel_right e1), String.toList_inj.mp e2⟩

example : AliasWF "Service.fetch_7".toList := by unfold AliasWF; decide

/-- Known finding K1 excluded: for set-free captured arguments the key does not depend on the iteration order `ord`
that the encoding process (its hash seed) applies to sets. -/
theorem C06_sets_partial (alias : String) (a : Val) (kw : Fields) (ord ord' : Vals → Vals)
    (ha : a.SetFree) (hk : kw.SetFree) :
    keyText alias (iterView ord a) (iterViewF ord kw) = keyText alias (iterView ord' a) (iterViewF ord' kw) := by
  rw [iterView_setFree ord a ha, iterView_setFree ord' a ha, iterViewF_setFree ord kw hk, iterViewF_setFree ord' kw hk]

example : (Val.tuple (.cons (.dict (.cons "a" (.list (.cons (.int 1) .nil)) .nil)) .nil)).SetFree := by
  simp [Val.SetFree, Vals.SetFree, Fields.SetFree]

def revVals (xs : Vals) : Vals := Vals.ofList xs.toList.reverse

/-- K1 in the model: the same call with a set argument `{'x', 'y'}`, seen by two processes whose iteration orders
differ, gets two different keys. -/
theorem C06_set_counterexample :
    inputKeyToks "f" (iterView (fun xs => xs) (.tuple (.cons (.set (.cons (.str "x") (.cons (.str "y") .nil))) .nil))) .nil ≠
    inputKeyToks "f" (iterView revVals (.tuple (.cons (.set (.cons (.str "x") (.cons (.str "y") .nil))) .nil))) .nil := by
  decide

/-! ## Below the token level: literals are rendered injectively

`C06_injective` is stated on token streams.  The two kinds of token that carry unbounded content - string literals and
integer literals - are rendered to text injectively (character level): the body of a string literal (json.dumps'
`ensure_ascii` escaping as transcribed in `escChar`: two-character escapes, `\uXXXX`, surrogate pairs for astral
characters) can be decoded character by character, and decimal rendering of integers is injective.  Token boundaries are recognised by the lexer
`lexAll` (`PlaybackModel/Lexer.lean`), which provably recovers the tokens of every rendered stream (`lex_render`); hence the
text-level theorems below.  What remains in the trusted base at text level: the `repr` text of a finite float is assumed to
be well formed (`Tok.WF`: sign, digits, a point or an exponent), and bytes are carried as their quoted-printable text. -/

/-- Two different strings never have the same literal text. -/
theorem C06_string_literal_injective (s s' : String) (h : tokText (.str s) = tokText (.str s')) : s = s' := by
  simp only [tokText] at h
  have h2 := congrArg String.toList h
  simp only [String.toList_append, List.append_assoc] at h2
  have hq : ("\"" : String).toList = ['"'] := by decide
  rw [hq] at h2
  simp only [List.cons_append, List.nil_append, List.cons.injEq, true_and] at h2
  have h3 := List.append_cancel_right h2
  exact escString_injective s s' (String.toList_inj.mp h3)

/-- … and every character of a string can be read back from its literal: the decoder `dec` inverts `escChar`. -/
theorem C06_string_char_decodable (c : Char) (rest : List Char) : dec ((escChar c).toList ++ rest) = some (c, rest) :=
  dec_esc c rest

/-- Two different integers never have the same literal text. -/
theorem C06_int_literal_injective (a b : Int) (h : tokText (.num a) = tokText (.num b)) : a = b :=
  PlaybackModel.CodecNum.int_toString_injective a b h

/-- **Rendered token streams are uniquely decodable** (character level): two well-formed JSON token streams with the same
text are the same stream. -/
theorem C06_render_injective (ts ts' : List Tok) (hwf : ∀ t ∈ ts, t.WF) (hwf' : ∀ t ∈ ts', t.WF) (hsep : Sep ts) (hsep' : Sep ts')
    (h : render ts = render ts') : ts = ts' :=
  render_injective ts ts' hwf hwf' hsep hsep' h

/-- **Text-level injectivity of the encoded arguments**: two faithful values whose ENCODED TEXTS are equal are equal up to
dict order - the `args=` (and `kwargs=`) part of a key text determines the captured values. -/
theorem C06_text_injective (a a' : Val) (ha : a.WF) (ha' : a'.WF) (hf : ∀ t ∈ encToks a, t.WF) (hf' : ∀ t ∈ encToks a', t.WF)
    (h : encodeText a = encodeText a') : DictEq a a' := by
  have ht := encodeText_injective a a' hf hf' h
  have := encToks_inj ht
  rwa [canon_eq_sortDicts a ha, canon_eq_sortDicts a' ha'] at this

/-- **Text-level round trip of the codec**: `decodeText` (lex the characters, parse, restore) applied to the text of an encoded
faithful value gives the value back. -/
theorem C06_codec_text_roundtrip (v : Val) (hw : v.WF) (hc : v.Canonical) (hf : ∀ t ∈ encToks v, t.WF) :
    decodeText (encodeText v) = some v :=
  decodeText_encodeText v hw hc hf

/-- **The key TEXT identifies the call** (character level, the statement of the property on the strings the recorder really
uses): two input keys with the same text have the same alias, and captured positional and keyword arguments that are equal
up to dict order.  Premises: no `=` in the resolved aliases (`AliasWF`, the proof-forced delimiter condition), faithful
captured values, well-formed float texts. -/
theorem C06_key_text_injective (alias alias' : String) (a a' : Val) (kw kw' : Fields)
    (hw : AliasWF alias.toList) (hw' : AliasWF alias'.toList)
    (ha : a.WF) (ha' : a'.WF) (hk : kw.WF ∧ kw.NoReserved) (hk' : kw'.WF ∧ kw'.NoReserved)
    (hf : ∀ t ∈ encToks a, t.WF) (hf' : ∀ t ∈ encToks a', t.WF)
    (hg : ∀ t ∈ encToks (kwargsVal kw), t.WF) (hg' : ∀ t ∈ encToks (kwargsVal kw'), t.WF)
    (h : keyText alias a kw = keyText alias' a' kw') :
    alias = alias' ∧ DictEq a a' ∧ DictEq (.dict kw) (.dict kw') := by
  obtain ⟨h1, h2⟩ := C06_alias_split alias alias' a a' kw kw' hw hw' h
  obtain ⟨h3, h4⟩ := args_kwargs_split a a' _ _ hf hf' h2
  refine ⟨h1, C06_text_injective a a' ha ha' hf hf' h3, ?_⟩
  have h5 := encodeText_injective _ _ hg hg' h4
  have := canon_kwargs_of_enc hk.2 hk'.2 h5
  rwa [canon_eq_sortDicts (.dict kw) (by simpa [Val.WF] using hk),
    canon_eq_sortDicts (.dict kw') (by simpa [Val.WF] using hk')] at this

/-! Non-vacuity: a value with a float, a negative integer, an escaped string and nesting meets the float-text premise. -/
example : ∀ t ∈ encToks (.list (.cons (.float "-1.5e+100") (.cons (.int (-7)) (.cons (.str "a\"b") .nil)))), t.WF := by
  decide

example : tokText (.str (String.ofList ['a', '"', 'b', '\n', Char.ofNat 233, Char.ofNat 128512])) =
    "\"a\\\"b\\n\\u00e9\\ud83d\\ude00\"" := by decide

end Properties.C06
