import PlaybackProofs.MetaFilter
/-!
# C14 — Metadata filter matching is total and means what is documented

Property theorems only; helper lemmas are in `PlaybackProofs/MetaFilter.lean`, the model in
`PlaybackModel/MetaFilter.lean`.  Every theorem is parametric in `glob` (Python's `fnmatch`).
-/
namespace Properties.C14
open PlaybackModel.MetaFilter

/-- Matching never raises: for every filter and every metadata there is a yes/no answer. -/
theorem C14_total (glob : String → String → Bool) (f md : List (String × MVal)) :
    ∃ b, matchMeta glob f md = .ok b :=
  matchMeta_total glob f md

/-- … and so does matching a single value (what `iter_recording_ids` applies per key). -/
theorem C14_value_total (glob : String → String → Bool) (f r : MVal) :
    ∃ b, matchValue glob f r = .ok b :=
  matchValue_total glob f r

/-- `f` is a plain value: not a string, not a list, not `None`, not an operator object -/
def Plain : MVal → Prop
  | .bool _ | .num _ _ | .tuple _ | .cls _ => True
  | .dict fs => operatorParts fs = none
  | _ => False

/-- A plain value matches a present value by Python equality. -/
theorem C14_atom (glob : String → String → Bool) (f r : MVal) (hf : Plain f) (hr : isNone r = false) :
    matchValue glob f r = .ok (pyEq r f) := by
  cases f <;> simp only [Plain] at hf <;> rw [matchValue]
  all_goals first
    | (simp only [atomMatch, hr]; rfl)
    | (rw [hf]; simp only [atomMatch, hr]; rfl)

/-- `None` as a filter value matches exactly a missing / `None` recorded value. -/
theorem C14_none_filter (glob : String → String → Bool) (r : MVal) :
    matchValue glob .none r = .ok (isNone r) := by
  rw [matchValue]; cases r <;> rfl

/-- A string is a shell-style pattern against string values and matches nothing else. -/
theorem C14_pattern (glob : String → String → Bool) (p : String) :
    (∀ s, matchValue glob (.str p) (.str s) = .ok (glob p s)) ∧
    (∀ r, (∀ s, r ≠ .str s) → matchValue glob (.str p) r = .ok false) := by
  constructor
  · intro s; rw [matchValue]; rfl
  · intro r hr; rw [matchValue]
    cases r <;> first | rfl | exact absurd rfl (hr _)

/-- A list matches iff any alternative matches. -/
theorem C14_alternatives (glob : String → String → Bool) (alts : List MVal) (r : MVal) :
    matchValue glob (.list alts) r = .ok true ↔ ∃ a ∈ alts, matchValue glob a r = .ok true := by
  rw [matchValue]; exact matchAny_true_iff glob alts r

/-- documented meaning of the operator object: the comparison, `false` when the operator is unknown or the
operands cannot be compared -/
def cmpSpec (op : Option Op) (recorded value : MVal) : Bool :=
  match op with
  | some .eq => pyEq recorded value
  | some .lt => (pyCmp true recorded value).toOption.getD false
  | some .le => (pyCmp false recorded value).toOption.getD false
  | some .gt => (pyCmp true value recorded).toOption.getD false
  | some .ge => (pyCmp false value recorded).toOption.getD false
  | none => false

/-- **The operator table of the code as it stands** (`PlaybackModel.Source.operatorTable` is regenerated from
`_operator_filter` on every run): exactly the five documented operators, each with its documented comparison. -/
theorem C14_operator_table :
    parseOp (.str "=") = some .eq ∧ parseOp (.str "<") = some .lt ∧ parseOp (.str "<=") = some .le ∧
    parseOp (.str ">") = some .gt ∧ parseOp (.str ">=") = some .ge ∧
    (∀ s : String, s ≠ "=" → s ≠ "<" → s ≠ "<=" → s ≠ ">" → s ≠ ">=" → parseOp (.str s) = none) ∧
    (∀ v : MVal, (∀ s, v ≠ .str s) → parseOp v = none) := by
  refine ⟨by decide, by decide, by decide, by decide, by decide, ?_, ?_⟩
  · intro s h1 h2 h3 h4 h5
    simp [parseOp, PlaybackModel.Atoms.lastMatch, PlaybackModel.Source.operatorTable, Ne.symm h1, Ne.symm h2, Ne.symm h3,
      Ne.symm h4, Ne.symm h5]
  · intro v hv
    cases v <;> first | rfl | exact absurd rfl (hv _)

/-- An operator object matches by comparison. -/
theorem C14_operator (glob : String → String → Bool) (fs : List (String × MVal)) (op v r : MVal)
    (h : operatorParts fs = some (op, v)) :
    matchValue glob (.dict fs) r = .ok (cmpSpec (parseOp op) r v) := by
  rw [matchValue, h]
  simp only [operatorFilter_eq, operatorCmp]
  cases parseOp op with
  | none => rfl
  | some o =>
    cases o <;> simp only [opCmp, cmpSpec]
    · cases pyCmp true r v with
      | ok b => rfl
      | error e => cases e; rfl
    · cases pyCmp false r v with
      | ok b => rfl
      | error e => cases e; rfl
    · cases pyCmp true v r with
      | ok b => rfl
      | error e => cases e; rfl
    · cases pyCmp false v r with
      | ok b => rfl
      | error e => cases e; rfl

mutual
/-- `f` offers a `None` alternative: `None` itself, a list containing such an alternative, or the equality
operator object on `None` -/
def hasNoneAlt : MVal → Bool
  | .none => true
  | .list alts => hasNoneAltList alts
  | .dict fs => match operatorParts fs with
    | some (op, v) => parseOp op == some .eq && isNone v
    | none => false
  | .str _ | .bool _ | .num _ _ | .tuple _ | .cls _ => false
def hasNoneAltList : List MVal → Bool
  | [] => false
  | a :: rest => hasNoneAlt a || hasNoneAltList rest
end

private theorem pyCmp_none_left (strict : Bool) (v : MVal) : pyCmp strict .none v = .error .typeError := by
  cases v <;> rfl
private theorem pyCmp_none_right (strict : Bool) (v : MVal) : pyCmp strict v .none = .error .typeError := by
  cases v <;> rfl

private theorem operator_none (op v : MVal) :
    operatorFilter op .none v = .ok (parseOp op == some .eq && isNone v) := by
  simp only [operatorFilter_eq, operatorCmp]
  cases parseOp op with
  | none => rfl
  | some o =>
    cases o <;> simp only [opCmp, pyCmp_none_left, pyCmp_none_right] <;> first | rfl | (cases v <;> rfl)

mutual
/-- A missing value (or `None`) matches only a `None` alternative. -/
theorem C14_missing (glob : String → String → Bool) :
    ∀ f : MVal, matchValue glob f .none = .ok (hasNoneAlt f)
  | .none => by rw [matchValue, hasNoneAlt]; rfl
  | .list alts => by rw [matchValue, hasNoneAlt]; exact C14_missing_list glob alts
  | .dict fs => by
    rw [matchValue, hasNoneAlt]
    cases h : operatorParts fs with
    | none => rfl
    | some ov =>
      obtain ⟨op, v⟩ := ov
      simp only [operator_none]
  | .str p => by rw [matchValue, hasNoneAlt]; rfl
  | .bool b => by rw [matchValue, hasNoneAlt]; rfl
  | .num n e => by rw [matchValue, hasNoneAlt]; rfl
  | .tuple xs => by rw [matchValue, hasNoneAlt]; rfl
  | .cls c => by rw [matchValue, hasNoneAlt]; rfl
theorem C14_missing_list (glob : String → String → Bool) :
    ∀ alts : List MVal, matchAny glob alts .none = .ok (hasNoneAltList alts)
  | [] => by rw [matchAny, hasNoneAltList]
  | a :: rest => by
    rw [matchAny, hasNoneAltList, C14_missing glob a]
    cases hasNoneAlt a
    · simp only [Bool.false_or]; exact C14_missing_list glob rest
    · rfl
end

/-- The filter is the conjunction of its per-key matches; an absent key is read as `None`. -/
theorem C14_conjunction (glob : String → String → Bool) (f md : List (String × MVal)) :
    matchMeta glob f md = .ok true ↔ ∀ kv ∈ f, matchValue glob kv.2 (mdGet md kv.1) = .ok true :=
  matchMeta_true_iff glob f md

/-- The matcher before the `fix:` commit raised `TypeError`: operator `<` against an absent value. -/
theorem C14_unfixed_counterexample (glob : String → String → Bool) :
    matchMetaUnfixed glob [("a", .dict [("operator", .str "<"), ("value", .num 5 0)])] [] = .error .typeError := by
  rfl

/-- … and a pattern against a number. -/
theorem C14_unfixed_counterexample_pattern (glob : String → String → Bool) :
    matchMetaUnfixed glob [("a", .str "x*")] [("a", .num 3 0)] = .error .typeError := by
  rfl

/-! Non-vacuity: concrete filters / metadata meeting the hypotheses above. -/
example : Plain (.num 3 0) ∧ isNone (.num 3 0) = false := ⟨trivial, rfl⟩
example : Plain (.dict [("x", .num 1 0)]) := by simp [Plain, operatorParts, lookup]
example : operatorParts [("operator", .str "<"), ("value", .num 5 0)] = some (.str "<", .num 5 0) := by
  simp [operatorParts, lookup]
example : matchMeta (fun _ _ => true) [("a", .list [.num 1 0, .none])] [] = .ok true := by
  simp [matchMeta, matchValue, matchAny, mdGet, lookup, atomMatch, isNone, pyEq]

end Properties.C14
