import PlaybackProofs.Equalizer
/-!
# C08 — Every recording gets exactly one, correctly attributed verdict

Property theorems only; the model is `PlaybackModel/Equalizer.lean`, helper lemmas are in
`PlaybackProofs/Equalizer.lean`.  `runDed` is the dedicated-process run of the repaired code (fresh queues per worker
process), `runIn` the in-process run, `verdictAlone` the comparison a recording gets when it is compared alone.
All statements hold for every configuration (`keep`, recycle rate, timeout) and every sequence of ids, duplicates
included; the `…_tasks` forms let every *position* behave independently.
-/
namespace Properties.C08
open PlaybackModel.Equalizer

/-- Exactly one comparison per id, in input order, labelled with that id (dedicated process). -/
theorem C08_one_per_id (cfg : Cfg) (ids : List Id) (beh : Id → Beh) :
    (runDed cfg ids beh).map (·.recordingId) = ids := by
  simp [runDed, runDedT, run_label, tasksOf, Function.comp_def]

/-- The same in the parent's own process, for behaviours that return at all there. -/
theorem C08_one_per_id_inproc (cfg : Cfg) (ids : List Id) (beh : Id → Beh)
    (h : ∀ i ∈ ids, (beh i).inProcessMeaningful = true) :
    (runIn cfg ids beh).map (·.recordingId) = ids := by
  have : ∀ t ∈ tasksOf ids beh, t.2.inProcessMeaningful = true := by
    intro t ht
    simp only [tasksOf, List.mem_map] at ht
    obtain ⟨i, hi, rfl⟩ := ht
    exact h i hi
  rw [runIn, runInProc_eq cfg _ this]
  simp [tasksOf, Function.comp_def, verdictAlone_label]

/-- Attribution, all positions at once: the run is the list of the verdicts each task gets alone. -/
theorem C08_attribution_tasks (cfg : Cfg) (tasks : List Task) :
    runDedT cfg tasks = tasks.map (verdictAlone cfg) :=
  (run_fixed cfg tasks initState (pinv_init cfg)).2

/-- Attribution: the `i`-th comparison is the verdict (status, message, attached replay, kept results) of the
`i`-th recording alone - whatever the other recordings do, whatever the recycle rate. -/
theorem C08_attribution (cfg : Cfg) (ids : List Id) (beh : Id → Beh) (i : Nat) (h : i < ids.length) :
    (runDed cfg ids beh)[i]? = some (verdictAlone cfg (ids[i], beh ids[i])) := by
  simp [runDed, C08_attribution_tasks, tasksOf, h]

/-- The replay attached to a comparison is the replay of the labelled recording. -/
theorem C08_playback_own (cfg : Cfg) (ids : List Id) (beh : Id → Beh) :
    ∀ c ∈ runDed cfg ids beh, ∀ p, c.playback = some p → p = c.recordingId := by
  intro c hc p hp
  simp only [runDed, C08_attribution_tasks, tasksOf, List.map_map, List.mem_map, Function.comp_def] at hc
  obtain ⟨i, _, rfl⟩ := hc
  revert hp
  cases hb : beh i <;> simp [verdictAlone, inner, post, outerFailure] <;>
    (repeat' split) <;> simp <;> intro h <;> exact h.symm

/-- A failure while replaying, extracting or comparing - a hung or crashed worker, a result the parent cannot read back
included - is a framework-failure
verdict for that recording. -/
theorem C08_failure_verdict (cfg : Cfg) (id : Id) (b : Beh)
    (hb : (∃ m, b = .playerRaises m) ∨ (∃ m, b = .extractorRaises m) ∨ (∃ m, b = .comparatorRaises m) ∨
      b = .workerExits ∨ b = .hang ∨ (∃ s m, b = .late s m) ∨ ∃ s m e, b = .unreadable s m e) :
    (verdictAlone cfg (id, b)).status = .equalizerFailure := by
  rcases hb with ⟨m, rfl⟩ | ⟨m, rfl⟩ | ⟨m, rfl⟩ | rfl | rfl | ⟨s, m, rfl⟩ | ⟨s, m, e, rfl⟩ <;>
    simp [verdictAlone, inner, post, outerFailure] <;> (repeat' split) <;> rfl

/-- … for that recording only: changing what happens to recording `j` changes no other comparison. -/
theorem C08_failure_isolated (cfg : Cfg) (ids : List Id) (beh beh' : Id → Beh) (j : Id)
    (hagree : ∀ i, i ≠ j → beh' i = beh i) (k : Nat) (hk : k < ids.length) (hne : ids[k] ≠ j) :
    (runDed cfg ids beh')[k]? = (runDed cfg ids beh)[k]? := by
  rw [C08_attribution cfg ids beh' k hk, C08_attribution cfg ids beh k hk, hagree _ hne]

/-- Position form: replacing the behaviour at position `j` leaves every other position's comparison unchanged. -/
theorem C08_failure_isolated_tasks (cfg : Cfg) (tasks : List Task) (j : Nat) (t' : Task) (k : Nat) (hkj : k ≠ j) :
    (runDedT cfg (tasks.set j t'))[k]? = (runDedT cfg tasks)[k]? := by
  simp [C08_attribution_tasks, Ne.symm hkj]

/-- In-process and dedicated-process execution give the same comparisons (status, message, replay, kept results) for
every behaviour that means the same in both (no process to lose, no timeout to miss). -/
theorem C08_modes_agree (cfg : Cfg) (ids : List Id) (beh : Id → Beh)
    (h : ∀ i ∈ ids, (beh i).inProcessMeaningful = true) :
    runDed cfg ids beh = runIn cfg ids beh := by
  have : ∀ t ∈ tasksOf ids beh, t.2.inProcessMeaningful = true := by
    intro t ht
    simp only [tasksOf, List.mem_map] at ht
    obtain ⟨i, hi, rfl⟩ := ht
    exact h i hi
  rw [runDed, runIn, C08_attribution_tasks, runInProc_eq cfg _ this]

/-- the sequence `ok, late, ok` -/
def witnessBeh : Id → Beh := fun i => if i = 1 then .late .equal "r1" else .verdict .equal "ok"

/-- The code before the repair (one result queue shared by all workers): with `r1` answering just after the parent
gave up, the comparison labelled `r2` carries the replay of `r1`. -/
theorem C08_unfixed_counterexample :
    (runDedUnfixed ⟨false, 5, 1000⟩ [0, 1, 2] witnessBeh).map (fun c => (c.recordingId, c.playback)) =
      [(0, some 0), (1, none), (2, some 1)] := by decide

/-- … whereas the repaired protocol attaches `r2`'s own replay (instance of `C08_attribution`). -/
theorem C08_fixed_on_witness :
    (runDed ⟨false, 5, 1000⟩ [0, 1, 2] witnessBeh).map (fun c => (c.recordingId, c.playback)) =
      [(0, some 0), (1, none), (2, some 2)] := by decide

/-! Non-vacuity: the hypotheses above are satisfiable by non-trivial sequences. -/

example : ∀ i ∈ [3, 1, 3], ((fun i => if i = 1 then Beh.playerRaises "x" else Beh.bareStatus .fixed) i).inProcessMeaningful
    = true := by decide

example : (runDed ⟨true, 2, 1500⟩ [7, 8, 9] (fun i => if i = 8 then .hang else .extractorRaises "e")).map (·.status) =
    [.equalizerFailure, .equalizerFailure, .equalizerFailure] := by decide

example : ∃ (beh beh' : Id → Beh) (j : Id), (∀ i, i ≠ j → beh' i = beh i) ∧ beh' j ≠ beh j :=
  ⟨fun _ => .hang, fun i => if i = 0 then .workerExits else .hang, 0, by intro i hi; simp [hi], by simp⟩

end Properties.C08
