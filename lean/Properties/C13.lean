import PlaybackProofs.Equalizer
/-!
# C13 — Comparison runs always finish and leave no worker behind

Property theorems only (model: `PlaybackModel/Equalizer.lean`, lemmas: `PlaybackProofs/Equalizer.lean`).
Termination itself is the totality of `runFrom` (structural recursion over the ids; the wait is a structural
recursion over `Cfg.polls` polls).  The state after the consumer took `k` comparisons is `stateAfter cfg tasks k`
(`k ≥ length`: the run completed); `finish` is the generator's `finally` block, which runs when the run completes,
when the generator is closed early and when it is unwound because the consumer raised.
Assumption of the model (trusted base): `SIGKILL` kills, an idle worker notices the terminate event.
-/
namespace Properties.C13
open PlaybackModel.Equalizer

/-- every input yields its full list of comparisons (the run does not stop at a hang or a death) -/
theorem C13_runs_to_end (cfg : Cfg) (tasks : List Task) : (runDedT cfg tasks).length = tasks.length := by
  have := congrArg List.length (run_label true cfg tasks initState)
  simpa [runDedT, ownQueues, PlaybackModel.Source.workerOwnsQueues] using this

/-- The parent spends between 1 and `⌊timeout⌋ + 1` one-second polls on a recording (`timeoutMs / 1000` is the floor; so at most `timeout + 1 s`)
and exactly one when the worker answers. -/
theorem C13_bounded_wait (cfg : Cfg) (tasks : List Task) :
    ∃ log, (runFrom true cfg initState tasks).1.pollsLog = log ∧ log.length = tasks.length ∧
      ∀ i (hi : i < log.length) (hi' : i < tasks.length),
        1 ≤ log[i] ∧ log[i] ≤ cfg.timeoutMs / 1000 + 1 ∧ (tasks[i].2.faulty = false → log[i] = 1) := by
  obtain ⟨l, h1, h2, h3⟩ := run_polls cfg tasks initState (pinv_init cfg)
  refine ⟨l, by simpa [initState] using h1, h2, ?_⟩
  intro i hi hi'
  obtain ⟨a, b, c⟩ := h3 i hi hi'
  exact ⟨a, b, c⟩

/-- After any history that ends with a hang, a worker death or a late answer the worker is forgotten, and whatever
recording comes next is handed to a brand-new worker process (an epoch never used before) that is alive and idle,
and gets its own verdict. -/
theorem C13_continues (cfg : Cfg) (pre : List Task) (t next : Task) (hf : t.2.faulty = true) :
    let st := (runFrom true cfg initState (pre ++ [t])).1
    st.worker = none ∧
    (prepare true cfg st).2 = st.nextEpoch ∧
    (∀ e ∈ st.servedBy, e < (prepare true cfg st).2) ∧
    idle (prepare true cfg st).1 (prepare true cfg st).2 = true ∧
    (stepDed true cfg st next).2 = verdictAlone cfg next := by
  intro st
  have hpre := pinv_reach cfg pre
  have hst : st = (stepDed true cfg (runFrom true cfg initState pre).1 t).1 := by
    simp [st, runFrom_append, runFrom]
  have hstep := step_fixed cfg (runFrom true cfg initState pre).1 t hpre
  rw [← hst] at hstep
  obtain ⟨hinv, _, _, hnone, _, _⟩ := hstep
  have hw := hnone hf
  have hprep : (prepare true cfg st).2 = st.nextEpoch := by
    simp [prepare, recycle, ensureWorker, hw]
  have hready := prepare_ready cfg st hinv
  refine ⟨hw, hprep, ?_, ?_, (step_fixed cfg st next hinv).2.1⟩
  · intro e he; rw [hprep]; exact hinv.log_lt e he
  · simp [idle, hready.live_eq, hready.busy_nil]

/-- No worker process takes more tasks than the recycle rate (a rate of 0 behaves like 1: every worker serves one). -/
theorem C13_recycle (cfg : Cfg) (tasks : List Task) (e : Nat) :
    get (runFrom true cfg initState tasks).1.served e 0 ≤ max cfg.rate 1 :=
  (pinv_reach cfg tasks).served_le e

/-- Whenever the parent joins a worker (recycling), that worker is alive and idle: it sees the terminate event at its
next poll, so the join cannot block. -/
theorem C13_join_safe (cfg : Cfg) (tasks : List Task) :
    ∀ x ∈ (runFrom true cfg initState tasks).1.joins, x.2 = true :=
  (pinv_reach cfg tasks).joins_idle

/-- While the run is suspended between two recordings at most one worker process exists, and it is idle. -/
theorem C13_one_idle_worker (cfg : Cfg) (tasks : List Task) (k : Nat) :
    (stateAfter cfg tasks k).live.length ≤ 1 ∧ ∀ e ∈ (stateAfter cfg tasks k).live, idle (stateAfter cfg tasks k) e = true := by
  have h := pinv_reach cfg (tasks.take k)
  have hl := h.live_eq
  have hb := h.busy_nil
  unfold stateAfter
  cases hw : (runFrom true cfg initState (List.take k tasks)).1.worker with
  | none => simp [hw] at hl; simp [hl]
  | some e => simp [hw] at hl; simp [hl, idle, hb]

/-- Once the run completes (`k ≥ length`), is closed after `k` comparisons, or is unwound by a consumer exception after
`k` comparisons, no worker process remains. -/
theorem C13_no_worker_left (cfg : Cfg) (tasks : List Task) (k : Nat) :
    (finish (stateAfter cfg tasks k)).live = [] :=
  finish_live_nil cfg _ (pinv_reach cfg (tasks.take k))

/-! Non-vacuity. -/

example : (Beh.hang).faulty = true ∧ (Beh.workerExits).faulty = true ∧ (Beh.late .equal "x").faulty = true := by decide

/-- a run with a death at the first, a hang at the last and two consecutive faults in between really creates and
loses workers: four epochs are used for five recordings at recycle rate 2 -/
example : (runFrom true ⟨false, 2, 1000⟩ initState
    [(0, .workerExits), (1, .hang), (2, .late .equal "m"), (3, .bareStatus .equal), (4, .hang)]).1.servedBy = [0, 1, 2, 3, 3] := by
  decide

/-- results the parent cannot read back are served by a live worker and COUNT towards the recycle rate: at rate 2 the third
replay runs on a fresh worker -/
example : (runFrom true ⟨false, 2, 1000⟩ initState
    [(0, .unreadable .equal "m" "e"), (1, .unreadable .equal "m" "e"), (2, .bareStatus .equal),
     (3, .unreadable .fixed "m" "e")]).1.servedBy = [0, 0, 1, 1] := by
  decide

example : (stateAfter ⟨false, 2, 1000⟩ [(0, .bareStatus .equal), (1, .hang), (2, .bareStatus .equal)] 1).live = [0] := by
  decide

end Properties.C13
