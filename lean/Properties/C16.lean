import PlaybackProofs.S3
/-!
# C16 — S3 time-window lookup is exact

Property theorems only; model `PlaybackModel/S3.lean`, helper lemmas `PlaybackProofs/S3.lean`.
Time is a natural number of seconds, `day t = t / 86400`.  `dayStr` (`strftime('%Y%m%d')`) is a parameter assumed
injective and slash-free; `glob` (fnmatch), the `random.choice` stream `ch` and `random.shuffle` (`shuf`, any permutation)
are parameters too.  `Holds dayStr c b recs`: under the cassette's metadata root the bucket holds exactly one object per
recording of `recs`, each created and saved at its own instant `r.t` (id `cat/dayStr (day t)/uid`, last-modified `t`).
-/
namespace Properties.C16
open PlaybackModel.MetaFilter PlaybackModel.S3

variable (glob : String → String → Bool) (dayStr : Nat → String)

/-- the recording `r` satisfies the lookup's category and metadata filter (as S3 reads metadata) -/
def Matches (cat : String) (f : Meta) (r : TRec) : Prop :=
  r.cat = cat ∧ (f.isEmpty || okTrue (matchMeta glob f (jsonViewFields r.md))) = true

/-- The enumerated day folders cover the window: the day of every instant inside it is enumerated … -/
theorem C16_days_cover (s e t : Nat) (h1 : s ≤ t) (h2 : t ≤ e) : day t ∈ prefixDays s e :=
  day_mem_prefixDays h1 h2

/-- … and nothing but the days from the start's day to the end's day is. -/
theorem C16_days_sound (s e d : Nat) (h : d ∈ prefixDays s e) : day s ≤ d ∧ d ≤ day e := mem_prefixDays h

/-- Exactness with an explicit end, for every alignment of the window to day boundaries: the lookup never raises and
returns the id of a recording iff the recording matches and was saved within `[s, e]` – none outside, none inside
missed – whatever the choice stream, ordered or random. -/
theorem C16_exact (hinj : ∀ d d', dayStr d = dayStr d' → d = d') (hns : ∀ d, noChar '/' (dayStr d))
    (c : Cfg) (b : Bucket) (recs : List TRec) (H : Holds dayStr c b recs) (hcat : ∀ r ∈ recs, noChar '/' r.cat)
    (cat : String) (hq : noChar '/' cat) (s e now : Nat) (f : Meta) (random : Bool) (ch : Nat → Nat)
    (shuf : Bucket → Bucket) (hshuf : ∀ l, (shuf l).Perm l) :
    ∃ l, iterRecordingIds glob dayStr prefixDays c b cat (some s) (some e) now f none random ch shuf = .ok l ∧
      ∀ id, id ∈ l ↔ ∃ r ∈ recs, r.id dayStr = id ∧ Matches glob cat f r ∧ s ≤ r.t ∧ r.t ≤ e := by
  obtain ⟨l, hl, hmem⟩ := window_mem glob dayStr prefixDays hinj hns c b recs H hcat cat hq s (some e) now f random ch
    shuf hshuf
  refine ⟨l, hl, fun id => (hmem id).trans ?_⟩
  constructor
  · rintro ⟨r, hr, hid, hc, _, hw, hf⟩
    simp only [windowPred_def, Bool.and_eq_true, decide_eq_true_eq] at hw
    exact ⟨r, hr, hid, ⟨hc, hf⟩, hw.1, hw.2⟩
  · rintro ⟨r, hr, hid, ⟨hc, hf⟩, h1, h2⟩
    refine ⟨r, hr, hid, hc, day_mem_prefixDays h1 h2, ?_, hf⟩
    simp [windowPred_def, h1, h2]

/-- Exactness with the default end.  The code bounds only the enumeration of day folders by `now`
(`end_date or utcnow()`), not the last-modified predicate; "end defaulting to now" is therefore exact under the premise
that nothing in the bucket is newer than now (true of every real history), which is a hypothesis here. -/
theorem C16_default_end (hinj : ∀ d d', dayStr d = dayStr d' → d = d') (hns : ∀ d, noChar '/' (dayStr d))
    (c : Cfg) (b : Bucket) (recs : List TRec) (H : Holds dayStr c b recs) (hcat : ∀ r ∈ recs, noChar '/' r.cat)
    (cat : String) (hq : noChar '/' cat) (s now : Nat) (hnow : ∀ r ∈ recs, r.t ≤ now) (f : Meta) (random : Bool)
    (ch : Nat → Nat) (shuf : Bucket → Bucket) (hshuf : ∀ l, (shuf l).Perm l) :
    ∃ l, iterRecordingIds glob dayStr prefixDays c b cat (some s) none now f none random ch shuf = .ok l ∧
      ∀ id, id ∈ l ↔ ∃ r ∈ recs, r.id dayStr = id ∧ Matches glob cat f r ∧ s ≤ r.t := by
  obtain ⟨l, hl, hmem⟩ := window_mem glob dayStr prefixDays hinj hns c b recs H hcat cat hq s none now f random ch
    shuf hshuf
  refine ⟨l, hl, fun id => (hmem id).trans ?_⟩
  constructor
  · rintro ⟨r, hr, hid, hc, _, hw, hf⟩
    simp only [windowPred_def, Bool.and_true, decide_eq_true_eq] at hw
    exact ⟨r, hr, hid, ⟨hc, hf⟩, hw⟩
  · rintro ⟨r, hr, hid, ⟨hc, hf⟩, h1⟩
    refine ⟨r, hr, hid, hc, day_mem_prefixDays h1 (hnow r hr), ?_, hf⟩
    simp [windowPred_def, h1]

/-- "None outside" does not even depend on the day enumeration: whatever day folders are listed (`days` arbitrary), every
returned recording lies within the window, because the last-modified predicate is applied inside every folder. -/
theorem C16_none_outside (days : Nat → Nat → List Nat) (hinj : ∀ d d', dayStr d = dayStr d' → d = d')
    (hns : ∀ d, noChar '/' (dayStr d)) (c : Cfg) (b : Bucket) (recs : List TRec) (H : Holds dayStr c b recs)
    (hcat : ∀ r ∈ recs, noChar '/' r.cat) (cat : String) (hq : noChar '/' cat) (s e now : Nat) (f : Meta)
    (random : Bool) (ch : Nat → Nat) (shuf : Bucket → Bucket) (hshuf : ∀ l, (shuf l).Perm l) :
    ∃ l, iterRecordingIds glob dayStr days c b cat (some s) (some e) now f none random ch shuf = .ok l ∧
      ∀ id ∈ l, ∃ r ∈ recs, r.id dayStr = id ∧ Matches glob cat f r ∧ s ≤ r.t ∧ r.t ≤ e := by
  obtain ⟨l, hl, hmem⟩ := window_mem glob dayStr days hinj hns c b recs H hcat cat hq s (some e) now f random ch
    shuf hshuf
  refine ⟨l, hl, fun id hid => ?_⟩
  obtain ⟨r, hr, hid, hc, _, hw, hf⟩ := (hmem id).1 hid
  simp only [windowPred_def, Bool.and_eq_true, decide_eq_true_eq] at hw
  exact ⟨r, hr, hid, ⟨hc, hf⟩, hw.1, hw.2⟩

/-- Before the `fix:` commit (F7) the enumeration counted whole 24 h periods: with the window 23:00 → 01:00 (next day)
the day of 00:30 is inside the window and is not enumerated … -/
theorem C16_unfixed_counterexample :
    let s := 0 * 86400 + 23 * 3600
    let e := 1 * 86400 + 1 * 3600
    let t := 1 * 86400 + 1800
    s ≤ t ∧ t ≤ e ∧ day t ∉ prefixDaysUnfixed s e ∧ day t ∈ prefixDays s e := by decide

/-- … so the recording saved at 00:30 was not returned by the lookup with that enumeration, for any bucket holding it,
any choice stream and any shuffle. -/
theorem C16_unfixed_counterexample_listing (hinj : ∀ d d', dayStr d = dayStr d' → d = d')
    (hns : ∀ d, noChar '/' (dayStr d)) (c : Cfg) (b : Bucket) (recs : List TRec) (H : Holds dayStr c b recs)
    (hcat : ∀ r ∈ recs, noChar '/' r.cat) (cat : String) (hq : noChar '/' cat) (now : Nat) (random : Bool)
    (ch : Nat → Nat) (shuf : Bucket → Bucket) (hshuf : ∀ l, (shuf l).Perm l)
    (hall : ∀ r ∈ recs, r.t = 1 * 86400 + 1800) :
    iterRecordingIds glob dayStr prefixDaysUnfixed c b cat (some (23 * 3600)) (some (1 * 86400 + 3600)) now [] none random
      ch shuf = .ok [] := by
  obtain ⟨l, hl, hmem⟩ := window_mem glob dayStr prefixDaysUnfixed hinj hns c b recs H hcat cat hq (23 * 3600)
    (some (1 * 86400 + 3600)) now [] random ch shuf hshuf
  rw [hl]
  congr 1
  apply List.eq_nil_iff_forall_not_mem.2
  intro id hid
  obtain ⟨r, hr, _, _, hd, _, _⟩ := (hmem id).1 hid
  rw [hall r hr] at hd
  simp only [Option.getD_some] at hd
  revert hd
  decide

/-- The hypothesis `Holds` of the theorems above is exactly what the cassette's own operations establish: after `create`
+ `save` of every recording at its own instant (pairwise distinct ids), starting from any bucket with nothing under the
cassette's metadata root, the bucket holds precisely those recordings. -/
theorem C16_holds_after_saves (c : Cfg) (b0 : Bucket) (h0 : listPrefix b0 (metaRoot c) = []) (recs : List TRec)
    (hnd : (recs.map (TRec.id dayStr)).Nodup) : Holds dayStr c (bucketAfter dayStr c b0 recs) recs.reverse :=
  holds_bucketAfter dayStr c b0 h0 recs hnd

/-! Non-vacuity -/

/-- a concrete injective slash-free day formatter (the decimal day number) -/
def exDayStr (d : Nat) : String := toString d

/-- a bucket holding one recording saved at day 1, 00:30 (through the model's own save) -/
def exRec : TRec := ⟨"Op", "u1", 1 * 86400 + 1800, []⟩
def exCfg : Cfg := mkCfg "p" false false
def exBucket : Bucket :=
  applyMutations [("foreign/x", ⟨"1", [], 0⟩)] (saveSteps exCfg exRec.t ⟨exRec.id exDayStr, "data", exRec.md⟩)

example : Holds exDayStr exCfg exBucket [exRec] := by
  unfold Holds; exact List.Perm.of_eq (by rfl)
example : ∀ r ∈ [exRec], noChar '/' r.cat := by decide
example : Matches (fun _ _ => true) "Op" [] exRec := by
  constructor <;> decide

/-- **The day enumeration of the code as it stands** (`prefixDaysSrc` is built from the atoms `dayCountKind`, `dayCountPlus`
that are regenerated from `_get_id_prefixes` on every run) is the one the theorems above are about: calendar dates, both
ends included. -/
theorem C16_days_as_in_source (s e : Nat) : prefixDaysSrc s e = prefixDays s e := by
  simp [prefixDaysSrc, prefixDays, PlaybackModel.Source.dayCountKind, PlaybackModel.Source.dayCountPlus]

/-! ### instants finer than a second

The model counts whole seconds.  The correspondence check also runs the code on instants that carry sub-second parts
(`harness/props/c16.py`, `instant`): second `t` becomes the microsecond instant `t * 10^6 + μ t` with `μ t < 10^6` a
function of `t`.  That embedding keeps every comparison and every calendar day, so each statement above about seconds
is the statement about those instants. -/

/-- the microsecond instant the harness makes of second `t` -/
def micro (μ : Nat → Nat) (t : Nat) : Nat := t * 1000000 + μ t

/-- Order is kept both ways (`start <= last_modified`, `last_modified <= end`, `day <= end`: every comparison the lookup
makes between two instants has the outcome it has on their seconds). -/
theorem C16_subsecond_order (μ : Nat → Nat) (hμ : ∀ t, μ t < 1000000) (a b : Nat) :
    (micro μ a ≤ micro μ b ↔ a ≤ b) ∧ (micro μ a < micro μ b ↔ a < b) := by
  have ha := hμ a
  have hb := hμ b
  unfold micro
  rcases Nat.lt_trichotomy a b with h | h | h
  · constructor <;> constructor <;> intro <;> omega
  · subst h; constructor <;> constructor <;> intro <;> omega
  · constructor <;> constructor <;> intro <;> omega

/-- … and so is the calendar day (a day has `86400 * 10^6` microseconds): the day folders enumerated for a window of such
instants are those of `prefixDays` on their seconds. -/
theorem C16_subsecond_day (μ : Nat → Nat) (hμ : ∀ t, μ t < 1000000) (t : Nat) :
    micro μ t / (86400 * 1000000) = day t := by
  have := hμ t
  unfold micro day
  omega

/-- the sub-second parts the harness attaches are below one second, and differ from second to second -/
example : (∀ t, (t * 7919 + 13) % 1000000 < 1000000) ∧ (86400 * 7919 + 13) % 1000000 ≠ (43200 * 7919 + 13) % 1000000 := by
  constructor
  · intro t; omega
  · decide

end Properties.C16
