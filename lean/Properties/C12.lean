import PlaybackProofs.Async
import PlaybackProofs.AsyncCaller
/-!
# C12 — Asynchronous recording stores exactly what synchronous recording would

Property theorems only.  Model: `PlaybackModel/Async.lean` (transition system transcribing
`AsyncRecordOnlyTapeCassette`); helper lemmas and invariants: `PlaybackProofs/Async.lean`.

Every theorem quantifies over
* every schedule `sched : List Step` (any interleaving of any number of producers, the flusher's micro-steps, the
  timer and `close`; a step that is not enabled is a no-op),
* every workload `ps : List (List Op)` (one program per producer),
* every wrapped cassette `app : W → Op → W × Bool` (in particular every placement of failing operations),
and is about the code as it is (`Cfg.code`).  The broken variants at the end are refuted by concrete schedules.
-/
namespace Properties.C12
open PlaybackModel.Async PlaybackProofs.Async

variable {W : Type}

/-- No loss, no duplication, order: at every moment, what reached the wrapped cassette, followed by what the flusher
has swapped out and not yet executed, followed by the buffer, is exactly the sequence of appends. -/
theorem C12_inv (app : W → Op → W × Bool) (w0 : W) (ps : List (List Op)) (sched : List Step) :
    let s := run Cfg.code app (init w0 ps) sched
    s.applied.map (·.1) ++ batchRest s.fl ++ s.buf = s.appended :=
  run_AInv app w0 ps sched

/-- Once the flusher has stopped, everything appended before `close()` has reached the wrapped cassette, exactly once
and in request order (as a prefix of what was applied). -/
theorem C12_all_before_close_applied (app : W → Op → W × Bool) (w0 : W) (ps : List (List Op)) (sched : List Step)
    (h : (run Cfg.code app (init w0 ps) sched).fl = .stopped) :
    (run Cfg.code app (init w0 ps) sched).beforeClose <+: (run Cfg.code app (init w0 ps) sched).applied.map (·.1) := by
  have hc := (run_AInv_CloseInv app w0 ps sched).2.2.2
  rw [h] at hc
  exact hc.2

/-- Program order per producer: what producer `i` got applied, then what of its requests is in flight (batch, buffer),
then what it has not requested yet, is its program — under every schedule. -/
theorem C12_program_order (app : W → Op → W × Bool) (w0 : W) (ps : List (List Op))
    (htag : ∀ i, ∀ o ∈ ps.getD i [], o.prod = i) (sched : List Step) (i : Nat) :
    let s := run Cfg.code app (init w0 ps) sched
    (s.applied.map (·.1)).filter (fun o => o.prod == i) ++ (batchRest s.fl ++ s.buf).filter (fun o => o.prod == i)
      ++ s.pending.getD i [] = ps.getD i [] := by
  intro s
  have h1 : s.applied.map (·.1) ++ batchRest s.fl ++ s.buf = s.appended := run_AInv app w0 ps sched
  have h2 : s.appended.filter (fun o => o.prod == i) ++ s.pending.getD i [] = ps.getD i [] :=
    (run_ProgInv app w0 ps htag sched).2 i
  rw [← h2, ← h1]
  simp [List.filter_append, List.append_assoc]

/-- … and once the flusher has stopped, a producer whose whole program was requested before `close()` has had exactly
its program applied, in its order. -/
theorem C12_program_order_complete (app : W → Op → W × Bool) (w0 : W) (ps : List (List Op))
    (htag : ∀ i, ∀ o ∈ ps.getD i [], o.prod = i) (sched : List Step) (i : Nat)
    (hstop : (run Cfg.code app (init w0 ps) sched).fl = .stopped)
    (hall : (run Cfg.code app (init w0 ps) sched).beforeClose.filter (fun o => o.prod == i) = ps.getD i []) :
    ((run Cfg.code app (init w0 ps) sched).applied.map (·.1)).filter (fun o => o.prod == i) = ps.getD i [] := by
  have hpre := filter_prefix (fun o => o.prod == i) (C12_all_before_close_applied app w0 ps sched hstop)
  have hord := C12_program_order app w0 ps htag sched i
  simp only at hord
  rw [hall] at hpre
  refine (prefix_antisymm_eq hpre ?_).symm
  rw [← hord, List.append_assoc]
  exact List.prefix_append _ _

/-- The wrapped cassette is always in the state, and has reported the outcomes, of applying the operations that
reached it one after the other — and these are a prefix of the lock-acquisition order (`C12_inv`). -/
theorem C12_equals_sequential (app : W → Op → W × Bool) (w0 : W) (ps : List (List Op)) (sched : List Step) :
    let s := run Cfg.code app (init w0 ps) sched
    syncRun app w0 (s.applied.map (·.1)) = (s.store, s.applied) ∧ s.applied.map (·.1) <+: s.appended := by
  intro s
  refine ⟨run_TraceInv app w0 ps sched, ?_⟩
  have h1 : ops s.applied ++ batchRest s.fl ++ s.buf = s.appended := run_AInv app w0 ps sched
  rw [← h1, List.append_assoc]
  exact List.prefix_append _ _

/-- Single producer: once the flusher has stopped and every request was made before `close()`, the wrapped cassette
holds exactly what synchronous recording of the same requests stores, and every call had the same outcome. -/
theorem C12_equals_sync (app : W → Op → W × Bool) (w0 : W) (rq : List Op) (sched : List Step)
    (hstop : (run Cfg.code app (init w0 [rq]) sched).fl = .stopped)
    (hall : (run Cfg.code app (init w0 [rq]) sched).beforeClose = rq) :
    ((run Cfg.code app (init w0 [rq]) sched).store, (run Cfg.code app (init w0 [rq]) sched).applied)
      = syncRun app w0 rq := by
  have hpre := C12_all_before_close_applied app w0 [rq] sched hstop
  have hsing := run_SingleInv app w0 rq sched
  have hseq := C12_equals_sequential app w0 [rq] sched
  simp only at hseq
  obtain ⟨rest, -, hrest⟩ := hsing
  have hops : (run Cfg.code app (init w0 [rq]) sched).applied.map (·.1) = rq := by
    rw [hall] at hpre
    refine (prefix_antisymm_eq hpre ?_).symm
    exact hseq.2.trans ⟨rest, hrest⟩
  rw [← hseq.1, hops]

/-! ### The caller's side: closed recordings, `save_recording`, `abort_recording`

`Req` / `forward` / `direct` (`PlaybackModel/AsyncCaller.lean`): what one caller asks of `AsyncRecording` objects, what the
wrapper buffers for it, and the same requests made directly on the wrapped cassette.  `abort_recording` is never forwarded
(it only closes the caller-side recording); a write to a recording that was saved or aborted is refused on the caller's side
and never buffered; `save_recording` after an abort is buffered like any other save. -/

open PlaybackModel.AsyncCaller in
/-- Requests of one caller, any mix of writes, saves and aborts on any recordings, in any order (writes after a save, a save
after one or two aborts, ...): applying what the wrapper buffers for them, in order, leaves in the wrapped cassette - for
every recording - the data, the metadata and the saved snapshot that making the same requests directly on the wrapped
cassette leaves; the caller sees the same outcome (accepted / `AssertionError`) for every request either way; and no buffered
operation fails on the wrapped side. -/
theorem C12_caller_side (prod : Nat) (reqs : List Req) :
    (∀ n, view (syncRun applyOp Store.empty (forward prod 0 (fun _ => false) reqs).1).1 n
        = view (direct Store.empty reqs).1 n) ∧
    (forward prod 0 (fun _ => false) reqs).2 = (direct Store.empty reqs).2 ∧
    (∀ x ∈ (syncRun applyOp Store.empty (forward prod 0 (fun _ => false) reqs).1).2, x.2 = true) :=
  PlaybackProofs.AsyncCaller.forward_direct prod reqs 0 _ _ _ PlaybackProofs.AsyncCaller.inv_init

open PlaybackModel.AsyncCaller in
/-- End to end, one caller, under every schedule of the caller, the flusher, the timer and `close()`: once the flusher has
stopped and everything the wrapper buffered for the caller's requests was buffered before `close()`, the wrapped in-memory
cassette holds for every recording what recording directly would have stored - aborts and writes to finalised recordings
included. -/
theorem C12_equals_direct_with_aborts (reqs : List Req) (sched : List Step)
    (hstop : (run Cfg.code applyOp (init Store.empty [(forward 0 0 (fun _ => false) reqs).1]) sched).fl = .stopped)
    (hall : (run Cfg.code applyOp (init Store.empty [(forward 0 0 (fun _ => false) reqs).1]) sched).beforeClose
      = (forward 0 0 (fun _ => false) reqs).1) (n : Nat) :
    view (run Cfg.code applyOp (init Store.empty [(forward 0 0 (fun _ => false) reqs).1]) sched).store n
      = view (direct Store.empty reqs).1 n := by
  have h := C12_equals_sync applyOp Store.empty (forward 0 0 (fun _ => false) reqs).1 sched hstop hall
  have hs : (run Cfg.code applyOp (init Store.empty [(forward 0 0 (fun _ => false) reqs).1]) sched).store
      = (syncRun applyOp Store.empty (forward 0 0 (fun _ => false) reqs).1).1 := by
    rw [← h]
  rw [hs]
  exact (C12_caller_side 0 reqs).1 n

open PlaybackModel.AsyncCaller in
/-- write, abort, write (refused), save, write (refused): the save stores what was written before the abort -/
example :
    (forward 0 0 (fun _ => false) [⟨0, .setData 1 7⟩, ⟨0, .abort⟩, ⟨0, .setData 2 8⟩, ⟨0, .save⟩, ⟨0, .addMeta 1 9⟩]).2
      = [true, true, false, true, false] ∧
    ((direct Store.empty [⟨0, .setData 1 7⟩, ⟨0, .abort⟩, ⟨0, .setData 2 8⟩, ⟨0, .save⟩, ⟨0, .addMeta 1 9⟩]).1 0).saved
      = some ([(1, 7)], []) := by decide

/-- Several producers, each writing to its own recordings (`owner`), against the in-memory cassette: once the flusher has
stopped and every program was requested before `close()`, the store equals that of the synchronous twin in which the
producers run one after the other (writes to different recordings commute). -/
theorem C12_equals_sync_producers (ps : List (List Op)) (htag : ∀ i, ∀ o ∈ ps.getD i [], o.prod = i)
    (owner : Nat → Nat) (hown : ∀ i, ∀ o ∈ ps.getD i [], owner o.recId = i) (sched : List Step)
    (hstop : (run Cfg.code applyOp (init Store.empty ps) sched).fl = .stopped)
    (hall : ∀ i, (run Cfg.code applyOp (init Store.empty ps) sched).beforeClose.filter (fun o => o.prod == i)
              = ps.getD i []) :
    (run Cfg.code applyOp (init Store.empty ps) sched).store = (syncRun applyOp Store.empty ps.flatten).1 := by
  have hseq := (C12_equals_sequential applyOp Store.empty ps sched).1
  have hst : (run Cfg.code applyOp (init Store.empty ps) sched).store
      = (syncRun applyOp Store.empty (ops (run Cfg.code applyOp (init Store.empty ps) sched).applied)).1 := by
    rw [hseq]
  rw [hst]
  funext n
  rw [syncRun_store_at, syncRun_store_at]
  congr 1
  have hA : ∀ i, ofProd i (ops (run Cfg.code applyOp (init Store.empty ps) sched).applied) = reqs ps i :=
    fun i => C12_program_order_complete applyOp Store.empty ps htag sched i hstop (hall i)
  have hB : ∀ i, ofProd i ps.flatten = reqs ps i := fun i => ofProd_flatten ps htag i
  rw [filter_rec_of_owner ps owner hown _ hA n, filter_rec_of_owner ps owner hown _ hB n]

/-- "Once it is closed": after `close()` has set the stop event, the flusher's own steps alone (no step of a producer
is needed, whatever the wrapped calls do) bring it to `stopped` — where `C12_all_before_close_applied` and
`C12_failure_does_not_block` apply.  `finishSteps` is the explicit continuation (at most two flush rounds). -/
theorem C12_close_completes (app : W → Op → W × Bool) (w0 : W) (ps : List (List Op)) (sched : List Step)
    (hclosed : (run Cfg.code app (init w0 ps) sched).stop = true) :
    ∃ more : List Step, more.all flusherStep = true ∧
      (run Cfg.code app (init w0 ps) (sched ++ more)).fl = .stopped := by
  refine ⟨finishSteps (run Cfg.code app (init w0 ps) sched), finishSteps_all _, ?_⟩
  rw [run_append]
  exact finish_stops app _ (run_LockInv app w0 ps sched) (run_FlInv app w0 ps sched) hclosed

/-- **After the flusher has stopped nothing reaches the wrapped cassette any more**: whatever callers still request (the
rest of an operation that was running when the service closed the wrapper, a save included) stays in the buffer - the stored
recordings are final.  So a recording cut in two by `close()` can only surface as what was requested before the close; the
C05 tie (`asyncclose` family) checks on the real recorder that this is never a saved, unflagged recording. -/
theorem C12_stopped_is_final (app : W → Op → W × Bool) (s : St W) (hs : s.fl = .stopped) (more : List Step) :
    (run Cfg.code app s more).fl = .stopped ∧ (run Cfg.code app s more).applied = s.applied ∧
    (run Cfg.code app s more).store = s.store := by
  induction more generalizing s with
  | nil => exact ⟨hs, rfl, rfl⟩
  | cons st rest ih =>
    have h1 : (step Cfg.code app s st).fl = .stopped ∧ (step Cfg.code app s st).applied = s.applied ∧
        (step Cfg.code app s st).store = s.store := by
      cases st with
      | produce i =>
        simp only [step]
        split
        · exact ⟨hs, rfl, rfl⟩
        · split
          · exact ⟨hs, rfl, rfl⟩
          · exact ⟨hs, rfl, rfl⟩
      | close =>
        simp only [step]
        split
        · exact ⟨hs, rfl, rfl⟩
        · exact ⟨hs, rfl, rfl⟩
      | check => simp only [step, hs]; exact ⟨trivial, trivial, trivial⟩
      | lock => simp only [step, hs]; exact ⟨trivial, trivial, trivial⟩
      | swap => simp only [step, hs]; exact ⟨trivial, trivial, trivial⟩
      | exec => simp only [step, hs]; exact ⟨trivial, trivial, trivial⟩
      | timer => simp only [step, hs]; exact ⟨trivial, trivial, trivial⟩
    have := ih (step Cfg.code app s st) h1.1
    simp only [run, List.foldl_cons] at this ⊢
    exact ⟨this.1, this.2.1.trans h1.2.1, this.2.2.trans h1.2.2⟩

/-- A write that fails does not prevent later ones: whatever the wrapped cassette does (`app` is arbitrary, so any
operations may raise), once the flusher has stopped the calls it received start with exactly the requests made before
`close()`, each with its true outcome — a failing one is recorded with `false` and the following ones are still made. -/
theorem C12_failure_does_not_block (app : W → Op → W × Bool) (w0 : W) (ps : List (List Op)) (sched : List Step)
    (hstop : (run Cfg.code app (init w0 ps) sched).fl = .stopped) :
    (run Cfg.code app (init w0 ps) sched).applied.take (run Cfg.code app (init w0 ps) sched).beforeClose.length
      = (syncRun app w0 (run Cfg.code app (init w0 ps) sched).beforeClose).2 := by
  obtain ⟨t, ht⟩ := C12_all_before_close_applied app w0 ps sched hstop
  have htr : syncRun app w0 ((run Cfg.code app (init w0 ps) sched).applied.map (·.1))
      = ((run Cfg.code app (init w0 ps) sched).store, (run Cfg.code app (init w0 ps) sched).applied) :=
    run_TraceInv app w0 ps sched
  rw [← ht] at htr
  have h2 := congrArg Prod.snd htr
  simp only [syncRun_append_trace] at h2
  rw [← h2]
  have hlen : ((syncRun app w0 (run Cfg.code app (init w0 ps) sched).beforeClose).2).length
      = (run Cfg.code app (init w0 ps) sched).beforeClose.length := by
    have := congrArg List.length (ops_syncRun app w0 (run Cfg.code app (init w0 ps) sched).beforeClose)
    simpa using this
  rw [← hlen, List.take_left]

/-- Callers never wait for the wrapped storage: the lock is held only between the flusher's `lock` and `swap` steps.
So in every reachable state a producer with something to request can append at once unless the flusher is exactly
there — in particular always while the flusher is executing a batch — and then one flusher step that makes no wrapped
call (`swap`) lets it. -/
theorem C12_producer_never_blocked (app : W → Op → W × Bool) (w0 : W) (ps : List (List Op)) (sched : List Step)
    (i : Nat) (hreq : (popAt (run Cfg.code app (init w0 ps) sched).pending i).isSome) :
    let s := run Cfg.code app (init w0 ps) sched
    ((∀ f, s.fl ≠ .locked f) → canProduce s i = true) ∧
    (∀ f r, s.fl = .batch f r → canProduce s i = true) ∧
    (∀ f, s.fl = .locked f →
        canProduce (step Cfg.code app s .swap) i = true ∧ (step Cfg.code app s .swap).applied = s.applied) := by
  intro s
  have hl : s.lock = flLocked s.fl := run_LockInv app w0 ps sched
  have hreq' : (popAt s.pending i).isSome = true := hreq
  refine ⟨?_, ?_, ?_⟩
  · intro hne
    have : flLocked s.fl = false := by
      cases hfl : s.fl <;> simp [flLocked]
      exact hne _ hfl
    simp [canProduce, hl, this, hreq']
  · intro f r hfl
    simp [canProduce, hl, hfl, flLocked, hreq']
  · intro f hfl
    have hpend : (step Cfg.code app s .swap).pending = s.pending := by simp [step, hfl, St.doSwap]
    have hlock : (step Cfg.code app s .swap).lock = false := by
      simp only [step, hfl, St.doSwap, Cfg.code]
      split <;> simp
    refine ⟨by simp [canProduce, hpend, hlock, hreq'], by simp [step, hfl, St.doSwap]⟩

/-! ## Non-vacuity: the hypotheses are satisfiable by concrete, non-trivial runs -/

/-- two producers; `a1` is poisoned (its wrapped call raises) -/
def a0 : Op := { prod := 0, seq := 0, recId := 0, kind := .setData 1 10, poison := false }
def a1 : Op := { prod := 0, seq := 1, recId := 0, kind := .addMeta 2 20, poison := true }
def a2 : Op := { prod := 0, seq := 2, recId := 0, kind := .save, poison := false }
def b0 : Op := { prod := 1, seq := 0, recId := 1, kind := .setData 1 11, poison := false }
def b1 : Op := { prod := 1, seq := 1, recId := 1, kind := .save, poison := false }

/-- producer 1 appends, the flusher swaps that out, producer 0 and 1 interleave while the batch runs, close, the
flusher finishes the regular round, sees the stop event and does the final flush -/
def demoSched : List Step :=
  [.produce 1, .check, .lock, .swap, .produce 0, .exec, .produce 0, .produce 1, .produce 0, .close, .timer, .check,
   .lock, .produce 0, .swap, .exec, .exec, .exec, .exec]

def demo : St Store := run Cfg.code applyOp (init Store.empty [[a0, a1, a2], [b0, b1]]) demoSched

example : demo.fl = .stopped := by decide
example : demo.beforeClose = [b0, a0, a1, b1, a2] := by decide
example : demo.applied = [(b0, true), (a0, true), (a1, false), (b1, true), (a2, true)] := by decide
example : ∀ i, ∀ o ∈ [[a0, a1, a2], [b0, b1]].getD i [], o.prod = i := by
  intro i o h
  match i with
  | 0 => simp at h; rcases h with rfl | rfl | rfl <;> rfl
  | 1 => simp at h; rcases h with rfl | rfl <;> rfl
  | n + 2 => simp at h
example : ∀ i, demo.beforeClose.filter (fun o => o.prod == i) = [[a0, a1, a2], [b0, b1]].getD i [] := by
  intro i
  match i with
  | 0 => decide
  | 1 => decide
  | n + 2 =>
    have : demo.beforeClose = [b0, a0, a1, b1, a2] := by decide
    rw [this]; simp [a0, a1, a2, b0, b1]
/-- the store of `C12_equals_sync_producers` is not trivial: both recordings were saved, `a1`'s metadata is missing
on both sides because its call raised -/
example : (demo.store 0).saved = some ([(1, 10)], []) ∧ (demo.store 1).saved = some ([(1, 11)], []) := by decide
/-- single producer (`C12_equals_sync`): flusher stopped and every request made before close -/
example : (run Cfg.code applyOp (init Store.empty [[a0, a1, a2]])
      [.produce 0, .check, .produce 0, .lock, .swap, .produce 0, .close, .exec, .exec, .timer, .check, .lock, .swap,
       .exec]).fl = .stopped ∧
    (run Cfg.code applyOp (init Store.empty [[a0, a1, a2]])
      [.produce 0, .check, .produce 0, .lock, .swap, .produce 0, .close, .exec, .exec, .timer, .check, .lock, .swap,
       .exec]).beforeClose = [a0, a1, a2] := by decide
/-- `C12_producer_never_blocked`: a reachable state in which the flusher is in the middle of a batch and a producer
still has requests -/
example : (run Cfg.code applyOp (init Store.empty [[a0, a1, a2]]) [.produce 0, .produce 0, .check, .lock, .swap, .exec]).fl
      = .batch false [a1] ∧
    (popAt (run Cfg.code applyOp (init Store.empty [[a0, a1, a2]])
      [.produce 0, .produce 0, .check, .lock, .swap, .exec]).pending 0).isSome := by decide
/-- … and one in which the flusher holds the lock -/
example : (run Cfg.code applyOp (init Store.empty [[a0, a1, a2]]) [.produce 0, .check, .lock]).fl = .locked false ∧
    canProduce (run Cfg.code applyOp (init Store.empty [[a0, a1, a2]]) [.produce 0, .check, .lock]) 0 = false := by
  decide

/-- `C12_close_completes`: a reachable closed state in the middle of a regular batch, with more in the buffer -/
example : (run Cfg.code applyOp (init Store.empty [[a0, a1, a2]])
      [.produce 0, .produce 0, .check, .lock, .swap, .exec, .produce 0, .close]).stop = true ∧
    (run Cfg.code applyOp (init Store.empty [[a0, a1, a2]])
      [.produce 0, .produce 0, .check, .lock, .swap, .exec, .produce 0, .close]).fl = .batch false [a1] ∧
    (run Cfg.code applyOp (init Store.empty [[a0, a1, a2]])
      [.produce 0, .produce 0, .check, .lock, .swap, .exec, .produce 0, .close]).buf = [a2] := by decide

/-! ## Broken variants are refuted by concrete schedules -/

/-- Without the flush after the loop an operation appended before `close()` never reaches the wrapped cassette. -/
theorem C12_no_final_flush_counterexample :
    let s := run { finalFlush := false } applyOp (init Store.empty [[a0]]) [.produce 0, .close, .check]
    s.fl = .stopped ∧ s.beforeClose = [a0] ∧ s.applied = [] ∧ ¬ (s.beforeClose <+: s.applied.map (·.1)) := by
  decide

/-- With `break` instead of continuing after a failing operation the operations behind it are lost. -/
theorem C12_break_on_failure_counterexample :
    let s := run { continueAfterFailure := false } applyOp (init Store.empty [[a0, a1, a2]])
      [.produce 0, .produce 0, .produce 0, .close, .check, .lock, .swap, .exec, .exec, .exec]
    s.fl = .stopped ∧ s.beforeClose = [a0, a1, a2] ∧ s.applied = [(a0, true), (a1, false)] ∧
      ¬ (s.beforeClose <+: s.applied.map (·.1)) := by
  decide

/-- Holding the lock while the batch is executed makes a producer wait for the wrapped storage. -/
theorem C12_lock_across_exec_counterexample :
    let s := run { releaseBeforeExec := false } applyOp (init Store.empty [[a0, a1, a2]])
      [.produce 0, .check, .lock, .swap]
    s.fl = .batch false [a0] ∧ (popAt s.pending 0).isSome = true ∧ canProduce s 0 = false ∧
      (step { releaseBeforeExec := false } applyOp s (.produce 0)).appended = s.appended := by
  decide

end Properties.C12
