import PlaybackProofs.Studio
/-!
# C19 — The studio plays each recording once under its own category's tuning

Property theorems only (model: `PlaybackModel/Studio.lean` on top of `PlaybackModel/Equalizer.lean`; lemmas:
`PlaybackProofs/Studio.lean`).  `play s` is `PlaybackStudio.play()` with every generator consumed; the per-category
comparisons are C08's runs, so `verdictAlone` is "replayed, extracted and compared with this tuning, alone".
`ModeIndependent s` : the run is in dedicated processes, or no tuning makes a player hang / exit the process (which
in-process would stop the whole program - nothing to attribute any more).
-/
namespace Properties.C19
open PlaybackModel.Equalizer PlaybackModel.Studio

/-- explicit recording ids were given -/
def Explicit (s : Studio) : Prop := s.recordingIds ≠ []

def ModeIndependent (s : Studio) : Prop :=
  s.dedicated = true ∨ ∀ k tun, s.tuner k = .ok tun → ∀ i, (tun i).inProcessMeaningful = true

theorem groups_explicit (s : Studio) (h : Explicit s) :
    groups s = (sortedCats (s.recordingIds.map s.catOf)).map
      (fun k => (k, some (s.recordingIds.filter (fun i => s.catOf i == k)))) := by
  unfold groups
  cases hr : s.recordingIds with
  | nil => exact absurd hr h
  | cons i is => rfl

/-- Deterministic order, explicit ids: the reported categories are exactly the categories of the given ids, each once,
in increasing order (`sorted`) - whatever the order of the ids. -/
theorem C19_grouping (s : Studio) (h : Explicit s) :
    ((play s).map (·.1)).Pairwise (· < ·) ∧ ∀ k, k ∈ (play s).map (·.1) ↔ ∃ i ∈ s.recordingIds, s.catOf i = k := by
  have hc : (play s).map (·.1) = sortedCats (s.recordingIds.map s.catOf) := by
    simp [play, groups_explicit s h, Function.comp_def]
  rw [hc]
  refine ⟨sortedCats_sorted _, ?_⟩
  intro k
  simp [mem_sortedCats]

/-- Deterministic order, lookup-driven: the reported categories are the requested ones, each once, in the order of
their first occurrence. -/
theorem C19_lookup_order (s : Studio) (h : s.recordingIds = []) :
    (play s).map (·.1) = dedupFirst s.categories ∧ ((play s).map (·.1)).Nodup ∧
      ∀ k, k ∈ (play s).map (·.1) ↔ k ∈ s.categories := by
  have hc : (play s).map (·.1) = dedupFirst s.categories := by
    simp [play, groups, h, Function.comp_def]
  rw [hc]
  exact ⟨rfl, dedupFirst_nodup _, fun k => mem_dedupFirst k _⟩

/-- Explicit ids are played as given, whatever the lookup properties say (their limit, `skip_incomplete`, the stored
recordings they would select): the run with explicit ids is the same run under any other lookup properties and over any
other cassette content. -/
theorem C19_explicit_ignores_lookup (s : Studio) (h : Explicit s) (p : Props) (stored : List Rec) :
    play { s with props := p, stored := stored } = play s := by
  have h' : Explicit { s with props := p, stored := stored } := h
  unfold play
  rw [groups_explicit s h, groups_explicit _ h']
  simp only [List.map_map]
  apply List.map_congr_left
  intro k hk
  obtain ⟨i, hi, hik⟩ := List.mem_map.mp ((mem_sortedCats k _).mp hk)
  have hmem : i ∈ s.recordingIds.filter (fun i => s.catOf i == k) := List.mem_filter.mpr ⟨hi, by simp [hik]⟩
  simp only [Function.comp, playCategory, runEq]
  cases hf : s.recordingIds.filter (fun i => s.catOf i == k) with
  | nil => rw [hf] at hmem; exact absurd hmem (by simp)
  | cons a as => simp [idsFor]

/-- the recording ids played for the group `g` of category `k` -/
def playedIds (s : Studio) (g : Cat × Option (List Id)) : List Id := idsFor s g.1 g.2

/-- Exactly once: over all categories together the given recordings are played once each - the played ids are a
permutation of the given ids (duplicates in the input are played as often as they were given). -/
theorem C19_once (s : Studio) (h : Explicit s) :
    ((groups s).flatMap (playedIds s)).Perm s.recordingIds := by
  rw [groups_explicit s h, List.flatMap_map]
  have hfun : ∀ k ∈ sortedCats (s.recordingIds.map s.catOf),
      playedIds s (k, some (s.recordingIds.filter (fun i => s.catOf i == k))) =
        s.recordingIds.filter (fun i => s.catOf i == k) := by
    intro k hk
    obtain ⟨i, hi, hik⟩ := List.mem_map.mp ((mem_sortedCats k _).mp hk)
    have hmem : i ∈ s.recordingIds.filter (fun i => s.catOf i == k) := List.mem_filter.mpr ⟨hi, by simp [hik]⟩
    simp only [playedIds, idsFor]
    cases hf : s.recordingIds.filter (fun i => s.catOf i == k) with
    | nil => rw [hf] at hmem; exact absurd hmem (by simp)
    | cons a as => rfl
  rw [flatMap_congr_mem _ _ _ hfun]
  exact partition_perm s.catOf _ s.recordingIds (sortedCats_nodup _)
    (fun i hi => (mem_sortedCats _ _).mpr (List.mem_map.mpr ⟨i, hi, rfl⟩))

/-- … and each recording is played in the group of its own category only. -/
theorem C19_own_category (s : Studio) (h : Explicit s) (g : Cat × Option (List Id)) (hg : g ∈ groups s) :
    ∀ i ∈ playedIds s g, s.catOf i = g.1 ∧ i ∈ s.recordingIds := by
  rw [groups_explicit s h] at hg
  obtain ⟨k, hk, rfl⟩ := List.mem_map.mp hg
  intro i hi
  obtain ⟨i0, hi0, hik⟩ := List.mem_map.mp ((mem_sortedCats k _).mp hk)
  have hmem : i0 ∈ s.recordingIds.filter (fun i => s.catOf i == k) := List.mem_filter.mpr ⟨hi0, by simp [hik]⟩
  simp only [playedIds, idsFor] at hi
  cases hf : s.recordingIds.filter (fun i => s.catOf i == k) with
  | nil => rw [hf] at hmem; exact absurd hmem (by simp)
  | cons a as =>
    rw [hf] at hi
    have : i ∈ s.recordingIds.filter (fun i => s.catOf i == k) := by rw [hf]; exact hi
    have := List.mem_filter.mp this
    exact ⟨by simpa using this.2, this.1⟩

/-- Own tuning: the result reported for category `k` is, recording by recording and in the order the recordings were
selected for `k`, the comparison made with `k`'s tuning of that recording alone (own verdict, own replay). -/
theorem C19_own_tuning (s : Studio) (hm : ModeIndependent s) (g : Cat × Option (List Id)) (hg : g ∈ groups s)
    (tun : Id → Beh) (ht : s.tuner g.1 = .ok tun) :
    (g.1, Except.ok ((playedIds s g).map (fun i => verdictAlone s.cfg (i, tun i)))) ∈ play s := by
  refine List.mem_map.mpr ⟨g, hg, ?_⟩
  simp only [playCategory, ht, playedIds]
  congr 2
  rw [runEq_eq s _ ?_]
  · simp [tasksOf, Function.comp_def]
  · rcases hm with hd | hm
    · exact Or.inl hd
    · refine Or.inr ?_
      intro t htm
      simp only [tasksOf, List.mem_map] at htm
      obtain ⟨i, _, rfl⟩ := htm
      exact hm g.1 tun ht i

/-- A category whose tuning cannot be created reports that error … -/
theorem C19_tuner_failure (s : Studio) (g : Cat × Option (List Id)) (hg : g ∈ groups s) (e : String)
    (he : s.tuner g.1 = .error e) : (g.1, Except.error e) ∈ play s := by
  refine List.mem_map.mpr ⟨g, hg, ?_⟩
  simp [playCategory, he]

/-- … for that category alone: making the tuner fail for `k0` changes `k0`'s entry and nothing else (same categories,
same order, same comparisons everywhere else). -/
theorem C19_tuner_failure_isolated (s : Studio) (k0 : Cat) (e : String) :
    let s' : Studio := { s with tuner := fun k => if k = k0 then .error e else s.tuner k }
    play s' = (play s).map (fun p => if p.1 = k0 then (k0, .error e) else p) := by
  intro s'
  have hg : groups s' = groups s := rfl
  simp only [play, hg, List.map_map]
  apply List.map_congr_left
  intro g _
  by_cases hk : g.1 = k0
  · simp [playCategory, s', hk]
  · have hi : idsFor s' g.1 g.2 = idsFor s g.1 g.2 := by
      cases hg2 : g.2 with
      | none => rfl
      | some l => cases l <;> rfl
    simp only [playCategory, s', hk, if_false, Function.comp_def]
    cases s.tuner g.1 with
    | error e' => rfl
    | ok tun => simp only [runEq]; rw [← hi]

/-- Lookup-driven runs draw each category's recordings from that category only: what is played for `k` is the
cassette's lookup for `k`, every one of them a stored recording of category `k` (complete, when incomplete ones are
skipped), and without a limit every such recording is played. -/
theorem C19_lookup_scoped (s : Studio) (h : s.recordingIds = []) (g : Cat × Option (List Id)) (hg : g ∈ groups s) :
    playedIds s g = lookup s.stored s.props g.1 ∧
    (∀ i ∈ playedIds s g, ∃ r ∈ s.stored, r.id = i ∧ r.cat = g.1 ∧ r.selected = true ∧
      (s.props.skipIncomplete = true → r.incomplete ≠ some true)) ∧
    (s.props.limit = none → ∀ r ∈ s.stored, keeps s.props g.1 r = true → r.id ∈ playedIds s g) := by
  have hnone : g.2 = none := by
    simp only [groups, h, List.mem_map] at hg
    obtain ⟨k, _, rfl⟩ := hg
    rfl
  have hp : playedIds s g = lookup s.stored s.props g.1 := by simp [playedIds, idsFor, hnone]
  refine ⟨hp, ?_, ?_⟩
  · rw [hp]; exact lookup_sound _ _ _
  · intro hl r hr hk; rw [hp]; exact lookup_complete _ _ _ hl r hr hk

/-- Interleaving: however the consumer interleaves its `next` calls over the categories' generators, every category
has yielded exactly the first `count` comparisons of its own sequential run, and the shared tape recorder is clean
again after every call. -/
theorem C19_interleaving (cfg : Cfg) (todo : Cat → List Task) (order : List Cat) (st : IState)
    (h : consume cfg (startState todo) order = some st) :
    st.sh.clean = true ∧ ∀ k, st.out k = (runInProc cfg (todo k)).take (order.count k) := by
  have := consume_spec cfg order (startState todo) st h rfl
  exact ⟨this.1, fun k => by simpa [startState] using this.2 k⟩

/-- … and every such consumption runs through when the tunings' behaviours return in-process. -/
theorem C19_interleaving_total (cfg : Cfg) (todo : Cat → List Task) (order : List Cat)
    (hm : ∀ k, ∀ t ∈ todo k, t.2.inProcessMeaningful = true) :
    ∃ st, consume cfg (startState todo) order = some st :=
  consume_total cfg order (startState todo) hm

/-! Non-vacuity -/

def demo : Studio :=
  { catOf := fun i => i % 3, stored := [⟨0, 0, none, true⟩, ⟨4, 1, some true, true⟩, ⟨7, 1, some false, true⟩],
    tuner := fun k => if k = 2 then .error "no tuning" else .ok (fun i => .verdict .equal s!"{k}:{i}"),
    cfg := ⟨false, 2, 1000⟩, dedicated := false, props := ⟨true, none⟩, categories := [1, 0, 1],
    recordingIds := [5, 4, 0, 7, 3] }

example : Explicit demo := by simp [Explicit, demo]
example : ModeIndependent demo := by
  refine Or.inr ?_
  intro k tun h i
  simp only [demo] at h
  split at h
  · cases h
  · cases h; rfl
example : (play demo).map (·.1) = [0, 1, 2] := by decide
/-- a lookup limit of 0 and an empty cassette change nothing about a run with explicit ids -/
example : play { demo with props := ⟨false, some 0⟩, stored := [] } = play demo :=
  C19_explicit_ignores_lookup demo (by simp [Explicit, demo]) _ _
example : (groups demo).map (playedIds demo) = [[0, 3], [4, 7], [5]] := by decide
example : (groups { demo with recordingIds := [] }).map (playedIds { demo with recordingIds := [] }) = [[7], [0]] := by decide

end Properties.C19
