import PlaybackProofs.RecorderFinish
/-!
# C18 — Recording metadata tells the truth about the run

The clock is a stream of readings (`time()` is a parameter): `clockAt s.clock 0` is read when the scope opens,
`clockAt s.clock 1` when it closes, so "consistent with wall time" is `duration = end - start` (partial: the real clock
is the runtime's).  `p.AliasesWF ao`: no output alias of the program contains the reserved operation alias (known finding
K5 otherwise) and main input keys are input-shaped (always true of the real key builder).  "Ordinary exception" excludes the
framework's own `TapeRecorderException` subclasses raised by user code (they are re-raised without an operation output).
-/
namespace Properties.C18
open PlaybackModel.Recorder

/-- What is saved: the recording that was filled, with the class, the exception flag of THIS run, the measured duration,
the incomplete flag and the extractor's result. -/
theorem C18_saved_metadata (ao : AliasOracle) (cfg : OpCfg) (s : St) (p : Prog) (a : Active)
    (hidle : s.Idle) (hen : s.enabled = true) (hsk : cfg.params.skipped = false)
    (hact : (atFinally cfg s p).active = some a)
    (hkeep : keepDecision (atFinally cfg s p).forced cfg.params (headDraw s) = true) (hsv : cfg.saveFailsOn a.data = false) :
    ∃ rec, (runOperation ao cfg s p).1.store = rec :: s.store ∧ rec.id = s.nextId ∧ rec.data = a.data ∧
      rec.md.cls = cfg.cls ∧
      rec.md.excFlag = excFlagOf (runOperation ao cfg s p).2 ∧
      rec.md.duration = (clockAt s.clock 1 : Int) - (clockAt s.clock 0 : Int) ∧
      rec.md.incomplete = !(hasOpOutput ao.containsOp a.data) ∧
      rec.md.user = (match cfg.extractor with | some (.ok fields) => fields | _ => []) := by
  refine ⟨_, runOperation_saved ao cfg s p a hidle hen hsk hact hkeep hsv, rfl, rfl, rfl, rfl, rfl, rfl, ?_⟩
  simp only [postMeta]
  cases cfg.extractor with
  | none => rfl
  | some e => cases e <;> rfl

/-- The class recorded is the operation's class. -/
theorem C18_class (ao : AliasOracle) (cfg : OpCfg) (data : Data) (f : Option Bool) (d : Int) :
    (postMeta ao cfg data f d).cls = cfg.cls := rfl

/-- The duration is the difference of the two clock readings, hence non-negative for a monotone clock. -/
theorem C18_duration (c : List Nat) (hmono : clockAt c 0 ≤ clockAt c 1) :
    0 ≤ (clockAt c 1 : Int) - (clockAt c 0 : Int) := by omega

/-- The exception flag says whether the run ended in an exception, for every run that was not cut short; it is absent
for a run terminated by an interrupt-style exception. -/
theorem C18_exc_flag (e : End) :
    (∀ v, e = .out (.ret v) → excFlagOf e = some false) ∧ (∀ t, e = .out (.exc t) → excFlagOf e = some true) ∧
    (∀ i, e = .interrupt i → excFlagOf e = none) :=
  ⟨fun _ h => by rw [h]; rfl, fun _ h => by rw [h]; rfl, fun _ h => by rw [h]; rfl⟩

/-- **Incomplete iff cut short.**  An operation that returned or raised an ordinary exception is never flagged incomplete;
one terminated by an interrupt-style exception — at any step, also inside an intercepted body — always is. -/
theorem C18_incomplete (ao : AliasOracle) (cfg : OpCfg) (s : St) (p : Prog) (a : Active)
    (hidle : s.Idle) (hwf : p.AliasesWF ao) (hact : (atFinally cfg s p).active = some a) :
    (!(hasOpOutput ao.containsOp a.data)) =
      (match (exec (opened cfg s) p).2 with
       | .out (.ret _) => false
       | .out (.exc t) => isFramework t
       | .interrupt _ => true) := by
  rw [atFinally_has_op_output ao cfg s p a hidle.2.2.2.1 hidle.2.2.2.2.1 hwf hact]
  cases (exec (opened cfg s) p).2 with
  | interrupt i => rfl
  | out o => cases o <;> simp

/-- The result the caller saw is the result of the program run inside the scope (so the two statements above speak about
the same outcome). -/
theorem C18_outcome (ao : AliasOracle) (cfg : OpCfg) (s : St) (p : Prog)
    (hidle : s.Idle) (hen : s.enabled = true) (hsk : cfg.params.skipped = false) :
    (runOperation ao cfg s p).2 = (exec (opened cfg s) p).2 := by
  obtain ⟨ha, _, _, hp, hpo, _⟩ := hidle
  rw [runOperation_recording ao cfg s p hp hen hsk ha]
  exact (execOperationFunc_record (opened cfg s) p (opened_scope cfg s hp hpo).1).1

/-- The user's extracted metadata is merged when the extractor succeeds, and none of it when it raises or returns junk. -/
theorem C18_extractor (ao : AliasOracle) (cfg : OpCfg) (data : Data) (f : Option Bool) (d : Int) :
    (∀ fields, cfg.extractor = some (.ok fields) → (postMeta ao cfg data f d).user = fields) ∧
    (cfg.extractor = some .fails → (postMeta ao cfg data f d).user = []) ∧
    (cfg.extractor = none → (postMeta ao cfg data f d).user = []) := by
  refine ⟨fun fields h => by simp [postMeta, h], fun h => by simp [postMeta, h], fun h => by simp [postMeta, h]⟩

/-- Known finding K5: an output alias containing the reserved operation alias makes an interrupted run look complete. -/
theorem C18_alias_counterexample (ao : AliasOracle) (hbad : ao.containsOp "x_tape_recorder_operation_y" = true) :
    hasOpOutput ao.containsOp [(.outArgs "x_tape_recorder_operation_y" 1, .sent [] [])] = true := by
  simp [hasOpOutput, hbad]

/-! Non-vacuity -/
example : clockAt [3, 7, 9] 0 ≤ clockAt [3, 7, 9] 1 := by decide
example : (Prog.callOut { name := "g", alias := "g", prepare := none, failOnMissing := true, default := .atom "" } ⟨[], []⟩
    (.done (.interrupt "KeyboardInterrupt")) (fun _ => .done (.out (.ret (.atom "1"))))).AliasesWF
      ⟨fun a => a == opAlias, by simp⟩ := by
  refine ⟨by decide, trivial, fun _ => trivial⟩

/-- The duration is always part of what the recorder saves (`play()` reads it back unconditionally; only a recording that
was not made by the recorder can lack it). -/
theorem C18_duration_recorded (ao : AliasOracle) (cfg : OpCfg) (data : Data) (excFlag : Option Bool) (d : Int) :
    (postMeta ao cfg data excFlag d).hasDuration = true ∧ (postMeta ao cfg data excFlag d).duration = d := ⟨rfl, rfl⟩

end Properties.C18
